(* Proofs for C13 (statements in props/C13.v). *)
From Cam Require Import Outcome Bytes Mem U3VTables RegTables RegMap.

(* evaluate 2 ^ k for literal k only *)
Ltac pows :=
  change (2 ^ 0) with 1 in *; change (2 ^ 1) with 2 in *; change (2 ^ 2) with 4 in *;
  change (2 ^ 3) with 8 in *; change (2 ^ 4) with 16 in *; change (2 ^ 6) with 64 in *;
  change (2 ^ 8) with 256 in *; change (2 ^ 10) with 1024 in *; change (2 ^ 16) with 65536 in *;
  change (2 ^ 24) with 16777216 in *; change (2 ^ 32) with 4294967296 in *;
  change (2 ^ 64) with 18446744073709551616 in *.

(* ---- tables ------------------------------------------------------------------------------------ *)

Lemma tables_match :
  abrm_table = std_abrm /\ sbrm_table = std_sbrm /\ eirm_table = std_eirm /\ sirm_table = std_sirm /\
  manifest_entry_table = std_manifest_entry.
Proof. repeat split; reflexivity. Qed.

(* consecutive registers: positive length, each ends before the next begins *)
Fixpoint chain (l : list (Z * Z)) : bool :=
  match l with
  | [] => true
  | r1 :: t => (0 <? snd r1) &&
               match t with [] => true | r2 :: _ => (fst r1 + snd r1 <=? fst r2) end && chain t
  end.

Lemma chain_cons r1 t : chain (r1 :: t) =
  (0 <? snd r1) && match t with [] => true | r2 :: _ => (fst r1 + snd r1 <=? fst r2) end && chain t.
Proof. reflexivity. Qed.

Lemma chain_all l : chain l = true -> forall r, In r l -> 0 < snd r.
Proof.
  induction l as [|r1 t IH]; intros H r Hin; [destruct Hin|].
  rewrite chain_cons in H. apply andb_prop in H as [H Ht]. apply andb_prop in H as [Hp _].
  destruct Hin as [<-|Hin]; [apply Z.ltb_lt in Hp; lia|auto].
Qed.

Lemma chain_head l r1 : chain (r1 :: l) = true -> forall r, In r l -> fst r1 + snd r1 <= fst r.
Proof.
  revert r1; induction l as [|r2 t IH]; intros r1 H r Hin; [destruct Hin|].
  rewrite chain_cons in H. apply andb_prop in H as [H Ht]. apply andb_prop in H as [Hp Hn].
  destruct Hin as [<-|Hin]; [apply Z.leb_le in Hn; lia|].
  pose proof (IH r2 Ht r Hin). pose proof (chain_all _ Ht r2 (or_introl eq_refl)).
  apply Z.leb_le in Hn. lia.
Qed.

Lemma chain_lt l : chain l = true -> forall i j r1 r2, (i < j)%nat ->
  nth_error l i = Some r1 -> nth_error l j = Some r2 -> fst r1 + snd r1 <= fst r2.
Proof.
  induction l as [|r t IH]; intros H i j r1 r2 Hij H1 H2; [destruct i; discriminate|].
  destruct j as [|j]; [lia|]. cbn [nth_error] in H2.
  destruct i as [|i].
  - cbn [nth_error] in H1. injection H1 as <-. eapply chain_head; eauto using nth_error_In.
  - cbn [nth_error] in H1. rewrite chain_cons in H. apply andb_prop in H as [_ Ht].
    eapply (IH Ht i j); eauto. lia.
Qed.

Lemma chain_disjoint l : chain l = true -> forall i j r1 r2, i <> j ->
  nth_error l i = Some r1 -> nth_error l j = Some r2 ->
  0 < snd r1 /\ (fst r1 + snd r1 <= fst r2 \/ fst r2 + snd r2 <= fst r1).
Proof.
  intros H i j r1 r2 Hij H1 H2. split.
  - eapply chain_all; eauto using nth_error_In.
  - destruct (Nat.lt_ge_cases i j) as [Hlt|Hge].
    + left. eapply chain_lt; eauto.
    + right. eapply (chain_lt l H j i); eauto. lia.
Qed.

Lemma no_overlap : forall t,
  In t [abrm_table; sbrm_table; eirm_table; sirm_table; manifest_entry_table] ->
  forall i j r1 r2, i <> j -> nth_error t i = Some r1 -> nth_error t j = Some r2 ->
    0 < snd r1 /\ (fst r1 + snd r1 <= fst r2 \/ fst r2 + snd r2 <= fst r1).
Proof.
  intros t Ht. apply chain_disjoint.
  cbn [In] in Ht. repeat (destruct Ht as [<-|Ht]; [vm_compute; reflexivity|]). destruct Ht.
Qed.

(* a manifest entry's registers lie inside its 64 bytes, the SBRM / SIRM registers start at 0 *)
Lemma entry_fits : forall r, In r manifest_entry_table -> 0 <= fst r /\ fst r + snd r <= std_manifest_entry_size.
Proof.
  intros r H. cbn [In manifest_entry_table] in H.
  repeat (destruct H as [<-|H]; [vm_compute; split; discriminate|]). destruct H.
Qed.

(* ---- memory -------------------------------------------------------------------------------------- *)

Definition mem_ok (m : mem) : Prop := forall a, 0 <= m a < 256.

Lemma mread_length m a n : length (mread m a n) = n.
Proof. unfold mread. now rewrite map_length, seq_length. Qed.

Lemma zlen_mread m a n : zlen (mread m a n) = Z.of_nat n.
Proof. unfold zlen. now rewrite mread_length. Qed.

Lemma mread_ok m a n : mem_ok m -> bytes_ok (mread m a n).
Proof.
  intros H. unfold mread, bytes_ok. apply Forall_forall. intros x Hx.
  apply in_map_iff in Hx as [i [<- _]]. apply H.
Qed.

Lemma mread_ext m m' a n :
  (forall x, a <= x < a + Z.of_nat n -> m' x = m x) -> mread m' a n = mread m a n.
Proof.
  intros H. unfold mread. apply map_ext_in. intros i Hi. apply in_seq in Hi. apply H. lia.
Qed.

Lemma mwrite_outside m a bs x : x < a \/ a + zlen bs <= x -> mwrite m a bs x = m x.
Proof.
  intros H. unfold mwrite.
  destruct (Z.leb_spec a x); destruct (Z.ltb_spec x (a + zlen bs)); cbn [andb]; auto; lia.
Qed.

Lemma nth_mread m a n i : (i < n)%nat -> nth i (mread m a n) 0 = m (a + Z.of_nat i).
Proof.
  intros Hi. unfold mread. set (f := fun i : nat => m (a + Z.of_nat i)).
  rewrite (nth_indep _ 0 (f 0%nat)) by (now rewrite map_length, seq_length).
  rewrite map_nth, seq_nth by lia. reflexivity.
Qed.

Lemma mread_mwrite_same m a bs : mread (mwrite m a bs) a (length bs) = bs.
Proof.
  apply nth_ext with (d := 0) (d' := 0); [apply mread_length|].
  intros i Hi. rewrite mread_length in Hi. rewrite nth_mread by lia.
  unfold mwrite, zlen.
  destruct (Z.leb_spec a (a + Z.of_nat i)); [|lia].
  destruct (Z.ltb_spec (a + Z.of_nat i) (a + Z.of_nat (length bs))); [|lia].
  cbn [andb]. f_equal. lia.
Qed.

Lemma mwrite_ok m a bs : mem_ok m -> bytes_ok bs -> mem_ok (mwrite m a bs).
Proof.
  intros Hm Hb x. unfold mwrite.
  destruct ((a <=? x) && (x <? a + zlen bs)) eqn:E; [|apply Hm].
  apply andb_prop in E as [E1 E2]. apply Z.leb_le in E1. apply Z.ltb_lt in E2.
  unfold bytes_ok in Hb. rewrite Forall_forall in Hb. apply Hb. apply nth_In. unfold zlen in E2. lia.
Qed.

(* ---- decoders: the code's shifts and masks = the standard's fields ------------------------------- *)

Definition kind_of (k : dec) : kind :=
  match k with
  | DVer32 => KVersion32 | DFileVer => KFileVersion | DStr => KString | DU32 | DU64 => KUInt
  | DDurMs => KMillis | DSpeed => KSpeed | DAlign => KAlignment | DBool0 => KStreamEnable
  | DFileInfo => KFileInfo | DSha1 => KHash
  end.

(* size the ParseBytes instance insists on (None: any length) *)
Definition dec_size (k : dec) : option Z :=
  match k with DStr | DSha1 => None | DU64 => Some 8 | _ => Some 4 end.

Lemma land1 x : Z.land x 1 = x mod 2.
Proof. change 1 with (Z.ones 1). rewrite Z.land_ones by lia. reflexivity. Qed.
Lemma land7 x : Z.land x 7 = x mod 8.
Proof. change 7 with (Z.ones 3). rewrite Z.land_ones by lia. reflexivity. Qed.
Lemma land63 x : Z.land x 63 = x mod 64.
Proof. change 63 with (Z.ones 6). rewrite Z.land_ones by lia. reflexivity. Qed.
Lemma land255 x : Z.land x 255 = x mod 256.
Proof. change 255 with (Z.ones 8). rewrite Z.land_ones by lia. reflexivity. Qed.
Lemma land65535 x : Z.land x 65535 = x mod 65536.
Proof. change 65535 with (Z.ones 16). rewrite Z.land_ones by lia. reflexivity. Qed.
Lemma shr10 x : Z.shiftr x 10 = x / 1024.
Proof. rewrite Z.shiftr_div_pow2 by lia. reflexivity. Qed.
Lemma shr16 x : Z.shiftr x 16 = x / 65536.
Proof. rewrite Z.shiftr_div_pow2 by lia. reflexivity. Qed.
Lemma shr24 x : Z.shiftr x 24 = x / 16777216.
Proof. rewrite Z.shiftr_div_pow2 by lia. reflexivity. Qed.

Lemma bit_set_spec w k : 0 <= k -> bit_set w k = spec_bit w k.
Proof.
  intros Hk. unfold bit_set, spec_bit. rewrite Z.shiftr_div_pow2 by lia. now rewrite land1.
Qed.

Lemma parse_uint_ok n bs : zlen bs = n -> parse_uint n bs = Ok (of_le bs).
Proof. intros H. unfold parse_uint. now rewrite H, Z.eqb_refl. Qed.

Lemma of_le_lt bs n : bytes_ok bs -> zlen bs = Z.of_nat n -> 0 <= of_le bs < 256 ^ Z.of_nat n.
Proof. intros Hb Hl. pose proof (of_le_bound bs Hb) as H. unfold zlen in Hl. now rewrite Hl in H. Qed.

Lemma of_le_u32 bs : bytes_ok bs -> zlen bs = 4 -> 0 <= of_le bs < 4294967296.
Proof. intros Hb Hl. exact (of_le_lt bs 4 Hb Hl). Qed.
Lemma of_le_u64 bs : bytes_ok bs -> zlen bs = 8 -> 0 <= of_le bs < 18446744073709551616.
Proof. intros Hb Hl. exact (of_le_lt bs 8 Hb Hl). Qed.

Lemma enum2_spec x : enum2 x = spec_enum2 x.
Proof. reflexivity. Qed.

Lemma decode_spec k bs : bytes_ok bs -> (forall n, dec_size k = Some n -> zlen bs = n) ->
  decode k bs = spec_decode (kind_of k) bs.
Proof.
  intros Hb Hs. destruct k; cbn [kind_of]; unfold decode, spec_decode;
    try (rewrite (parse_uint_ok 4) by (apply Hs; reflexivity));
    try (rewrite (parse_uint_ok 8) by (apply Hs; reflexivity));
    cbn [bind]; try reflexivity.
  - (* version32 *)
    pose proof (of_le_u32 bs Hb (Hs 4 eq_refl)) as Hw. set (w := of_le bs) in *.
    rewrite shr16, !land65535. pows. f_equal. f_equal. dlia.
  - (* file version *)
    pose proof (of_le_u32 bs Hb (Hs 4 eq_refl)) as Hw. set (w := of_le bs) in *.
    rewrite shr16, shr24, !land255, land65535. pows. f_equal. f_equal. dlia.
  - (* alignment *)
    set (w := of_le bs). rewrite shr24. pows.
    destruct (Z.leb_spec 32 (w / 16777216)); destruct (Z.ltb_spec (w / 16777216) 32); try lia; auto.
    now rewrite Z.shiftl_1_l.
  - (* stream enable *)
    set (w := of_le bs). unfold spec_bit. rewrite land1. pows. now rewrite Z.div_1_r.
  - (* file info *)
    pose proof (of_le_u32 bs Hb (Hs 4 eq_refl)) as Hw. set (w := of_le bs) in *.
    rewrite shr10, shr16, shr24, land7, land63, !land255, !enum2_spec. pows.
    f_equal. f_equal. dlia.
Qed.

(* ---- vocabulary of the statements ---------------------------------------------------------------- *)

(* address the standard assigns to a register of a map located at [base] (the ABRM is at 0) *)
Definition reg_addr (m : regmap) (base off : Z) : Z := match m with ABRM => off | _ => base + off end.

(* the register lies inside the 64-bit address space *)
Definition in_space (m : regmap) (base : Z) (reg : Z * Z) : Prop :=
  reg_addr m base (fst reg) + snd reg <= 18446744073709551616.

(* the capability bit of an optional register is set *)
Definition gate_open (g : getter) (c : ctx) : Prop :=
  match std_getter_gate g with Some b => spec_bit (c_cap c) b = true | None => True end.

(* the device after one more (successful or failed) access [x]; memory unchanged *)
Definition logged (d : rdev) (x : access) : rdev :=
  {| rd_mem := rd_mem d; rd_log := x :: rd_log d; rd_count := rd_count d + 1; rd_fail := rd_fail d |}.

(* the bytes of a register in a memory image *)
Definition reg_bytes (mm : mem) (m : regmap) (base : Z) (reg : Z * Z) : list Z :=
  mread mm (reg_addr m base (fst reg)) (Z.to_nat (snd reg)).

(* ---- facts about the accessor table, by enumeration of the 42 getters ------------------------------ *)

Lemma desc_reg g : (g_map (getter_desc g), g_reg (getter_desc g)) = std_getter_reg g.
Proof. destruct g; reflexivity. Qed.
Lemma desc_gate g : g_gate (getter_desc g) = std_getter_gate g.
Proof. destruct g; reflexivity. Qed.
Lemma desc_kind g : kind_of (g_dec (getter_desc g)) = std_kind g.
Proof. destruct g; reflexivity. Qed.
Lemma desc_size g n : dec_size (g_dec (getter_desc g)) = Some n -> snd (g_reg (getter_desc g)) = n.
Proof. destruct g; intros H; vm_compute in H |- *; congruence. Qed.
Lemma desc_len_pos g : 0 < snd (g_reg (getter_desc g)).
Proof. destruct g; reflexivity. Qed.
Lemma desc_off_nonneg g : 0 <= fst (g_reg (getter_desc g)).
Proof. destruct g; vm_compute; discriminate. Qed.
Lemma desc_gate_nonneg g b : g_gate (getter_desc g) = Some b -> 0 <= b.
Proof. destruct g; intros H; vm_compute in H; try discriminate; injection H as <-; lia. Qed.
Lemma std_reg_in_table g : In (snd (std_getter_reg g)) (std_table (fst (std_getter_reg g))).
Proof. destruct g; vm_compute; tauto. Qed.

(* ---- one register read ----------------------------------------------------------------------------- *)

Lemma rdev_read_ok d a n : rd_count d <> rd_fail d -> a + n <= 18446744073709551616 ->
  rdev_read d a n = (Ok (mread (rd_mem d) a (Z.to_nat n)), logged d (RdAcc a n)).
Proof.
  intros Hf Hr. unfold rdev_read, rdev_check.
  destruct (Z.eqb_spec (rd_count d) (rd_fail d)); [contradiction|].
  destruct (Z.ltb_spec 18446744073709551616 (a + n)); [lia|]. reflexivity.
Qed.

Lemma rdev_write_ok d a bs : rd_count d <> rd_fail d -> a + zlen bs <= 18446744073709551616 ->
  rdev_write d a bs =
    (Ok tt, {| rd_mem := mwrite (rd_mem d) a bs; rd_log := WrAcc a bs :: rd_log d;
               rd_count := rd_count d + 1; rd_fail := rd_fail d |}).
Proof.
  intros Hf Hr. unfold rdev_write, rdev_check.
  destruct (Z.eqb_spec (rd_count d) (rd_fail d)); [contradiction|].
  destruct (Z.ltb_spec 18446744073709551616 (a + zlen bs)); [lia|]. reflexivity.
Qed.

Lemma reg_address_ok m base off len : 0 < len -> in_space m base (off, len) ->
  reg_address m base off = Ok (reg_addr m base off).
Proof.
  unfold in_space, reg_address, reg_addr. cbn [fst snd]. intros Hl Hs. destruct m; auto;
    (destruct (Z.ltb_spec (base + off) 18446744073709551616); [reflexivity|lia]).
Qed.

Lemma reg_address_ok' m base reg : 0 < snd reg -> in_space m base reg ->
  reg_address m base (fst reg) = Ok (reg_addr m base (fst reg)).
Proof. destruct reg as [off len]. apply reg_address_ok. Qed.

Lemma read_decode_ok m reg k c d :
  rd_count d <> rd_fail d -> 0 < snd reg -> in_space m (c_base c) reg ->
  read_decode m reg k c d =
    (decode k (reg_bytes (rd_mem d) m (c_base c) reg),
     logged d (RdAcc (reg_addr m (c_base c) (fst reg)) (snd reg))).
Proof.
  intros Hf Hl Hs. destruct reg as [off len]. cbn [fst snd] in *. unfold read_decode. cbn [fst snd].
  rewrite (reg_address_ok m (c_base c) off len Hl Hs).
  rewrite rdev_read_ok by (auto; exact Hs). reflexivity.
Qed.

Lemma gate_open_bit g c b : gate_open g c -> g_gate (getter_desc g) = Some b -> bit_set (c_cap c) b = true.
Proof.
  unfold gate_open. intros Ho Hg. pose proof (desc_gate_nonneg g b Hg).
  rewrite desc_gate in Hg. rewrite Hg in Ho. now rewrite bit_set_spec.
Qed.

(* the getter = one read of exactly the standard's register, decoded by the code's decoder *)
Lemma run_get_ok g c d :
  gate_open g c -> rd_count d <> rd_fail d ->
  in_space (fst (std_getter_reg g)) (c_base c) (snd (std_getter_reg g)) ->
  run_get g c d =
    (spec_wrap g (decode (g_dec (getter_desc g))
                         (reg_bytes (rd_mem d) (fst (std_getter_reg g)) (c_base c) (snd (std_getter_reg g)))),
     logged d (RdAcc (reg_addr (fst (std_getter_reg g)) (c_base c) (fst (snd (std_getter_reg g))))
                     (snd (snd (std_getter_reg g))))).
Proof.
  intros Ho Hf Hs. rewrite <- desc_reg in *. cbn [fst snd] in *.
  unfold run_get, spec_wrap. rewrite <- desc_gate.
  destruct (g_gate (getter_desc g)) as [b|] eqn:Hg.
  - rewrite (gate_open_bit g c b Ho Hg).
    rewrite read_decode_ok by (auto using desc_len_pos). reflexivity.
  - now rewrite read_decode_ok by (auto using desc_len_pos).
Qed.

Lemma decode_getter_spec g bs : bytes_ok bs -> zlen bs = snd (snd (std_getter_reg g)) ->
  decode (g_dec (getter_desc g)) bs = spec_decode (std_kind g) bs.
Proof.
  intros Hb Hl. rewrite <- desc_kind. apply decode_spec; auto.
  intros n Hn. apply desc_size in Hn. rewrite <- desc_reg in Hl. cbn [snd] in Hl. lia.
Qed.

Lemma zlen_reg_bytes mm m base reg : 0 <= snd reg -> zlen (reg_bytes mm m base reg) = snd reg.
Proof. intros H. unfold reg_bytes. rewrite zlen_mread. lia. Qed.

Lemma std_len_pos g : 0 < snd (snd (std_getter_reg g)).
Proof. rewrite <- desc_reg. apply desc_len_pos. Qed.

(* C13_accessor_ranges *)
Lemma accessor_ranges g c d :
  gate_open g c -> rd_count d <> rd_fail d ->
  in_space (fst (std_getter_reg g)) (c_base c) (snd (std_getter_reg g)) ->
  In (snd (std_getter_reg g)) (std_table (fst (std_getter_reg g))) /\
  snd (run_get g c d) =
    logged d (RdAcc (reg_addr (fst (std_getter_reg g)) (c_base c) (fst (snd (std_getter_reg g))))
                    (snd (snd (std_getter_reg g)))).
Proof.
  intros Ho Hf Hs. split; [apply std_reg_in_table|]. now rewrite run_get_ok.
Qed.

(* C13_decoders_spec *)
Lemma decoders_spec g c d :
  mem_ok (rd_mem d) -> gate_open g c -> rd_count d <> rd_fail d ->
  in_space (fst (std_getter_reg g)) (c_base c) (snd (std_getter_reg g)) ->
  fst (run_get g c d) =
    spec_wrap g (spec_decode (std_kind g)
                   (reg_bytes (rd_mem d) (fst (std_getter_reg g)) (c_base c) (snd (std_getter_reg g)))).
Proof.
  intros Hm Ho Hf Hs. rewrite run_get_ok by auto. cbn [fst]. f_equal.
  apply decode_getter_spec.
  - apply mread_ok, Hm.
  - apply zlen_reg_bytes. pose proof (std_len_pos g). lia.
Qed.

(* C13_optional_gated *)
Lemma optional_gated g c d b :
  std_getter_gate g = Some b -> spec_bit (c_cap c) b = false -> run_get g c d = (Ok VNone, d).
Proof.
  intros Hg Hb. unfold run_get. rewrite desc_gate, Hg.
  assert (0 <= b) by (apply (desc_gate_nonneg g); now rewrite desc_gate).
  rewrite bit_set_spec, Hb by lia. reflexivity.
Qed.

(* ---- no panics ---------------------------------------------------------------------------------------- *)

Lemma decode_no_panic k bs : (forall n, dec_size k = Some n -> zlen bs = n) -> decode k bs <> Panic.
Proof.
  intros Hs. destruct k; unfold decode;
    try (rewrite (parse_uint_ok 4) by (apply Hs; reflexivity));
    try (rewrite (parse_uint_ok 8) by (apply Hs; reflexivity));
    cbn [bind]; unfold enum2;
    repeat match goal with |- context [if ?c then _ else _] => destruct c end; discriminate.
Qed.

Lemma reg_address_no_panic m base off : reg_address m base off <> Panic.
Proof. unfold reg_address. destruct m; try discriminate; destruct (_ <? _); discriminate. Qed.

Lemma read_decode_no_panic m reg k c d :
  0 <= snd reg -> (forall n, dec_size k = Some n -> snd reg = n) -> fst (read_decode m reg k c d) <> Panic.
Proof.
  intros Hl Hs. unfold read_decode.
  pose proof (reg_address_no_panic m (c_base c) (fst reg)) as Ha.
  destruct (reg_address m (c_base c) (fst reg)) as [addr|e|]; cbn [fst]; try discriminate; [|contradiction].
  unfold rdev_read, rdev_check.
  destruct (rd_count d =? rd_fail d); cbn [fst]; [discriminate|].
  destruct (_ <? _); cbn [fst]; [discriminate|].
  apply decode_no_panic. intros n Hn. rewrite zlen_mread. rewrite <- (Hs n Hn). lia.
Qed.

(* C13_decoders_total *)
Lemma decoders_total g c d : fst (run_get g c d) <> Panic.
Proof.
  unfold run_get.
  assert (H : fst (read_decode (g_map (getter_desc g)) (g_reg (getter_desc g)) (g_dec (getter_desc g)) c d) <> Panic).
  { apply read_decode_no_panic.
    - pose proof (desc_len_pos g). lia.
    - intros n Hn. now apply desc_size. }
  destruct (g_gate (getter_desc g)) as [b|]; [|exact H].
  destruct (bit_set (c_cap c) b); [|discriminate].
  destruct (read_decode _ _ _ c d) as [[v|e|] d']; cbn [fst omap] in *; try discriminate. contradiction.
Qed.

Lemma bind2_no_panic {A B} (x : outcome A * rdev) (f : A -> rdev -> outcome B * rdev) :
  fst x <> Panic -> (forall a d, fst (f a d) <> Panic) -> fst (bind2 x f) <> Panic.
Proof. intros Hx Hf. destruct x as [[a|e|] d]; cbn [bind2 fst] in *; auto; discriminate. Qed.

Lemma abrm_new_no_panic d : fst (abrm_new d) <> Panic.
Proof.
  unfold abrm_new. apply bind2_no_panic; [|discriminate].
  apply read_decode_no_panic; [vm_compute; discriminate|]. intros n Hn. vm_compute in Hn |- *. congruence.
Qed.

Lemma sbrm_new_no_panic base d : fst (sbrm_new base d) <> Panic.
Proof.
  unfold sbrm_new. apply bind2_no_panic; [|discriminate].
  apply read_decode_no_panic; [vm_compute; discriminate|]. intros n Hn. vm_compute in Hn |- *. congruence.
Qed.

(* hostile SBRM / manifest / SIRM addresses read from registers are never a panic *)
Lemma abrm_sbrm_no_panic c d : fst (abrm_sbrm c d) <> Panic.
Proof. unfold abrm_sbrm. apply bind2_no_panic; [apply decoders_total|]. intros. apply sbrm_new_no_panic. Qed.
Lemma abrm_manifest_table_no_panic c d : fst (abrm_manifest_table c d) <> Panic.
Proof. unfold abrm_manifest_table. apply bind2_no_panic; [apply decoders_total|]. discriminate. Qed.
Lemma sbrm_sirm_no_panic c d : fst (sbrm_sirm c d) <> Panic.
Proof. unfold sbrm_sirm. apply bind2_no_panic; [apply decoders_total|]. discriminate. Qed.

Lemma entries_no_panic c d : fst (entries c d) <> Panic.
Proof.
  unfold entries. apply bind2_no_panic; [apply decoders_total|]. intros v d'.
  pose proof (reg_address_no_panic MTAB (c_base c) 8) as Ha.
  destruct (reg_address MTAB (c_base c) 8); cbn [fst]; try discriminate; [|contradiction].
  destruct (_ && _); discriminate.
Qed.

(* the entries handed out by ManifestTable::entries: 64-byte records after the 8-byte count, all
   of them at addresses inside the address space (so the iterator's `first + i * 64` cannot overflow) *)
Lemma entries_layout c d n first d' : 0 <= c_base c -> entries c d = (Ok (n, first), d') ->
  first = c_base c + std_manifest_first_entry /\
  forall i, 0 <= i < n ->
    c_base (entry_ctx first i) = c_base c + std_manifest_first_entry + std_manifest_entry_size * i /\
    entry_addr_v0 first i = Ok (c_base (entry_ctx first i)).
Proof.
  intros Hb. unfold entries.
  destruct (run_get GEntryCount c d) as [[v|e|] d1]; cbn [bind2]; try discriminate.
  unfold reg_address. destruct (Z.ltb_spec (c_base c + 8) 18446744073709551616); [|discriminate].
  destruct ((1 <=? val_int v) && _) eqn:E; [discriminate|].
  intros Heq. injection Heq as Hn Hf Hd. subst first. split; [reflexivity|].
  intros i Hi. unfold entry_ctx, plain_ctx, entry_addr_v0, std_manifest_first_entry, std_manifest_entry_size.
  cbn [c_base]. split; [lia|].
  apply andb_false_iff in E. destruct E as [E|E]; [apply Z.leb_gt in E; lia|].
  apply negb_false_iff in E. apply andb_prop in E as [E1 E2].
  apply Z.ltb_lt in E1. apply Z.ltb_lt in E2. rewrite Hn in *.
  destruct (Z.ltb_spec (i * 64) 18446744073709551616); [|lia].
  destruct (Z.ltb_spec (c_base c + 8 + i * 64) 18446744073709551616); [|lia]. reflexivity.
Qed.

(* ---- setters --------------------------------------------------------------------------------------------- *)

Definition setter_gate_open (s : setter) (c : ctx) : Prop :=
  match s with SUserDefinedName _ => spec_bit (c_cap c) CAP_USER_DEFINED_NAME = true | _ => True end.

Definition dump_of (s : setter) : Z -> outcome (list Z) :=
  match s with
  | SUserDefinedName n => dump_str n
  | STimestampLatch => dump_uint 4 1
  | SDeviceConfiguration raw => dump_uint 8 raw
  | SEnableStream => dump_uint 4 1
  | SDisableStream => dump_uint 4 0
  | SMaximumLeaderSize v | SMaximumTrailerSize v | SPayloadTransferSize v | SPayloadTransferCount v
  | SPayloadFinalTransfer1Size v | SPayloadFinalTransfer2Size v => dump_uint 4 v
  end.

Lemma run_set_unfold s c d : setter_gate_open s c ->
  run_set s c d = write_register (fst (std_setter_reg s)) (snd (std_setter_reg s)) (dump_of s) c d.
Proof.
  destruct s as [n| |raw| | |v|v|v|v|v|v]; intros H; try reflexivity.
  unfold run_set, run_set_with. cbn [setter_gate_open] in H. unfold CAP_USER_DEFINED_NAME in H.
  rewrite bit_set_spec, H by lia. reflexivity.
Qed.

Lemma name_ok_split n : setter_arg_ok (SUserDefinedName n) = true ->
  is_ascii n = true /\ has_nul n = false /\ zlen n <= 64 /\ forallb (fun c => 0 <=? c) n = true.
Proof.
  cbn [setter_arg_ok]. intros H.
  apply andb_prop in H as [H H4]. apply andb_prop in H as [H H3]. apply andb_prop in H as [H1 H2].
  apply negb_true_iff in H2. apply Z.leb_le in H3. auto.
Qed.

Lemma dump_of_ok s : setter_arg_ok s = true ->
  dump_of s (snd (snd (std_setter_reg s))) = Ok (std_setter_image s).
Proof.
  destruct s as [n| |raw| | |v|v|v|v|v|v]; intros H; try reflexivity.
  apply name_ok_split in H as (H1 & H2 & H3 & _).
  cbn [dump_of std_setter_reg std_setter_image snd]. unfold dump_str, dump_str_with.
  rewrite H1, H2. cbn [negb orb]. destruct (Z.ltb_spec 64 (zlen n)); [lia|reflexivity].
Qed.

Lemma image_len s : setter_arg_ok s = true -> zlen (std_setter_image s) = snd (snd (std_setter_reg s)).
Proof.
  destruct s as [n| |raw| | |v|v|v|v|v|v]; intros H; try reflexivity.
  apply name_ok_split in H as (_ & _ & H3 & _).
  cbn [std_setter_image std_setter_reg snd]. rewrite zlen_app. unfold zlen at 2. rewrite repeat_length.
  pose proof (zlen_nonneg n). lia.
Qed.

Lemma until_nul_app n k : has_nul n = false -> until_nul (n ++ repeat 0 k) = n.
Proof.
  induction n as [|b r IH]; intros H.
  - destruct k; reflexivity.
  - cbn [has_nul existsb] in H. apply orb_false_iff in H as [Hb Hr].
    cbn [app until_nul]. rewrite Hb. f_equal. apply IH. exact Hr.
Qed.

Lemma ascii_utf8_valid n : is_ascii n = true -> forallb (fun c => 0 <=? c) n = true -> utf8_valid n = true.
Proof.
  induction n as [|b r IH]; intros Ha Hp; [reflexivity|].
  cbn [is_ascii forallb] in Ha, Hp. apply andb_prop in Ha as [Ha1 Ha2]. apply andb_prop in Hp as [Hp1 Hp2].
  cbn [utf8_valid]. unfold in_rng at 1.
  apply Z.ltb_lt in Ha1. apply Z.leb_le in Hp1.
  destruct (Z.leb_spec 0 b); [|lia]. destruct (Z.leb_spec b 127); [|lia]. cbn [andb]. auto.
Qed.

Lemma decode_u32_le v : 0 <= v < 4294967296 -> decode DU32 (le_bytes 4 v) = Ok (VInt v).
Proof.
  intros H. unfold decode. rewrite parse_uint_ok by reflexivity. cbn [bind].
  now rewrite (of_le_le_bytes 4 v) by exact H.
Qed.

Lemma decode_u64_le v : 0 <= v < 18446744073709551616 -> decode DU64 (le_bytes 8 v) = Ok (VInt v).
Proof.
  intros H. unfold decode. rewrite parse_uint_ok by reflexivity. cbn [bind].
  now rewrite (of_le_le_bytes 8 v) by exact H.
Qed.

Lemma u32_arg v : (0 <=? v) && (v <? 2 ^ 32) = true -> 0 <= v < 4294967296.
Proof. intros H. apply andb_prop in H as [H1 H2]. apply Z.leb_le in H1. apply Z.ltb_lt in H2. pows. lia. Qed.
Lemma u64_arg v : (0 <=? v) && (v <? 2 ^ 64) = true -> 0 <= v < 18446744073709551616.
Proof. intros H. apply andb_prop in H as [H1 H2]. apply Z.leb_le in H1. apply Z.ltb_lt in H2. pows. lia. Qed.

(* what the paired getter's decoder makes of the image the setter wrote *)
Lemma image_decodes s g rv : setter_arg_ok s = true -> std_setter_getter s = Some (g, rv) ->
  std_getter_reg g = std_setter_reg s /\
  spec_wrap g (decode (g_dec (getter_desc g)) (std_setter_image s)) = Ok rv.
Proof.
  intros Ha Hg. destruct s as [n| |raw| | |v|v|v|v|v|v]; cbn [std_setter_getter] in Hg; try discriminate;
    injection Hg as <- <-; (split; [reflexivity|]); cbn [std_setter_image getter_desc g_dec];
    unfold spec_wrap; cbn [std_getter_gate omap].
  - (* name *)
    apply name_ok_split in Ha as (H1 & H2 & _ & H4). unfold decode.
    rewrite until_nul_app by exact H2. now rewrite ascii_utf8_valid.
  - (* configuration *)
    rewrite decode_u64_le by (apply u64_arg; exact Ha). reflexivity.
  - vm_compute; reflexivity.
  - vm_compute; reflexivity.
  - rewrite decode_u32_le by (apply u32_arg; exact Ha); reflexivity.
  - rewrite decode_u32_le by (apply u32_arg; exact Ha); reflexivity.
  - rewrite decode_u32_le by (apply u32_arg; exact Ha); reflexivity.
  - rewrite decode_u32_le by (apply u32_arg; exact Ha); reflexivity.
  - rewrite decode_u32_le by (apply u32_arg; exact Ha); reflexivity.
  - rewrite decode_u32_le by (apply u32_arg; exact Ha); reflexivity.
Qed.

Lemma setter_reg_len_pos s : 0 < snd (snd (std_setter_reg s)).
Proof. destruct s; reflexivity. Qed.

Lemma setter_gate_getter s g v c : setter_gate_open s c -> std_setter_getter s = Some (g, v) -> gate_open g c.
Proof.
  destruct s; cbn [std_setter_getter]; intros Ho Hg; try discriminate; injection Hg as <- <-;
    try exact I. exact Ho.
Qed.

(* C13_setter_getter *)
Lemma setter_getter s c d :
  setter_arg_ok s = true -> setter_gate_open s c ->
  rd_count d <> rd_fail d -> rd_count d + 1 <> rd_fail d ->
  in_space (fst (std_setter_reg s)) (c_base c) (snd (std_setter_reg s)) ->
  exists d1,
    run_set s c d = (Ok tt, d1) /\
    rd_log d1 = WrAcc (reg_addr (fst (std_setter_reg s)) (c_base c) (fst (snd (std_setter_reg s))))
                      (std_setter_image s) :: rd_log d /\
    zlen (std_setter_image s) = snd (snd (std_setter_reg s)) /\
    (forall x, x < reg_addr (fst (std_setter_reg s)) (c_base c) (fst (snd (std_setter_reg s))) \/
               reg_addr (fst (std_setter_reg s)) (c_base c) (fst (snd (std_setter_reg s)))
                 + snd (snd (std_setter_reg s)) <= x -> rd_mem d1 x = rd_mem d x) /\
    match std_setter_getter s with
    | Some (g, v) => std_getter_reg g = std_setter_reg s /\ fst (run_get g c d1) = Ok v
    | None => True
    end.
Proof.
  intros Ha Ho Hf Hf1 Hs.
  pose proof (image_len s Ha) as Hlen. pose proof (setter_reg_len_pos s) as Hpos.
  rewrite run_set_unfold by exact Ho. unfold write_register.
  rewrite (reg_address_ok' _ (c_base c) (snd (std_setter_reg s)) Hpos Hs).
  rewrite dump_of_ok by exact Ha.
  rewrite rdev_write_ok by (auto; unfold in_space in Hs; lia).
  eexists. split; [reflexivity|]. cbn [rd_log rd_mem]. split; [reflexivity|]. split; [exact Hlen|].
  split; [intros x Hx; apply mwrite_outside; lia|].
  destruct (std_setter_getter s) as [[g v]|] eqn:Hg; [|exact I].
  destruct (image_decodes s g v Ha Hg) as [Hr Hd]. split; [exact Hr|].
  rewrite run_get_ok.
  - cbn [fst rd_mem]. rewrite Hr. unfold reg_bytes.
    replace (Z.to_nat (snd (snd (std_setter_reg s)))) with (length (std_setter_image s))
      by (unfold zlen in Hlen; lia).
    rewrite mread_mwrite_same. exact Hd.
  - eapply setter_gate_getter; eauto.
  - cbn [rd_count rd_fail]. exact Hf1.
  - rewrite Hr. exact Hs.
Qed.

(* a name that is not ASCII, contains NUL or is longer than the register is refused, device untouched *)
Lemma name_refused n c d :
  is_ascii n && negb (has_nul n) && (zlen n <=? 64) = false -> spec_bit (c_cap c) CAP_USER_DEFINED_NAME = true ->
  run_set (SUserDefinedName n) c d = (Err CE_INVALID_DATA, d).
Proof.
  intros Hbad Ho. rewrite run_set_unfold by exact Ho. unfold write_register.
  cbn [std_setter_reg fst snd reg_address dump_of]. unfold dump_str, dump_str_with.
  destruct (is_ascii n); cbn [negb orb andb] in *; [|reflexivity].
  destruct (has_nul n); cbn [negb orb andb] in *; [reflexivity|].
  apply Z.leb_gt in Hbad. destruct (Z.ltb_spec 64 (zlen n)); [reflexivity|lia].
Qed.

(* an unsupported user defined name: the setter does nothing *)
Lemma name_gated n c d : spec_bit (c_cap c) CAP_USER_DEFINED_NAME = false -> run_set (SUserDefinedName n) c d = (Ok tt, d).
Proof.
  intros H. unfold run_set, run_set_with. unfold CAP_USER_DEFINED_NAME in H. rewrite bit_set_spec, H by lia. reflexivity.
Qed.

Lemma dump_uint_no_panic size v len : len = Z.of_nat size -> dump_uint size v len <> Panic.
Proof. intros ->. unfold dump_uint. rewrite Z.eqb_refl. discriminate. Qed.

Lemma run_set_no_panic s c d : fst (run_set s c d) <> Panic.
Proof.
  assert (W : forall m reg dump, (forall l, l = snd reg -> dump l <> Panic) -> fst (write_register m reg dump c d) <> Panic).
  { intros m reg dump Hd. unfold write_register.
    pose proof (reg_address_no_panic m (c_base c) (fst reg)) as Ha.
    destruct (reg_address m (c_base c) (fst reg)); cbn [fst]; try discriminate; [|contradiction].
    specialize (Hd (snd reg) eq_refl). destruct (dump (snd reg)); cbn [fst]; try discriminate; [|contradiction].
    unfold rdev_write, rdev_check. destruct (_ =? _); [discriminate|]. destruct (_ <? _); discriminate. }
  unfold run_set, run_set_with. destruct s; try (apply W; intros l ->; apply dump_uint_no_panic; reflexivity).
  destruct (negb _); [discriminate|]. apply W. intros l _. unfold dump_str_with.
  destruct (_ || _); [discriminate|]. destruct (_ <? _); discriminate.
Qed.

(* ---- constructors ------------------------------------------------------------------------------------------ *)

Lemma decode_u64_mread mm a : decode DU64 (mread mm a 8) = Ok (VInt (of_le (mread mm a 8))).
Proof. unfold decode. rewrite parse_uint_ok by (now rewrite zlen_mread). reflexivity. Qed.

(* Abrm::new reads the device capability register (0x1C4, 8) *)
Lemma abrm_new_ok d : rd_count d <> rd_fail d ->
  abrm_new d = (Ok {| c_base := 0; c_cap := of_le (mread (rd_mem d) 0x1C4 8) |}, logged d (RdAcc 0x1C4 8)).
Proof.
  intros Hf. unfold abrm_new. rewrite read_decode_ok; [|exact Hf|reflexivity|vm_compute; discriminate].
  cbn [bind2]. unfold reg_bytes. cbn [reg_addr fst snd abrm_DEVICE_CAPABILITY c_base].
  change (Z.to_nat 8) with 8%nat. rewrite decode_u64_mread. reflexivity.
Qed.

(* Sbrm::new(device, base) reads the U3VCP capability register (base + 4, 8) *)
Lemma sbrm_new_ok base d : rd_count d <> rd_fail d -> base + 12 <= 18446744073709551616 ->
  sbrm_new base d = (Ok {| c_base := base; c_cap := of_le (mread (rd_mem d) (base + 4) 8) |},
                     logged d (RdAcc (base + 4) 8)).
Proof.
  intros Hf Hs. unfold sbrm_new. rewrite read_decode_ok; [|exact Hf|reflexivity|].
  - cbn [bind2]. unfold reg_bytes. cbn [reg_addr fst snd sbrm_U3VCP_CAPABILITY_REGISTER c_base].
    change (Z.to_nat 8) with 8%nat. rewrite decode_u64_mread. reflexivity.
  - unfold in_space. cbn [reg_addr fst snd sbrm_U3VCP_CAPABILITY_REGISTER c_base]. lia.
Qed.

(* the capability observers are the standard's bits *)
Lemma capability_bits c :
  device_capability_bits c =
    map (spec_bit (c_cap c)) [CAP_USER_DEFINED_NAME; CAP_FAMILY_NAME; CAP_MULTI_EVENT; CAP_STACKED_COMMANDS;
                              CAP_DEVICE_SOFTWARE_INTERFACE_VERSION] /\
  u3v_capability_bits c = map (spec_bit (c_cap c)) [U3VCAP_SIRM; U3VCAP_EIRM; U3VCAP_IIDC2].
Proof.
  unfold device_capability_bits, u3v_capability_bits. cbn [map].
  unfold CAP_USER_DEFINED_NAME, CAP_FAMILY_NAME, CAP_MULTI_EVENT, CAP_STACKED_COMMANDS,
    CAP_DEVICE_SOFTWARE_INTERFACE_VERSION, U3VCAP_SIRM, U3VCAP_EIRM, U3VCAP_IIDC2.
  rewrite !bit_set_spec by lia. split; reflexivity.
Qed.

(* ---- DeviceConfiguration bit operations -------------------------------------------------------------------- *)

Lemma spec_bit_testbit w k : 0 <= k -> spec_bit w k = Z.testbit w k.
Proof.
  intros Hk. unfold spec_bit. rewrite <- Z.testbit_spec' by lia. destruct (Z.testbit w k); reflexivity.
Qed.

Lemma high_bits_zero w k : 0 <= w < 18446744073709551616 -> 64 <= k -> Z.testbit w k = false.
Proof.
  intros Hw Hk. destruct (Z.eq_dec w 0) as [->|Hn]; [apply Z.bits_0|].
  apply Z.bits_above_log2; [lia|]. apply Z.lt_le_trans with 64; [|lia].
  apply Z.log2_lt_pow2; [lia|]. change (2 ^ 64) with 18446744073709551616. lia.
Qed.

Lemma high_bits_bound x : 0 <= x -> (forall k, 64 <= k -> Z.testbit x k = false) -> x < 18446744073709551616.
Proof.
  intros Hx Hb. assert (E : x = x mod 2 ^ 64).
  { apply Z.bits_inj'. intros n Hn. destruct (Z.lt_ge_cases n 64).
    - now rewrite Z.mod_pow2_bits_low by lia.
    - rewrite Z.mod_pow2_bits_high by lia. apply Hb. lia. }
  rewrite E. change (2 ^ 64) with 18446744073709551616. apply Z.mod_pos_bound. lia.
Qed.

Lemma testbit_2 k : 0 <= k -> Z.testbit 2 k = (1 =? k).
Proof. intros Hk. change 2 with (2 ^ 1). apply Z.pow2_bits_eqb. lia. Qed.

Lemma cfg_disable_ldiff w : cfg_disable_multi_event w = Z.land w (Z.ldiff (Z.ones 64) 2).
Proof. reflexivity. Qed.

Lemma config_bits w : 0 <= w < 2 ^ 64 ->
  cfg_is_multi_event_enabled w = spec_bit w CFG_MULTI_EVENT_ENABLE /\
  (let s := cfg_set_multi_event_enable_bit w in
   0 <= s < 2 ^ 64 /\ forall k, 0 <= k -> spec_bit s k = if k =? CFG_MULTI_EVENT_ENABLE then true else spec_bit w k) /\
  (let u := cfg_disable_multi_event w in
   0 <= u < 2 ^ 64 /\ forall k, 0 <= k -> spec_bit u k = if k =? CFG_MULTI_EVENT_ENABLE then false else spec_bit w k).
Proof.
  change (2 ^ 64) with 18446744073709551616. unfold CFG_MULTI_EVENT_ENABLE. intros Hw.
  split; [unfold cfg_is_multi_event_enabled; apply bit_set_spec; lia|].
  assert (Hs : forall k, 0 <= k -> Z.testbit (cfg_set_multi_event_enable_bit w) k = if k =? 1 then true else Z.testbit w k).
  { intros k Hk. unfold cfg_set_multi_event_enable_bit. change (Z.shiftl 1 1) with 2.
    rewrite Z.lor_spec, testbit_2 by lia. rewrite (Z.eqb_sym 1 k).
    destruct (k =? 1); [apply orb_true_r|apply orb_false_r]. }
  assert (Hu : forall k, 0 <= k -> Z.testbit (cfg_disable_multi_event w) k = if k =? 1 then false else Z.testbit w k).
  { intros k Hk. rewrite cfg_disable_ldiff, Z.land_spec, Z.ldiff_spec, testbit_2 by lia. rewrite (Z.eqb_sym 1 k).
    destruct (Z.eqb_spec k 1); cbn [negb]; [now rewrite andb_false_r, andb_false_r|].
    rewrite andb_true_r. destruct (Z.lt_ge_cases k 64).
    - rewrite Z.ones_spec_low by lia. apply andb_true_r.
    - rewrite (high_bits_zero w k) by lia. reflexivity. }
  split; cbn zeta.
  - split.
    + split; [unfold cfg_set_multi_event_enable_bit; apply Z.lor_nonneg; split; [lia|vm_compute; discriminate]|].
      apply high_bits_bound.
      * unfold cfg_set_multi_event_enable_bit; apply Z.lor_nonneg; split; [lia|vm_compute; discriminate].
      * intros k Hk. rewrite Hs by lia. destruct (Z.eqb_spec k 1); [lia|]. apply high_bits_zero; lia.
    + intros k Hk. rewrite !spec_bit_testbit by lia. apply Hs; lia.
  - split.
    + assert (0 <= cfg_disable_multi_event w)
        by (rewrite cfg_disable_ldiff; apply Z.land_nonneg; left; lia).
      split; [assumption|]. apply high_bits_bound; [assumption|].
      intros k Hk. rewrite Hu by lia. destruct (Z.eqb_spec k 1); [reflexivity|]. apply high_bits_zero; lia.
    + intros k Hk. rewrite !spec_bit_testbit by lia. apply Hu; lia.
Qed.

(* ---- the pinned code (before the repairs) -------------------------------------------------------------------- *)

(* 54740da: version fields were masked with 0xff *)
Lemma version_v0_refuted :
  decode_ver32_v0 [0; 1; 0; 1] = Ok (VVer 0 0 0) /\ spec_decode KVersion32 [0; 1; 0; 1] = Ok (VVer 256 256 0) /\
  decode_filever_v0 [0; 1; 2; 3] = Ok (VVer 3 2 0) /\ spec_decode KFileVersion [0; 1; 2; 3] = Ok (VVer 3 2 256).
Proof. repeat split; vm_compute; reflexivity. Qed.

(* 814d26f: "a\0b" was accepted and read back as "a" *)
Lemma name_v0_refuted :
  exists c d d1, setter_gate_open (SUserDefinedName [97; 0; 98]) c /\
    run_set_with true (SUserDefinedName [97; 0; 98]) c d = (Ok tt, d1) /\
    fst (run_get GUserDefinedName c d1) = Ok (VSome (VStr [97])).
Proof.
  exists {| c_base := 0; c_cap := 1 |}, {| rd_mem := fun _ => 7; rd_log := []; rd_count := 0; rd_fail := -1 |}.
  eexists. split; [vm_compute; reflexivity|]. split; [vm_compute; reflexivity|]. vm_compute. reflexivity.
Qed.

(* 85342f7 / 29d7437: an alignment exponent of 64 or more overflowed the shift *)
Lemma alignment_v0_refuted : decode_align_v0 [0; 0; 0; 64] = Panic.
Proof. vm_compute. reflexivity. Qed.

(* fff5796: base addresses near 2^64 overflowed the address arithmetic *)
Lemma address_v0_refuted :
  reg_address_v0 SBRM 18446744073709551615 4 = Panic /\ entry_addr_v0 (18446744073709551615 - 7) 1 = Panic.
Proof. split; vm_compute; reflexivity. Qed.

(* ---- strings: independent characterisation of until_nul and utf8_valid ------------------------------------------ *)

Lemma until_nul_char bs :
  has_nul (until_nul bs) = false /\
  (bs = until_nul bs \/ exists rest, bs = until_nul bs ++ 0 :: rest).
Proof.
  induction bs as [|b r [IH1 IH2]]; [split; [reflexivity|left; reflexivity]|].
  cbn [until_nul]. destruct (Z.eqb_spec b 0) as [->|Hb].
  - split; [reflexivity|]. right. exists r. reflexivity.
  - split.
    + cbn [has_nul existsb]. apply orb_false_iff. split; [now apply Z.eqb_neq|exact IH1].
    + destruct IH2 as [E|[rest E]]; [left; now rewrite <- E|right; exists rest; cbn [app]; now rewrite <- E].
Qed.

Lemma in_rng_iff lo hi b : in_rng lo hi b = true <-> lo <= b <= hi.
Proof.
  unfold in_rng. rewrite andb_true_iff, Z.leb_le, Z.leb_le. tauto.
Qed.

Lemma in_rng_t lo hi b : lo <= b <= hi -> in_rng lo hi b = true.
Proof. apply in_rng_iff. Qed.
Lemma in_rng_f lo hi b : b < lo \/ hi < b -> in_rng lo hi b = false.
Proof.
  intros H. destruct (in_rng lo hi b) eqn:E; [|reflexivity]. apply in_rng_iff in E. lia.
Qed.

Lemma utf8_encode_valid c rest : scalar c -> utf8_valid rest = true -> utf8_valid (utf8_encode c ++ rest) = true.
Proof.
  intros Hc Hr. unfold utf8_encode, scalar in *.
  destruct (Z.ltb_spec c 128); [|destruct (Z.ltb_spec c 2048); [|destruct (Z.ltb_spec c 65536)]].
  - cbn [app utf8_valid]. rewrite in_rng_t by lia. exact Hr.
  - cbn [app utf8_valid]. rewrite in_rng_f by dlia. rewrite in_rng_t by dlia.
    unfold cont. rewrite in_rng_t by dlia. exact Hr.
  - cbn [app utf8_valid]. rewrite in_rng_f by dlia. rewrite in_rng_f by dlia. rewrite in_rng_t by dlia.
    unfold cont. rewrite (in_rng_t 128 191 (128 + c mod 64)) by dlia. rewrite Hr, !andb_true_r.
    destruct (Z.eqb_spec (224 + c / 4096) 224); [apply in_rng_t; dlia|].
    destruct (Z.eqb_spec (224 + c / 4096) 237); apply in_rng_t; dlia.
  - cbn [app utf8_valid]. rewrite in_rng_f by dlia. rewrite in_rng_f by dlia. rewrite in_rng_f by dlia.
    rewrite in_rng_t by dlia.
    unfold cont. rewrite (in_rng_t 128 191 (128 + c mod 64)) by dlia.
    rewrite (in_rng_t 128 191 (128 + (c / 64) mod 64)) by dlia. rewrite Hr, !andb_true_r.
    destruct (Z.eqb_spec (240 + c / 262144) 240); [apply in_rng_t; dlia|].
    destruct (Z.eqb_spec (240 + c / 262144) 244); apply in_rng_t; dlia.
Qed.

Lemma utf8_complete cps : Forall scalar cps -> utf8_valid (flat_map utf8_encode cps) = true.
Proof.
  induction 1 as [|c r Hc Hr IH]; [reflexivity|]. cbn [flat_map]. now apply utf8_encode_valid.
Qed.

Lemma cont_iff b : cont b = true <-> 128 <= b <= 191.
Proof. unfold cont. apply in_rng_iff. Qed.

Lemma enc1 b0 : 0 <= b0 <= 127 -> utf8_encode b0 = [b0].
Proof. intros H. unfold utf8_encode. destruct (Z.ltb_spec b0 128); [reflexivity|lia]. Qed.

Lemma enc2 b0 b1 : 194 <= b0 <= 223 -> 128 <= b1 <= 191 ->
  utf8_encode ((b0 - 192) * 64 + (b1 - 128)) = [b0; b1].
Proof.
  intros H0 H1. unfold utf8_encode. set (c := (b0 - 192) * 64 + (b1 - 128)).
  destruct (Z.ltb_spec c 128); [subst c; lia|]. destruct (Z.ltb_spec c 2048); [|subst c; lia].
  f_equal; [subst c; dlia|]. f_equal. subst c; dlia.
Qed.

Lemma enc3 b0 b1 b2 : 224 <= b0 <= 239 -> 128 <= b1 <= 191 -> 128 <= b2 <= 191 -> (b0 = 224 -> 160 <= b1) ->
  utf8_encode ((b0 - 224) * 4096 + (b1 - 128) * 64 + (b2 - 128)) = [b0; b1; b2].
Proof.
  intros H0 H1 H2 H3. unfold utf8_encode. set (c := (b0 - 224) * 4096 + (b1 - 128) * 64 + (b2 - 128)).
  destruct (Z.ltb_spec c 128); [subst c; lia|]. destruct (Z.ltb_spec c 2048); [subst c; lia|].
  destruct (Z.ltb_spec c 65536); [|subst c; lia].
  f_equal; [subst c; dlia|]. f_equal; [subst c; dlia|]. f_equal. subst c; dlia.
Qed.

Lemma enc4 b0 b1 b2 b3 : 240 <= b0 <= 244 -> 128 <= b1 <= 191 -> 128 <= b2 <= 191 -> 128 <= b3 <= 191 ->
  (b0 = 240 -> 144 <= b1) ->
  utf8_encode ((b0 - 240) * 262144 + (b1 - 128) * 4096 + (b2 - 128) * 64 + (b3 - 128)) = [b0; b1; b2; b3].
Proof.
  intros H0 H1 H2 H3 H4. unfold utf8_encode.
  set (c := (b0 - 240) * 262144 + (b1 - 128) * 4096 + (b2 - 128) * 64 + (b3 - 128)).
  destruct (Z.ltb_spec c 128); [subst c; lia|]. destruct (Z.ltb_spec c 2048); [subst c; lia|].
  destruct (Z.ltb_spec c 65536); [subst c; lia|].
  f_equal; [subst c; dlia|]. f_equal; [subst c; dlia|]. f_equal; [subst c; dlia|]. f_equal. subst c; dlia.
Qed.

Lemma utf8_sound_n n : forall bs, (length bs <= n)%nat -> utf8_valid bs = true ->
  exists cps, Forall scalar cps /\ bs = flat_map utf8_encode cps.
Proof.
  induction n as [|n IH]; intros bs Hl Hv.
  - destruct bs; [exists []; split; [constructor|reflexivity]|cbn [length] in Hl; lia].
  - destruct bs as [|b0 r]; [exists []; split; [constructor|reflexivity]|].
    cbn [length] in Hl. cbn [utf8_valid] in Hv.
    destruct (in_rng 0 127 b0) eqn:E0.
    { apply in_rng_iff in E0. destruct (IH r ltac:(lia) Hv) as (cps & Hs & ->).
      exists (b0 :: cps). split; [constructor; [left; lia|exact Hs]|]. cbn [flat_map]. now rewrite enc1. }
    destruct (in_rng 194 223 b0) eqn:E1.
    { apply in_rng_iff in E1. destruct r as [|b1 r1]; [discriminate|]. cbn [length] in Hl.
      apply andb_prop in Hv as [Hc1 Hv]. apply cont_iff in Hc1.
      destruct (IH r1 ltac:(lia) Hv) as (cps & Hs & ->).
      exists (((b0 - 192) * 64 + (b1 - 128)) :: cps). split; [constructor; [left; lia|exact Hs]|].
      cbn [flat_map]. now rewrite enc2. }
    destruct (in_rng 224 239 b0) eqn:E2.
    { apply in_rng_iff in E2. destruct r as [|b1 [|b2 r2]]; try discriminate. cbn [length] in Hl.
      apply andb_prop in Hv as [Hv Hr]. apply andb_prop in Hv as [Hc1 Hc2]. apply cont_iff in Hc2.
      destruct (IH r2 ltac:(lia) Hr) as (cps & Hs & ->).
      exists (((b0 - 224) * 4096 + (b1 - 128) * 64 + (b2 - 128)) :: cps).
      destruct (Z.eqb_spec b0 224) as [->|N1].
      - apply in_rng_iff in Hc1. split; [constructor; [left; lia|exact Hs]|]. cbn [flat_map]. rewrite enc3; auto; lia.
      - destruct (Z.eqb_spec b0 237) as [->|N2].
        + apply in_rng_iff in Hc1. split; [constructor; [left; lia|exact Hs]|]. cbn [flat_map]. rewrite enc3; auto; lia.
        + apply cont_iff in Hc1. split; [constructor; [unfold scalar; lia|exact Hs]|]. cbn [flat_map]. rewrite enc3; auto; lia. }
    destruct (in_rng 240 244 b0) eqn:E3; [|discriminate].
    apply in_rng_iff in E3. destruct r as [|b1 [|b2 [|b3 r3]]]; try discriminate. cbn [length] in Hl.
    apply andb_prop in Hv as [Hv Hr]. apply andb_prop in Hv as [Hv Hc3]. apply andb_prop in Hv as [Hc1 Hc2].
    apply cont_iff in Hc2. apply cont_iff in Hc3.
    destruct (IH r3 ltac:(lia) Hr) as (cps & Hs & ->).
    exists (((b0 - 240) * 262144 + (b1 - 128) * 4096 + (b2 - 128) * 64 + (b3 - 128)) :: cps).
    destruct (Z.eqb_spec b0 240) as [->|N1].
    + apply in_rng_iff in Hc1. split; [constructor; [right; lia|exact Hs]|]. cbn [flat_map]. rewrite enc4; auto; lia.
    + destruct (Z.eqb_spec b0 244) as [->|N2].
      * apply in_rng_iff in Hc1. split; [constructor; [right; lia|exact Hs]|]. cbn [flat_map]. rewrite enc4; auto; lia.
      * apply cont_iff in Hc1. split; [constructor; [right; lia|exact Hs]|]. cbn [flat_map]. rewrite enc4; auto; lia.
Qed.

(* utf8_valid accepts exactly the encodings of sequences of Unicode scalar values *)
Lemma utf8_valid_iff bs :
  utf8_valid bs = true <-> exists cps, Forall scalar cps /\ bs = flat_map utf8_encode cps.
Proof.
  split.
  - apply (utf8_sound_n (length bs)). lia.
  - intros (cps & Hs & ->). now apply utf8_complete.
Qed.

Lemma string_spec bs :
  (has_nul (until_nul bs) = false /\
   (bs = until_nul bs \/ exists rest, bs = until_nul bs ++ 0 :: rest)) /\
  (utf8_valid bs = true <-> exists cps, Forall scalar cps /\ bs = flat_map utf8_encode cps).
Proof. split; [apply until_nul_char|apply utf8_valid_iff]. Qed.

(* ---- conjunctions used by the property statements --------------------------------------------------------------- *)

Lemma no_panics c d :
  (forall g, fst (run_get g c d) <> Panic) /\
  (forall s, fst (run_set s c d) <> Panic) /\
  fst (abrm_new d) <> Panic /\ (forall base, fst (sbrm_new base d) <> Panic) /\
  fst (abrm_sbrm c d) <> Panic /\ fst (abrm_manifest_table c d) <> Panic /\
  fst (sbrm_sirm c d) <> Panic /\ fst (entries c d) <> Panic.
Proof.
  exact (conj (fun g => decoders_total g c d) (conj (fun s => run_set_no_panic s c d)
        (conj (abrm_new_no_panic d) (conj (fun b => sbrm_new_no_panic b d)
        (conj (abrm_sbrm_no_panic c d) (conj (abrm_manifest_table_no_panic c d)
        (conj (sbrm_sirm_no_panic c d) (entries_no_panic c d)))))))).
Qed.

Lemma constructors d : rd_count d <> rd_fail d ->
  abrm_new d = (Ok {| c_base := 0; c_cap := of_le (mread (rd_mem d) 0x1C4 8) |}, logged d (RdAcc 0x1C4 8)) /\
  (forall base, base + 12 <= 2 ^ 64 ->
     sbrm_new base d = (Ok {| c_base := base; c_cap := of_le (mread (rd_mem d) (base + 4) 8) |},
                        logged d (RdAcc (base + 4) 8))) /\
  (forall c,
     device_capability_bits c =
       map (spec_bit (c_cap c)) [CAP_USER_DEFINED_NAME; CAP_FAMILY_NAME; CAP_MULTI_EVENT; CAP_STACKED_COMMANDS;
                                 CAP_DEVICE_SOFTWARE_INTERFACE_VERSION] /\
     u3v_capability_bits c = map (spec_bit (c_cap c)) [U3VCAP_SIRM; U3VCAP_EIRM; U3VCAP_IIDC2]).
Proof.
  intros Hf. split; [exact (abrm_new_ok d Hf)|]. split; [|exact capability_bits].
  intros base Hb. apply sbrm_new_ok; [exact Hf|]. change (2 ^ 64) with 18446744073709551616 in Hb. exact Hb.
Qed.

(* ---- non-vacuity: concrete instances satisfying the hypotheses of the theorems ---------------------------------- *)

Definition ex_mem : mem := mem_of 9 [(0x1000, [4; 3; 2; 1]); (0x1C4, [0; 1; 0; 0; 0; 0; 0; 0]); (0x84, [99; 97; 109; 0; 255])].
Definition ex_dev : rdev := {| rd_mem := ex_mem; rd_log := [RdAcc 1 1]; rd_count := 5; rd_fail := -1 |}.

Lemma mem_of_ok seed segs : Forall (fun s => bytes_ok (snd s)) segs -> mem_ok (mem_of seed segs).
Proof.
  intros H a. unfold mem_of. destruct (seg_lookup segs a) as [b|] eqn:E; [|apply Z.mod_pos_bound; lia].
  induction H as [|[s bs] r Hb Hr IH]; [discriminate|]. cbn [seg_lookup] in E.
  destruct (seg_lookup r a) as [b'|]; [injection E as <-; now apply IH|].
  destruct ((s <=? a) && (a <? s + zlen bs)); [|discriminate].
  apply nth_error_In in E. cbn [snd] in Hb. unfold bytes_ok in Hb. rewrite Forall_forall in Hb. now apply Hb.
Qed.

Example ex_mem_ok : mem_ok ex_mem.
Proof. apply mem_of_ok. repeat constructor; cbn; lia. Qed.

(* an SBRM at 0x1000 holding U3V version 0x0102.0x0304 *)
Example ex_getter :
  in_space SBRM 0x1000 (0, 4) /\ gate_open GU3vVersion (plain_ctx 0x1000) /\ rd_count ex_dev <> rd_fail ex_dev /\
  fst (run_get GU3vVersion (plain_ctx 0x1000) ex_dev) = Ok (VVer 258 772 0) /\
  rd_log (snd (run_get GU3vVersion (plain_ctx 0x1000) ex_dev)) = [RdAcc 0x1000 4; RdAcc 1 1].
Proof. repeat split; vm_compute; congruence. Qed.

(* family name supported (capability bit 8): "cam"; not supported: None without device access *)
Example ex_gated :
  fst (run_get GFamilyName {| c_base := 0; c_cap := 256 |} ex_dev) = Ok (VSome (VStr [99; 97; 109])) /\
  run_get GFamilyName {| c_base := 0; c_cap := 255 |} ex_dev = (Ok VNone, ex_dev).
Proof. split; vm_compute; reflexivity. Qed.

(* a setter followed by its getter, at the very top of the address space *)
Example ex_setter :
  let c := plain_ctx (18446744073709551616 - 48) in
  setter_arg_ok (SMaximumTrailerSize 4294967295) = true /\
  in_space SIRM (c_base c) (0x2C, 4) /\
  fst (run_set (SMaximumTrailerSize 4294967295) c ex_dev) = Ok tt /\
  fst (run_get GMaximumTrailerSize c (snd (run_set (SMaximumTrailerSize 4294967295) c ex_dev))) = Ok (VInt 4294967295).
Proof.
  cbn zeta. split; [reflexivity|]. split; [vm_compute; discriminate|]. split; vm_compute; reflexivity.
Qed.

(* a manifest table whose second entry would start beyond the address space is refused *)
Example ex_entries :
  fst (entries (plain_ctx (18446744073709551616 - 16))
         {| rd_mem := mem_of 0 [(18446744073709551616 - 16, [2; 0; 0; 0; 0; 0; 0; 0])]; rd_log := []; rd_count := 0; rd_fail := -1 |})
    = Err CE_INVALID_DEVICE.
Proof. vm_compute. reflexivity. Qed.
