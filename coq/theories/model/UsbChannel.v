(* Model of device/src/u3v/channel.rs (ControlChannel, ReceiveChannel: open / close / is_opened / send / recv /
   set_halt / clear_halt, the free function set_halt) and of Device::{control_channel, event_channel,
   stream_channel} (device.rs), over the thin rusb layer they call (DeviceHandle::{claim_interface,
   release_interface, read_bulk, write_bulk, write_control, clear_halt}, Drop) and an abstract libusb:
   a FIFO plan of scripted answers, one per libusb call, and the log of the calls made.

   A libusb answer is (code, n, data): the return code, the transferred count (bulk) or the returned count
   (control transfer, when code = 0), the bytes the device puts into an IN buffer.  When the plan is used up
   every call succeeds, a bulk transfer moves the whole buffer (IN: the byte pattern 11 + 3 i).

   Error classes are the numbers printed by rust/h_usb (see model/UsbEnum.v). *)
From Cam Require Export Outcome Bytes UsbEnum.

Record resp := mkResp { r_code : Z; r_n : Z; r_data : list Z }.

Inductive ucall :=
| UOpen | UClose
| UClaim (i : Z) | URelease (i : Z) | UClearHalt (e : Z)
| UBulk (e len tmo : Z) (out : option (list Z))
| UControl (rt rq v ix len tmo : Z).

Record world := mkWorld { w_plan : list resp; w_log : list ucall }.

(* one libusb call: logged, answered by the head of the plan *)
Definition do_call (c : ucall) (w : world) : option resp * world :=
  match w_plan w with
  | [] => (None, mkWorld [] (w_log w ++ [c]))
  | r :: p => (Some r, mkWorld p (w_log w ++ [c]))
  end.
(* libusb_close answers nothing *)
Definition do_close (w : world) : world := mkWorld (w_plan w) (w_log w ++ [UClose]).

Definition code_of (r : option resp) : Z := match r with Some r => r_code r | None => 0 end.

(* ---- rusb ------------------------------------------------------------------------------------------ *)
Definition u32 (z : Z) : Z := z mod 2 ^ 32.                       (* timeout.as_millis() as c_uint *)

Fixpoint pattern_from (i : Z) (n : nat) : list Z :=
  match n with O => [] | S k => ((11 + 3 * i) mod 256) :: pattern_from (i + 1) k end.
Definition pattern (n : Z) : list Z := pattern_from 0 (Z.to_nat n).

(* the three arms of the match in read_bulk / write_bulk *)
Definition bulk_result (code n : Z) : outcome Z :=
  if code =? 0 then Ok n
  else if (code =? -10) || (code =? -7) then (if 0 <? n then Ok n else Err (usb_kind code))
  else Err (usb_kind code).

Definition rusb_write_bulk (e : Z) (data : list Z) (tmo : Z) (w : world) : outcome Z * world :=
  if negb (Z.land e 0x80 =? 0) then (Err UE_INVALID_PARAM, w)
  else
    let (r, w') := do_call (UBulk e (zlen data) (u32 tmo) (Some data)) w in
    match r with
    | Some r => (bulk_result (r_code r) (r_n r), w')
    | None => (Ok (zlen data), w')
    end.

(* the buffer after the call: what the device wrote, then the caller's fill byte 0xCD *)
Definition filled (len : Z) (data : list Z) : list Z :=
  let d := firstn (Z.to_nat len) data in d ++ repeat 0xCD (Z.to_nat len - length d).

Definition rusb_read_bulk (e len tmo : Z) (w : world) : outcome (Z * list Z) * world :=
  if negb (Z.land e 0x80 =? 0x80) then (Err UE_INVALID_PARAM, w)
  else
    let (r, w') := do_call (UBulk e len (u32 tmo) None) w in
    match r with
    | Some r => (let? n := bulk_result (r_code r) (r_n r) in Ok (n, filled len (r_data r)), w')
    | None => (Ok (len, filled len (pattern len)), w')
    end.

Definition rusb_write_control (rt rq v ix tmo : Z) (w : world) : outcome Z * world :=
  if negb (Z.land rt 0x80 =? 0) then (Err UE_INVALID_PARAM, w)
  else
    let (r, w') := do_call (UControl rt rq v ix 0 (u32 tmo)) w in
    let res := match r with Some r => if negb (r_code r =? 0) then r_code r else r_n r | None => 0 end in
    (if res <? 0 then Err (usb_kind res) else Ok res, w').

(* ---- the channels ---------------------------------------------------------------------------------- *)
Inductive ckind := KControl | KReceive.

Record chan := mkChan {
  c_kind : ckind;
  c_iface : Z; c_in : Z; c_out : Z;      (* iface_info; c_out is unused for a receive channel *)
  c_opened : bool;                       (* is_opened *)
  c_claimed : bool                       (* rusb's record of the interfaces claimed through the handle *)
}.
Definition set_state (c : chan) (o cl : bool) : chan :=
  mkChan (c_kind c) (c_iface c) (c_in c) (c_out c) o cl.

(* handle.claim_interface / release_interface *)
Definition rusb_claim (c : chan) (w : world) : outcome unit * (chan * world) :=
  let (r, w') := do_call (UClaim (c_iface c)) w in
  if code_of r =? 0 then (Ok tt, (set_state c (c_opened c) true, w')) else (Err (usb_kind (code_of r)), (c, w')).
Definition rusb_release (c : chan) (w : world) : outcome unit * (chan * world) :=
  let (r, w') := do_call (URelease (c_iface c)) w in
  if code_of r =? 0 then (Ok tt, (set_state c (c_opened c) false, w')) else (Err (usb_kind (code_of r)), (c, w')).

Definition ch_open (c : chan) (w : world) : outcome unit * (chan * world) :=
  if negb (c_opened c) then
    match rusb_claim c w with
    | (Ok _, (c', w')) => (Ok tt, (set_state c' true (c_claimed c'), w'))
    | (x, s) => (x, s)
    end
  else (Ok tt, (c, w)).

(* ControlChannel::close sets the flag inside the if, ReceiveChannel::close after it: on an error both return
   before the flag is touched *)
Definition ch_close (c : chan) (w : world) : outcome unit * (chan * world) :=
  if c_opened c then
    match rusb_release c w with
    | (Ok _, (c', w')) => (Ok tt, (set_state c' false (c_claimed c'), w'))
    | (x, s) => (x, s)
    end
  else
    match c_kind c with
    | KControl => (Ok tt, (c, w))
    | KReceive => (Ok tt, (set_state c false (c_claimed c), w))
    end.

Definition ch_send (c : chan) (data : list Z) (tmo : Z) (w : world) : outcome Z * world :=
  rusb_write_bulk (c_out c) data tmo w.
Definition ch_recv (c : chan) (len tmo : Z) (w : world) : outcome (Z * list Z) * world :=
  rusb_read_bulk (c_in c) len tmo w.

(* the free function set_halt: SET_FEATURE(ENDPOINT_HALT) to the endpoint *)
Definition set_halt_ep (e tmo : Z) (w : world) : outcome unit * world :=
  let (r, w') := rusb_write_control 0x02 0x03 0x00 e tmo w in
  (let? _ := r in Ok tt, w').

Definition ch_set_halt (c : chan) (tmo : Z) (w : world) : outcome unit * world :=
  match set_halt_ep (c_in c) tmo w with
  | (Ok _, w') => match c_kind c with KControl => set_halt_ep (c_out c) tmo w' | KReceive => (Ok tt, w') end
  | x => x
  end.

Definition clear_halt_ep (e : Z) (w : world) : outcome unit * world :=
  let (r, w') := do_call (UClearHalt e) w in (try_code (code_of r), w').

Definition ch_clear_halt (c : chan) (w : world) : outcome unit * world :=
  match clear_halt_ep (c_in c) w with
  | (Ok _, w') => match c_kind c with KControl => clear_halt_ep (c_out c) w' | KReceive => (Ok tt, w') end
  | x => x
  end.

(* Drop of the channel = Drop of its rusb handle: release what rusb holds claimed (result ignored), close *)
Definition ch_drop (c : chan) (w : world) : world :=
  do_close (if c_claimed c then snd (do_call (URelease (c_iface c)) w) else w).

(* Device::control_channel / event_channel / stream_channel: device.open()?, then a closed channel *)
Definition ch_new (k : ckind) (iface ein eout : Z) (w : world) : outcome chan * world :=
  let (r, w') := do_call UOpen w in
  (let? _ := try_code (code_of r) in Ok (mkChan k iface ein eout false false), w').

(* ---- histories ------------------------------------------------------------------------------------- *)
Inductive cop :=
| OOpen | OClose | OIsOpened
| OSend (data : list Z) (tmo : Z) | ORecv (len tmo : Z)
| OSetHalt (tmo : Z) | OClearHalt | ORecreate.

Definition show_unit (x : outcome unit) : list Z := show_outcome (fun _ => []) x.

(* the interface description a channel is made from *)
Record cdesc := mkCdesc { cd_kind : ckind; cd_iface : Z; cd_in : Z; cd_out : Z }.

Definition create (cd : cdesc) (w : world) : list Z * (option chan * world) :=
  match ch_new (cd_kind cd) (cd_iface cd) (cd_in cd) (cd_out cd) w with
  | (Ok c, w') => ([0], (Some c, w'))
  | (Err e, w') => ([1; e], (None, w'))
  | (Panic, w') => ([2], (None, w'))
  end.

Definition drop_opt (c : option chan) (w : world) : world :=
  match c with Some c => ch_drop c w | None => w end.

(* one operation of rust/h_usb: what it prints, the channel (None: there is none) and the world after *)
Definition step (cd : cdesc) (o : cop) (s : option chan * world) : list Z * (option chan * world) :=
  let (oc, w) := s in
  match o, oc with
  | ORecreate, _ => create cd (drop_opt oc w)
  | _, None => ([-1], s)
  | OOpen, Some c => let '(r, (c', w')) := ch_open c w in (show_unit r, (Some c', w'))
  | OClose, Some c => let '(r, (c', w')) := ch_close c w in (show_unit r, (Some c', w'))
  | OIsOpened, Some c => ([if c_opened c then 1 else 0], s)
  | OSend data tmo, Some c =>
    match c_kind c with
    | KReceive => ([-3], s)
    | KControl => let (r, w') := ch_send c data tmo w in (show_outcome (fun n => [n]) r, (Some c, w'))
    end
  | ORecv len tmo, Some c =>
    let (r, w') := ch_recv c len tmo w in
    (show_outcome (fun x => fst x :: zlen (snd x) :: snd x) r, (Some c, w'))
  | OSetHalt tmo, Some c => let (r, w') := ch_set_halt c tmo w in (show_unit r, (Some c, w'))
  | OClearHalt, Some c => let (r, w') := ch_clear_halt c w in (show_unit r, (Some c, w'))
  end.

Fixpoint steps (cd : cdesc) (os : list cop) (s : option chan * world) : list Z * (option chan * world) :=
  match os with
  | [] => ([], s)
  | o :: r => let (a, s1) := step cd o s in
              let (b, s2) := steps cd r s1 in (a ++ b, s2)
  end.

Definition show_call (c : ucall) : list Z :=
  match c with
  | UOpen => [3; 0] | UClose => [7; 0]
  | UClaim i => [8; 0; i] | URelease i => [9; 0; i] | UClearHalt e => [10; 0; e]
  | UBulk e len tmo None => [11; 0; e; len; tmo]
  | UBulk e len tmo (Some d) => [11; 0; e; len; tmo; zlen d] ++ d
  | UControl rt rq v ix len tmo => [12; 0; rt; rq; v; ix; len; tmo]
  end.

(* a whole case of rust/h_usb: take the channel, run the operations, report is_opened, drop the channel *)
Definition run_history (cd : cdesc) (plan : list resp) (os : list cop) : list Z :=
  let (a, s0) := create cd (mkWorld plan []) in
  let (b, s1) := steps cd os s0 in
  let fin := match fst s1 with Some c => if c_opened c then 1 else 0 | None => -1 end in
  let w := drop_opt (fst s1) (snd s1) in
  a ++ b ++ [-8; fin; -7] ++ flat_map show_call (w_log w).

(* the channel descriptions of an enumerated device *)
Definition cdesc_of (r : devres) (which : Z) : option cdesc :=
  if which =? 0 then let '(i, a, b) := r_ctrl r in Some (mkCdesc KControl i a b)
  else match (if which =? 1 then r_event r else r_stream r) with
       | Some (i, a) => Some (mkCdesc KReceive i a 0)
       | None => None
       end.

(* chan case: enumerate the one device, then the history on the chosen channel *)
Definition run_chan (d : dev) (which : Z) (plan : list resp) (os : list cop) : list Z :=
  match fst (enumerate_devices 1 [d]) with
  | Panic => [2]
  | Err _ => [-1]
  | Ok [] => [-1]
  | Ok ((_, r) :: _) =>
    match cdesc_of r which with
    | None => [-2]
    | Some cd => run_history cd plan os
    end
  end.
