(* Model of /repo/cameleon/src/camera.rs: Camera<Ctrl, Strm, Ctxt>::{open, load_context,
   start_streaming, stop_streaming, close, params_ctxt} with the expect_node! macro, over a
   DeviceControl + PayloadStream pair whose every method may fail, and a DefaultGenApiCtxt built
   from a description that defines (or not) TLParamsLocked / AcquisitionStart / AcquisitionStop.

   Each method is the sequence of sub-operations of the Rust code, in source order, in a small
   state + trace + failure-plan monad:
     do_op e    a call of a DeviceControl / PayloadStream method (directly, or through a GenApi
                node: a register write / read ends in ctrl.write / ctrl.read).  It is the k-th
                fallible operation of the current call; when the plan fails k with a fault of class
                cls (Io, Timeout, Disconnected, ...) it returns the error of that class, wrapped by the
                layer it went through (GenApiDevice::read_mem / write_mem pass a ControlError on
                unchanged — no retry, no translation), WITHOUT any effect, and the `?` of the Rust
                code leaves the method; otherwise its effect is appended to the trace and applied to
                the state.  Every do_op is logged in the device log of the call (m_att), failed or not.
     need b e   a host-side check ending in `?` (params_ctxt -> GenApiContextMissing, expect_node!
                -> InvalidGenApiXml, `if is_loop_running { return Err(InStreaming) }`).
     emit e     an infallible host-side step (self.ctxt = Some(..), ctxt.clear_cache()).
     panic      async_channel::bounded(0) inside payload::channel(cap, ..): documented panic of
                start_streaming(0).

   Two code versions: [fx = true] is the code that exists now; [fx = false] the pinned code before
   d70bfb8, where start_streaming called ctrl.enable_streaming() before looking for the context.

   State: what the camera branches on (strm.is_loop_running(), self.ctxt) plus the device-side
   state the fakes of rust/h_camera keep (opened flags, stream enable, TLParamsLocked register,
   acquisition, loop) and the cache of the three registers in the context.

   Two further things the descriptions served by rust/h_camera contain:
   * a selector-addressed register bank (<IntReg> with <pIndex Offset="4"> over an Integer selector,
     WriteThrough): the cache of DefaultGenApiCtxt keeps one block per (address, length) of a register
     node, i.e. one per slot; [c_bank c k] is the cached value of slot k ([None]: not cached since the
     context was built / the cache was last cleared), [bank s k] the device's own memory of slot k,
     which the environment may change behind the cache ([CPoke]).  [CBank k] is "select slot k and read
     the bank through params_ctxt": RegisterBase::with_cache_or_read serves the cached block if there
     is one, else reads the device and caches what it read.
   * a description variant in which TLParamsLocked is declared with <pValue> AND <pValueCopy>
     ([n_copy]): PValue::set_value writes the pValue node, then every copy, each with `?`
     (genapi/src/ivalue.rs), so the TLParamsLocked step of start / stop is two device writes.
   * descriptions in which the two commands carry <pIsAvailable> backed by device registers (call code
     49): CommandNode::execute (cameleon/src/genapi/node_kind.rs `delegate!`, genapi/src/command.rs)
     does NOT consult the access mode of the node, it evaluates the CommandValue and writes it through
     <pValue>; the availability registers are never read by start / stop / close, so such a
     description behaves exactly like the conforming one whatever the device does to those registers
     (the environment step [CPoke] on words 4 / 5 of the device memory);
   * a description that keeps TLParamsLocked on the HOST side ([h_tl c = Some b]: an <Integer> with an
     immediate <Value>, a slot of the context's value store holding b): IntegerNode::set_value updates
     the slot (effect [HostTL b], no device access, cannot fail), a params access reads it; the slot
     belongs to the description: it is created with the context and is not touched by clear_cache;
   * descriptions whose AcquisitionStop has <CommandValue>0</CommandValue> ([n_stop0]): the command
     values are constants of the description (nothing the camera or a params write of ANOTHER node does
     changes them); the value is printed with the effect ([eff_code]);
   * [CUser v]: a params write of a further host-side variable (UserVar): no device access, no
     effect on anything the camera does.
   * a description that declares TLParamsLocked as a <MaskedIntReg> ([n_mask]): its set_value reads the
     register back first ([tl_read_back]: the effect GenApiRead, unless the register is cached);
   * [CHold b]: the application takes / drops a second handle of a sharable context: no effect on anything
     the camera does (rust/h_camera runs the sessions with DefaultGenApiCtxt and SharedDefaultGenApiCtxt).
   [tl_feat s] is the value TLParamsLocked was given last, through its register or as a host-side
   variable (what the protocol calls "TLParamsLocked"); [tl_locked s] stays the device register. *)
From Cam Require Export Outcome CameraProto.

(* error classes (numbers = rust/h_camera eclass) *)
(* a failing DeviceControl / PayloadStream operation fails with a fault of some CLASS k (0 Io, 1 Timeout,
   2 Disconnected, 3 Busy / ReceiveError, 4 NotOpened / SendError, 5 InvalidData / InvalidPayload,
   6 InvalidDevice / Poisoned, 7 BufferTooSmall); the caller sees base + k *)
Definition E_CTRL : Z := 100.            (* CameleonError::ControlError(class k) *)
Definition E_STRM : Z := 200.            (* CameleonError::StreamError(class k) *)
Definition E_IN_STREAMING : Z := 12.
Definition E_CTXT_MISSING : Z := 13.
Definition E_INVALID_XML : Z := 14.
Definition E_GENAPI_DEVICE : Z := 300.   (* GenApiError::Device(ControlError of class k) *)
Definition E_CTRL_INVALID_DATA : Z := 105.

(* GenApi context: which SFNC nodes the description defines with the right interface, and which
   register values are cached (TLParamsLocked: the cached value). *)
Record ctx := { n_tl : bool; n_start : bool; n_stop : bool;
                n_copy : bool;                 (* TLParamsLocked has a <pValueCopy> *)
                n_stop0 : bool;                (* AcquisitionStop's CommandValue is 0 (else 1) *)
                n_mask : bool;                 (* TLParamsLocked is a <MaskedIntReg>: written by read-modify-write *)
                c_tl : option bool; c_start : bool; c_stop : bool;
                c_copy : bool;                 (* a value of the mirror register is cached *)
                c_bank : Z -> option Z;        (* cached value of each bank slot *)
                h_tl : option bool             (* TLParamsLocked is a host-side variable holding this *) }.

Record cam := { opened_ctrl : bool; opened_strm : bool; ctxt : option ctx;
                stream_enabled : bool; tl_locked : bool; acquiring : bool;
                loop_running : bool;
                tl_copy : bool;                (* device: the mirror register of TLParamsLocked *)
                bank : Z -> Z;                 (* device: the memory of the register bank *)
                tl_feat : bool                 (* the value TLParamsLocked was given last (register or variable) *) }.

Definition cam0 : cam :=
  {| opened_ctrl := false; opened_strm := false; ctxt := None; stream_enabled := false;
     tl_locked := false; acquiring := false; loop_running := false;
     tl_copy := false; bank := fun _ => 0; tl_feat := false |}.

Definition ctxt_loaded (s : cam) : bool := match ctxt s with Some _ => true | None => false end.
Definition cache_nonempty (s : cam) : bool :=
  match ctxt s with
  | Some c => (match c_tl c with Some _ => true | None => false end) || c_start c || c_stop c
              || c_copy c
  | None => false
  end.
(* the cached value of bank slot k, if any *)
Definition bank_cache (s : cam) (k : Z) : option Z :=
  match ctxt s with Some c => c_bank c k | None => None end.

(* the device view of the state *)
Definition dev_of (s : cam) : dev :=
  {| d_copen := opened_ctrl s; d_sopen := opened_strm s; d_enabled := stream_enabled s;
     d_locked := tl_feat s; d_acq := acquiring s; d_alive := loop_running s;
     d_copy := tl_copy s |}.

(* error a failing operation surfaces as, seen by the caller of the Camera method:
   ctrl.* -> CameleonError::ControlError(Io), strm.* -> StreamError(Io), a register access through
   a GenApi node -> GenApiError::Device *)
Definition err_base (e : effect) : Z :=
  match e with
  | CtrlOpen | CtrlClose | GenApiFetch | EnableStreaming | DisableStreaming => E_CTRL
  | StrmOpen | StrmClose | LoopStart | LoopStop => E_STRM
  | SetTLParamsLocked _ | AcqStart | AcqStop | GenApiRead | CopyTL _ | BankRead _ => E_GENAPI_DEVICE
  | LoadCtxt _ _ _ _ _ _ _ | ClearCache | BankPoke _ _ | HostTL _ => 0
  end.
(* the fault is passed on unchanged: same class, wrapped by the layer it went through *)
Definition err_of (e : effect) (cls : Z) : Z := err_base e + cls.
Arguments err_of : simpl never.

Definition upd_ctx (f : ctx -> ctx) (s : cam) : cam :=
  {| opened_ctrl := opened_ctrl s; opened_strm := opened_strm s; ctxt := match ctxt s with Some c => Some (f c) | None => None end;
     stream_enabled := stream_enabled s; tl_locked := tl_locked s; acquiring := acquiring s; loop_running := loop_running s;
     tl_copy := tl_copy s; bank := bank s; tl_feat := tl_feat s |}.

(* state change of a successful step *)
Definition apply_eff (e : effect) (s : cam) : cam :=
  match e with
  | CtrlOpen => {| opened_ctrl := true; opened_strm := opened_strm s; ctxt := ctxt s;
                  stream_enabled := stream_enabled s; tl_locked := tl_locked s; acquiring := acquiring s; loop_running := loop_running s;
                  tl_copy := tl_copy s; bank := bank s; tl_feat := tl_feat s |}
  | CtrlClose => {| opened_ctrl := false; opened_strm := opened_strm s; ctxt := ctxt s;
                   stream_enabled := stream_enabled s; tl_locked := tl_locked s; acquiring := acquiring s; loop_running := loop_running s;
                   tl_copy := tl_copy s; bank := bank s; tl_feat := tl_feat s |}
  | StrmOpen => {| opened_ctrl := opened_ctrl s; opened_strm := true; ctxt := ctxt s;
                  stream_enabled := stream_enabled s; tl_locked := tl_locked s; acquiring := acquiring s; loop_running := loop_running s;
                  tl_copy := tl_copy s; bank := bank s; tl_feat := tl_feat s |}
  | StrmClose => {| opened_ctrl := opened_ctrl s; opened_strm := false; ctxt := ctxt s;
                   stream_enabled := stream_enabled s; tl_locked := tl_locked s; acquiring := acquiring s; loop_running := loop_running s;
                   tl_copy := tl_copy s; bank := bank s; tl_feat := tl_feat s |}
  | GenApiFetch => s
  | EnableStreaming => {| opened_ctrl := opened_ctrl s; opened_strm := opened_strm s; ctxt := ctxt s;
                         stream_enabled := true; tl_locked := tl_locked s; acquiring := acquiring s; loop_running := loop_running s;
                         tl_copy := tl_copy s; bank := bank s; tl_feat := tl_feat s |}
  | DisableStreaming => {| opened_ctrl := opened_ctrl s; opened_strm := opened_strm s; ctxt := ctxt s;
                          stream_enabled := false; tl_locked := tl_locked s; acquiring := acquiring s; loop_running := loop_running s;
                          tl_copy := tl_copy s; bank := bank s; tl_feat := tl_feat s |}
  | SetTLParamsLocked b =>
      (* IntReg::set_value: ctrl.write, then the written bytes are cached (WriteThrough) *)
      upd_ctx (fun c => {| n_tl := n_tl c; n_start := n_start c; n_stop := n_stop c; n_copy := n_copy c; n_stop0 := n_stop0 c; n_mask := n_mask c;
                          c_tl := Some b; c_start := c_start c; c_stop := c_stop c; c_copy := c_copy c;
                          c_bank := c_bank c; h_tl := h_tl c |})
        {| opened_ctrl := opened_ctrl s; opened_strm := opened_strm s; ctxt := ctxt s;
           stream_enabled := stream_enabled s; tl_locked := b; acquiring := acquiring s; loop_running := loop_running s;
           tl_copy := tl_copy s; bank := bank s; tl_feat := b |}
  | HostTL b =>
      (* IntegerNode::set_value on an immediate <Value>: cx.value_store_mut().update(vid, b) *)
      upd_ctx (fun c => {| n_tl := n_tl c; n_start := n_start c; n_stop := n_stop c; n_copy := n_copy c; n_stop0 := n_stop0 c; n_mask := n_mask c;
                          c_tl := c_tl c; c_start := c_start c; c_stop := c_stop c; c_copy := c_copy c;
                          c_bank := c_bank c; h_tl := Some b |})
        {| opened_ctrl := opened_ctrl s; opened_strm := opened_strm s; ctxt := ctxt s;
           stream_enabled := stream_enabled s; tl_locked := tl_locked s; acquiring := acquiring s; loop_running := loop_running s;
           tl_copy := tl_copy s; bank := bank s; tl_feat := b |}
  | CopyTL b =>
      (* the same for the register <pValueCopy> refers to *)
      upd_ctx (fun c => {| n_tl := n_tl c; n_start := n_start c; n_stop := n_stop c; n_copy := n_copy c; n_stop0 := n_stop0 c; n_mask := n_mask c;
                          c_tl := c_tl c; c_start := c_start c; c_stop := c_stop c; c_copy := true;
                          c_bank := c_bank c; h_tl := h_tl c |})
        {| opened_ctrl := opened_ctrl s; opened_strm := opened_strm s; ctxt := ctxt s;
           stream_enabled := stream_enabled s; tl_locked := tl_locked s; acquiring := acquiring s; loop_running := loop_running s;
           tl_copy := b; bank := bank s; tl_feat := tl_feat s |}
  | AcqStart =>
      upd_ctx (fun c => {| n_tl := n_tl c; n_start := n_start c; n_stop := n_stop c; n_copy := n_copy c; n_stop0 := n_stop0 c; n_mask := n_mask c;
                          c_tl := c_tl c; c_start := true; c_stop := c_stop c; c_copy := c_copy c;
                          c_bank := c_bank c; h_tl := h_tl c |})
        {| opened_ctrl := opened_ctrl s; opened_strm := opened_strm s; ctxt := ctxt s;
           stream_enabled := stream_enabled s; tl_locked := tl_locked s; acquiring := true; loop_running := loop_running s;
           tl_copy := tl_copy s; bank := bank s; tl_feat := tl_feat s |}
  | AcqStop =>
      upd_ctx (fun c => {| n_tl := n_tl c; n_start := n_start c; n_stop := n_stop c; n_copy := n_copy c; n_stop0 := n_stop0 c; n_mask := n_mask c;
                          c_tl := c_tl c; c_start := c_start c; c_stop := true; c_copy := c_copy c;
                          c_bank := c_bank c; h_tl := h_tl c |})
        {| opened_ctrl := opened_ctrl s; opened_strm := opened_strm s; ctxt := ctxt s;
           stream_enabled := stream_enabled s; tl_locked := tl_locked s; acquiring := false; loop_running := loop_running s;
           tl_copy := tl_copy s; bank := bank s; tl_feat := tl_feat s |}
  | LoopStart => {| opened_ctrl := opened_ctrl s; opened_strm := opened_strm s; ctxt := ctxt s;
                   stream_enabled := stream_enabled s; tl_locked := tl_locked s; acquiring := acquiring s; loop_running := true;
                   tl_copy := tl_copy s; bank := bank s; tl_feat := tl_feat s |}
  | LoopStop => {| opened_ctrl := opened_ctrl s; opened_strm := opened_strm s; ctxt := ctxt s;
                  stream_enabled := stream_enabled s; tl_locked := tl_locked s; acquiring := acquiring s; loop_running := false;
                  tl_copy := tl_copy s; bank := bank s; tl_feat := tl_feat s |}
  | GenApiRead =>
      (* IntReg::value without a cached value: ctrl.read, then the bytes read are cached *)
      upd_ctx (fun c => {| n_tl := n_tl c; n_start := n_start c; n_stop := n_stop c; n_copy := n_copy c; n_stop0 := n_stop0 c; n_mask := n_mask c;
                          c_tl := Some (tl_locked s); c_start := c_start c; c_stop := c_stop c; c_copy := c_copy c;
                          c_bank := c_bank c; h_tl := h_tl c |}) s
  | BankRead k =>
      (* RegisterBase::read_and_cache at address base + 4 * k: ctrl.read, then
         cx.cache_data(nid, address, length, buf): the block of THIS slot is stored, the blocks of the
         other slots stay as they are *)
      upd_ctx (fun c => {| n_tl := n_tl c; n_start := n_start c; n_stop := n_stop c; n_copy := n_copy c; n_stop0 := n_stop0 c; n_mask := n_mask c;
                          c_tl := c_tl c; c_start := c_start c; c_stop := c_stop c; c_copy := c_copy c;
                          c_bank := fun j => if j =? k then Some (bank s k) else c_bank c j; h_tl := h_tl c |}) s
  | BankPoke k v =>
      (* the device changes its own memory; the host is not involved *)
      {| opened_ctrl := opened_ctrl s; opened_strm := opened_strm s; ctxt := ctxt s;
         stream_enabled := stream_enabled s; tl_locked := tl_locked s; acquiring := acquiring s; loop_running := loop_running s;
         tl_copy := tl_copy s; bank := fun j => if j =? k then v else bank s j; tl_feat := tl_feat s |}
  | LoadCtxt t a p y h z k =>
      (* Ctxt::from_xml: a new context, nothing cached; a host-side TLParamsLocked starts at its <Value> 0 *)
      {| opened_ctrl := opened_ctrl s; opened_strm := opened_strm s; ctxt := Some {| n_tl := t; n_start := a; n_stop := p; n_copy := y; n_stop0 := z; n_mask := k;
                      c_tl := None; c_start := false; c_stop := false; c_copy := false;
                      c_bank := fun _ => None; h_tl := if h then Some false else None |};
         stream_enabled := stream_enabled s; tl_locked := tl_locked s; acquiring := acquiring s; loop_running := loop_running s;
         tl_copy := tl_copy s; bank := bank s; tl_feat := tl_feat s |}
  | ClearCache =>
      (* DefaultCacheStore::clear: self.store.clear() -- the blocks of every node are dropped; the value
         store (host-side variables) is not a cache and stays *)
      upd_ctx (fun c => {| n_tl := n_tl c; n_start := n_start c; n_stop := n_stop c; n_copy := n_copy c; n_stop0 := n_stop0 c; n_mask := n_mask c;
                          c_tl := None; c_start := false; c_stop := false; c_copy := false;
                          c_bank := fun _ => None; h_tl := h_tl c |}) s
  end.

(* ---- the monad -------------------------------------------------------- *)
(* m_att: the device log of the call — every operation ATTEMPTED, in order, failed or not *)
Record mst := { m_cam : cam; m_tr : list effect; m_ops : nat; m_att : list effect;
                m_failed : option (effect * Z) }.

Definition M (A : Type) : Type := (nat -> option Z) -> mst -> outcome A * mst.

Definition ret {A} (a : A) : M A := fun _ s => (Ok a, s).
Definition fail {A} (e : Z) : M A := fun _ s => (Err e, s).
Definition panic {A} : M A := fun _ s => (Panic, s).
Definition bindM {A B} (m : M A) (f : A -> M B) : M B :=
  fun pl s => match m pl s with
              | (Ok a, s') => f a pl s'
              | (Err e, s') => (Err e, s')
              | (Panic, s') => (Panic, s')
              end.
Notation "x <- m ;; k" := (bindM m (fun x => k)) (at level 61, m at next level, right associativity).
Notation "m ;;; k" := (bindM m (fun _ => k)) (at level 61, right associativity).

Definition get : M cam := fun _ s => (Ok (m_cam s), s).

Definition do_op (e : effect) : M unit := fun pl s =>
  let k := m_ops s in
  match pl k with
  | Some cls =>
      (Err (err_of e cls), {| m_cam := m_cam s; m_tr := m_tr s; m_ops := S k; m_att := m_att s ++ [e];
                             m_failed := Some (e, cls) |})
  | None =>
      (Ok tt, {| m_cam := apply_eff e (m_cam s); m_tr := m_tr s ++ [e]; m_ops := S k;
                 m_att := m_att s ++ [e]; m_failed := m_failed s |})
  end.

Definition emit (e : effect) : M unit := fun _ s =>
  (Ok tt, {| m_cam := apply_eff e (m_cam s); m_tr := m_tr s ++ [e]; m_ops := m_ops s;
             m_att := m_att s; m_failed := m_failed s |}).

Definition need (b : bool) (e : Z) : M unit := if b then ret tt else fail e.

(* ---- Camera methods --------------------------------------------------- *)

(* pub fn params_ctxt(&mut self) -> CameleonResult<ParamsCtxt<..>> *)
Definition params_ctxt : M ctx :=
  s <- get ;;
  match ctxt s with
  | Some c => ret c
  | None => fail E_CTXT_MISSING
  end.

(* pub fn open(&mut self):  self.ctrl.open()?; self.strm.open()?; Ok(()) *)
Definition cam_open : M Z :=
  do_op CtrlOpen ;;;
  do_op StrmOpen ;;;
  ret (-1).

(* The description served by the device: (parses, TLParamsLocked ok, AcquisitionStart ok,
   AcquisitionStop ok, TLParamsLocked declared with a <pValueCopy>).  Every description that parses
   also defines the register bank and its selector. *)
Record xmlv := { x_parses : bool; x_tl : bool; x_start : bool; x_stop : bool; x_copy : bool;
                 x_host : bool;      (* TLParamsLocked is a host-side variable (then no <pValueCopy>) *)
                 x_stop0 : bool;     (* AcquisitionStop's CommandValue is 0 *)
                 x_mask : bool       (* TLParamsLocked is a <MaskedIntReg> (bit 0 of its register) *) }.

(* pub fn load_context(&mut self):
     let xml = self.ctrl.genapi()?; self.ctxt = Some(Ctxt::from_xml(&xml)?); Ok(xml) *)
Definition cam_load (x : xmlv) : M Z :=
  do_op GenApiFetch ;;;
  need (x_parses x) E_CTRL_INVALID_DATA ;;;
  emit (LoadCtxt (x_tl x) (x_start x) (x_stop x) (x_copy x) (x_host x) (x_stop0 x) (x_mask x)) ;;;
  ret (-1).

(* Where TLParamsLocked is a <MaskedIntReg>, IInteger::set_value is a read-modify-write
   (genapi/src/masked_int_reg.rs): `let old_reg_value = reg.with_cache_or_read(..)?;` -- the cached block of
   the register if there is one, else a device read (one more fallible operation, whose error is
   returned) that caches what it read -- then the masked bits are replaced and the register is written
   (write_and_cache).  For any other declaration of TLParamsLocked nothing is read back. *)
Definition tl_read_back (c : ctx) : M unit :=
  if n_mask c then
    match c_tl c with
    | Some _ => ret tt
    | None => do_op GenApiRead
    end
  else ret tt.

(* pub fn start_streaming(&mut self, cap: usize) *)
Definition cam_start (fx : bool) (cap : Z) : M Z :=
  s <- get ;;
  need (negb (loop_running s)) E_IN_STREAMING ;;;       (* if self.strm.is_loop_running() { return Err(InStreaming) } *)
  need (negb fx || ctxt_loaded s) E_CTXT_MISSING ;;;    (* d70bfb8: if self.ctxt.is_none() { return Err(GenApiContextMissing) } *)
  do_op EnableStreaming ;;;                             (* self.ctrl.enable_streaming()?; *)
  c <- params_ctxt ;;                                   (* let mut ctxt = self.params_ctxt()?; *)
  need (n_tl c) E_INVALID_XML ;;;                       (* expect_node!(&ctxt, "TLParamsLocked", as_integer) *)
  match h_tl c with                                     (*   .set_value(&mut ctxt, 1)?; *)
  | Some _ => emit (HostTL true)                        (*     ValueKind::Value: the slot of the value store is updated *)
  | None =>
      tl_read_back c ;;;                                (*     MaskedIntRegNode::set_value: reg.with_cache_or_read(..)?  (old register value) *)
      do_op (SetTLParamsLocked true) ;;;                (*     PValue::set_value: self.p_value.set_value(..)?; / write_and_cache *)
      (if n_copy c then do_op (CopyTL true) else ret tt) (*     for nid in self.p_value_copies() { nid.set_value(..)?; } *)
  end ;;;
  need (n_start c) E_INVALID_XML ;;;                    (* expect_node!(&ctxt, "AcquisitionStart", as_command) *)
  do_op AcqStart ;;;                                    (*   .execute(&mut ctxt)?; *)
  (if cap =? 0 then panic else ret tt) ;;;              (* channel(cap, DEFAULT_BUFFER_CAP) *)
  do_op LoopStart ;;;                                   (* self.strm.start_streaming_loop(sender, &mut self.ctrl)?; *)
  ret (-1).

(* pub fn stop_streaming(&mut self) *)
Definition cam_stop : M Z :=
  s <- get ;;
  if negb (loop_running s) then ret (-1) else           (* if !self.strm.is_loop_running() { return Ok(()) } *)
  do_op LoopStop ;;;                                    (* self.strm.stop_streaming_loop()?; *)
  c <- params_ctxt ;;                                   (* let mut ctxt = self.params_ctxt()?; *)
  need (n_stop c) E_INVALID_XML ;;;                     (* expect_node!(&ctxt, "AcquisitionStop", as_command) *)
  do_op AcqStop ;;;                                     (*   .execute(&mut ctxt)?; *)
  need (n_tl c) E_INVALID_XML ;;;                       (* expect_node!(&ctxt, "TLParamsLocked", as_integer) *)
  match h_tl c with                                     (*   .set_value(&mut ctxt, 0)?; *)
  | Some _ => emit (HostTL false)                       (*     ValueKind::Value: the slot of the value store is updated *)
  | None =>
      tl_read_back c ;;;                                (*     MaskedIntRegNode::set_value: reg.with_cache_or_read(..)?  (old register value) *)
      do_op (SetTLParamsLocked false) ;;;               (*     PValue::set_value: self.p_value.set_value(..)?; / write_and_cache *)
      (if n_copy c then do_op (CopyTL false) else ret tt) (*    for nid in self.p_value_copies() { nid.set_value(..)?; } *)
  end ;;;
  do_op DisableStreaming ;;;                            (* self.ctrl.disable_streaming()?; *)
  ret (-1).

(* pub fn close(&mut self) *)
Definition cam_close : M Z :=
  cam_stop ;;;                                          (* self.stop_streaming()?; *)
  do_op CtrlClose ;;;                                   (* self.ctrl.close()?; *)
  do_op StrmClose ;;;                                   (* self.strm.close()?; *)
  s <- get ;;
  (if ctxt_loaded s then emit ClearCache else ret tt) ;;;  (* if let Some(ctxt) = &mut self.ctxt { ctxt.clear_cache() } *)
  ret (-1).

(* "params access": params_ctxt()?, look TLParamsLocked up as the camera does, read its value
   (IntReg::value: the cached bytes if any, else ctrl.read + cache). *)
Definition cam_params : M Z :=
  c <- params_ctxt ;;
  need (n_tl c) E_INVALID_XML ;;;
  match h_tl c with
  | Some b => ret (Z.b2z b)               (* ValueKind::Value: the slot of the value store *)
  | None =>
      match c_tl c with
      | Some b => ret (Z.b2z b)
      | None => do_op GenApiRead ;;; s <- get ;; ret (Z.b2z (tl_locked s))
      end
  end.

(* "bank access": params_ctxt()?, BankSelector.set_value(k) (a value of the context's value store: no
   device access, nothing invalidated), BankReg.value(): IntRegNode::value ->
   RegisterBase::with_cache_or_read at address base + 4 * k:
     if let Some(cache) = cx.get_cache(nid, address, length) { f(cache) }
     else { self.read_and_cache(..)?; f(&buf) } *)
Definition cam_bank (k : Z) : M Z :=
  c <- params_ctxt ;;
  match c_bank c k with
  | Some v => ret v
  | None => do_op (BankRead k) ;;; s <- get ;; ret (bank s k)
  end.

(* the environment: the device's bank slot k becomes v (no camera method is involved) *)
Definition cam_poke (k v : Z) : M Z :=
  emit (BankPoke k v) ;;;
  ret (-1).

(* "params write": params_ctxt()?, UserVar.set_value(v): a further variable of the context (value
   store); no device access, nothing else reads it *)
Definition cam_user (v : Z) : M Z :=
  c <- params_ctxt ;;
  ret (-1).

(* the APPLICATION takes ([true]) / drops ([false]) a second handle of the camera's context
   (`camera.ctxt.clone()` of a sharable context); no camera method is involved and nothing the camera
   does depends on it: close drops the cached values whoever else holds the context *)
Definition cam_hold (b : bool) : M Z := ret (-1).

Inductive call :=
| COpen | CLoad (x : xmlv) | CStart (cap : Z) | CStop | CClose | CParams
| CBank (k : Z) | CPoke (k v : Z) | CUser (v : Z) | CHold (b : bool).

Definition call_body (fx : bool) (c : call) : M Z :=
  match c with
  | COpen => cam_open
  | CLoad x => cam_load x
  | CStart cap => cam_start fx cap
  | CStop => cam_stop
  | CClose => cam_close
  | CParams => cam_params
  | CBank k => cam_bank k
  | CPoke k v => cam_poke k v
  | CUser v => cam_user v
  | CHold b => cam_hold b
  end.

(* result of one call *)
Record callres := { r_res : outcome Z; r_effs : list effect; r_nops : nat; r_atts : list effect;
                    r_failed : option (effect * Z); r_cam : cam }.

Definition run_call (fx : bool) (c : call) (pl : nat -> option Z) (s : cam) : callres :=
  let '(r, m) := call_body fx c pl {| m_cam := s; m_tr := []; m_ops := 0%nat; m_att := []; m_failed := None |} in
  {| r_res := r; r_effs := m_tr m; r_nops := m_ops m; r_atts := m_att m; r_failed := m_failed m;
     r_cam := m_cam m |}.

(* A session: the calls in order; the plan says which (call index, operation index) fail. *)
Fixpoint run_from (fx : bool) (pl : nat -> nat -> option Z) (i : nat) (s : cam) (cs : list call)
  : list callres :=
  match cs with
  | [] => []
  | c :: q => let r := run_call fx c (pl i) s in r :: run_from fx pl (S i) (r_cam r) q
  end.

Definition run (fx : bool) (pl : nat -> nat -> option Z) (cs : list call) : list callres :=
  run_from fx pl 0%nat cam0 cs.

Definition trace_of (rs : list callres) : list effect := concat (map r_effs rs).
Definition final_from (s : cam) (rs : list callres) : cam := last (map r_cam rs) s.
Definition final (rs : list callres) : cam := final_from cam0 rs.

Definition no_failure : nat -> nat -> option Z := fun _ _ => None.
Definition plan_of (l : list (nat * nat * Z)) : nat -> nat -> option Z :=
  fun i j => match find (fun p => Nat.eqb (fst (fst p)) i && Nat.eqb (snd (fst p)) j) l with
             | Some p => Some (snd p)
             | None => None
             end.

(* ---- canonical printing for the correspondence (format of rust/h_camera) ---- *)
(* [z0]: the CommandValue of AcquisitionStop in the description the context was built from is 0; the
   code of the two command writes carries the value written (7 / 19: 1 / 0 to the AcquisitionStart
   register, 8 / 18: 1 / 0 to the AcquisitionStop register) *)
Definition eff_code (z0 : bool) (e : effect) : list Z :=
  match e with
  | CtrlOpen => [1] | StrmOpen => [2] | GenApiFetch => [3] | EnableStreaming => [4]
  | SetTLParamsLocked true => [5] | SetTLParamsLocked false => [6]
  | AcqStart => [7] | AcqStop => [if z0 then 18 else 8] | LoopStart => [9] | LoopStop => [10]
  | DisableStreaming => [11] | CtrlClose => [12] | StrmClose => [13] | GenApiRead => [15]
  | CopyTL true => [16] | CopyTL false => [17]
  | BankRead k => [30 + k]
  | LoadCtxt _ _ _ _ _ _ _ | ClearCache | HostTL _ => []   (* host side: not an event of the fakes *)
  | BankPoke _ _ => []                      (* environment: not an operation of the camera *)
  end.

Definition is_some {A} (o : option A) : bool := match o with Some _ => true | None => false end.

Definition flags_of (s : cam) : Z :=
  Z.b2z (loop_running s) + 2 * Z.b2z (ctxt_loaded s)
  + match ctxt s with
    | Some c => 4 * Z.b2z (match c_tl c with Some _ => true | None => false end)
                + 8 * Z.b2z (c_start c) + 16 * Z.b2z (c_stop c)
                + 2048 * Z.b2z (c_copy c)
                + 4096 * Z.b2z (is_some (c_bank c 0)) + 8192 * Z.b2z (is_some (c_bank c 1))
                + 16384 * Z.b2z (is_some (c_bank c 2)) + 32768 * Z.b2z (is_some (c_bank c 3))
    | None => 0
    end
  + 32 * Z.b2z (opened_ctrl s) + 64 * Z.b2z (opened_strm s) + 128 * Z.b2z (stream_enabled s)
  + 256 * Z.b2z (tl_locked s) + 512 * Z.b2z (acquiring s) + 1024 * Z.b2z (tl_copy s).

Definition show_call (r : callres) : list Z :=
  (* the description in force during the call: a call that executes a command does not load one *)
  let z0 := match ctxt (r_cam r) with Some c => n_stop0 c | None => false end in
  let evs := concat (map (eff_code z0) (r_effs r)) in
  [match r_res r with Ok _ => 0 | Err e => e | Panic => 2 end;
   match r_failed r with Some (e, _) => hd 0 (eff_code z0 e) | None => 0 end;
   zlen (r_atts r)] ++ concat (map (eff_code z0) (r_atts r)) ++ [zlen evs] ++ evs ++
  [match r_res r with Ok v => v | _ => -1 end; flags_of (r_cam r)].

Definition call_of_Z (z : Z) : call :=
  if z =? 0 then COpen else if z =? 3 then CStop else if z =? 4 then CClose
  else if z =? 5 then CParams
  else if (10 <=? z) && (z <=? 19) then CStart (z - 10)
  else if (60 <=? z) && (z <=? 63) then CBank (z - 60)
  else if (70 <=? z) && (z <=? 79) then CUser (z - 70)
  else if z =? 81 then CHold true else if z =? 82 then CHold false
  else if (1000 <=? z) && (z <? 2792) then CPoke ((z - 1000) / 256) ((z - 1000) mod 256)
  else if (48 <=? z) && (z <=? 52) then
       (* conforming descriptions: 48 TLParamsLocked = <pValue> + <pValueCopy>; 49 the two commands carry
          <pIsAvailable> backed by device registers (execute does not consult it: as the plain one);
          50 TLParamsLocked is a host-side variable and AcquisitionStop has CommandValue 0;
          51 AcquisitionStop has CommandValue 0; 52 TLParamsLocked is a <MaskedIntReg> *)
       CLoad {| x_parses := true; x_tl := true; x_start := true; x_stop := true; x_copy := z =? 48;
                x_host := z =? 50; x_stop0 := (z =? 50) || (z =? 51); x_mask := z =? 52 |}
  else let v := z - 20 in
       CLoad {| x_parses := v <? 27; x_tl := v mod 3 =? 0; x_start := (v / 3) mod 3 =? 0;
                x_stop := (v / 9) mod 3 =? 0; x_copy := false; x_host := false; x_stop0 := false;
                x_mask := false |}.

Fixpoint triples_of (l : list Z) : list (nat * nat * Z) :=
  match l with
  | a :: b :: c :: q => (Z.to_nat a, Z.to_nat b, c) :: triples_of q
  | _ => []
  end.

Definition cam_case (fx : bool) (calls plan : list Z) : list Z :=
  0 :: concat (map show_call (run fx (plan_of (triples_of plan)) (map call_of_Z calls))).

(* ---- vocabulary of the C16 statements --------------------------------- *)
(* a call within the property's quantifier for "no device operation failed": start with the
   documented precondition cap > 0, and descriptions that, when they parse, define the three
   SFNC nodes the camera needs *)
Definition good_call (c : call) : Prop :=
  match c with
  | CStart cap => cap <> 0
  | CLoad x => x_parses x = true -> x_tl x = true /\ x_start x = true /\ x_stop x = true
  | _ => True
  end.

(* what a params access of TLParamsLocked reads: the host-side variable where the description keeps
   it there, else the device register *)
Definition tl_value (s : cam) : bool :=
  match ctxt s with
  | Some c => match h_tl c with Some b => b | None => tl_locked s end
  | None => tl_locked s
  end.

(* the accesses of [tl_read_back c]: the read-back of a <MaskedIntReg> TLParamsLocked whose register is not cached *)
Definition tl_read_effs (c : ctx) : list effect :=
  if n_mask c then match c_tl c with Some _ => [] | None => [GenApiRead] end else [].

(* [tl_feat s = false]: TLParamsLocked, as last written (register or host-side variable), is 0 *)
Definition clean (s : cam) : Prop :=
  loop_running s = false /\ tl_feat s = false /\ stream_enabled s = false /\
  acquiring s = false /\ opened_ctrl s = false /\ opened_strm s = false /\
  cache_nonempty s = false /\ (forall k, bank_cache s k = None).

(* operation j is the first one the plan fails *)
Definition first_fail (plc : nat -> option Z) (j : nat) (cls : Z) : Prop :=
  plc j = Some cls /\ forall k, (k < j)%nat -> plc k = None.

(* the fallible operations among the effects (device / stream accesses; LoadCtxt and ClearCache are
   host-side steps, BankPoke is the environment) *)
Definition is_access (e : effect) : bool :=
  match e with LoadCtxt _ _ _ _ _ _ _ | ClearCache | BankPoke _ _ | HostTL _ => false | _ => true end.

(* One session with every single failure point, for the correspondence: the failure-free run, then
   for every call i and every operation j < (operations the failure-free run of call i attempts) the
   run under the plan {(i, j, k)} for every fault class k of [classes i j]; each output is followed by
   the separator -9. *)
(* [classes i j e]: the fault classes for operation j of call i, which is the access e in the failure-free run *)
Definition cam_family_by (fx : bool) (calls : list Z) (classes : nat -> nat -> effect -> list Z) : list Z :=
  let cs := map call_of_Z calls in
  let base := run fx no_failure cs in
  (cam_case fx calls [] ++ [-9]) ++
  concat (map (fun ir : nat * callres =>
                 concat (map (fun j =>
                               concat (map (fun k => cam_case fx calls [Z.of_nat (fst ir); Z.of_nat j; k] ++ [-9])
                                           (classes (fst ir) j (nth j (r_atts (snd ir)) ClearCache))))
                             (seq 0 (r_nops (snd ir)))))
              (combine (seq 0 (length base)) base)).

Definition cam_family (fx : bool) (calls : list Z) (classes : nat -> nat -> list Z) : list Z :=
  cam_family_by fx calls (fun i j _ => classes i j).

Definition all_classes : nat -> nat -> list Z := fun _ _ => [0; 1; 2; 3; 4; 5; 6; 7].
Definition one_class (salt : Z) : nat -> nat -> list Z :=
  fun i j => [(salt + Z.of_nat i + Z.of_nat j) mod 8].

(* every class at the write of the <pValueCopy> mirror and at the bank reads, one rotating class elsewhere *)
Definition focus_classes (salt : Z) : nat -> nat -> effect -> list Z :=
  fun i j e => match e with
               | CopyTL _ | BankRead _ | GenApiRead => [0; 1; 2; 3; 4; 5; 6; 7]
               | _ => one_class salt i j
               end.
