(* Model of device/src/u3v/protocol/stream.rs: Leader::parse, Trailer::parse, the
   three specific leaders and trailers (cursor readers), PayloadType / PayloadStatus
   conversion, and PixelFormat <-> u32 over the table regenerated from
   device/src/pixel_format.rs (gen/PixelTable.v). *)
From Cam Require Export Outcome Bytes Ack PixelTable.

Definition LEADER_MAGIC : Z := 0x4C563355.
Definition TRAILER_MAGIC : Z := 0x54563355.

(* first matching arm wins, as in a Rust match *)
Definition pf_of_code (c : Z) : outcome Z :=
  match lookup c code_to_pf with Some p => Ok p | None => Err E_INVALID_PACKET end.
Definition code_of_pf (p : Z) : option Z := lookup p pf_to_code.

(* 0 Image, 1 ImageExtendedChunk, 2 Chunk *)
Definition payload_type_of (v : Z) : outcome Z :=
  if v =? 0x0001 then Ok 0 else if v =? 0x4001 then Ok 1 else if v =? 0x4000 then Ok 2
  else Err E_INVALID_PACKET.

(* 0 Success, 1 DataDiscarded, 2 DataOverrun *)
Definition payload_status_of (v : Z) : outcome Z :=
  if v =? 0x0000 then Ok 0 else if v =? 0xA100 then Ok 1 else if v =? 0xA101 then Ok 2
  else Err E_INVALID_PACKET.

Record leader := { l_size : Z; l_block_id : Z; l_type : Z; l_raw : list Z }.

Definition parse_leader (bs : list Z) : outcome leader :=
  let? (magic, r1) := rd 4 bs in
  if negb (magic =? LEADER_MAGIC) then Err E_INVALID_PACKET else
  let? (_, r2) := rd 2 r1 in
  let? (size, r3) := rd 2 r2 in
  let? (bid, r4) := rd 8 r3 in
  let? (_, r5) := rd 2 r4 in
  let? (pt, r6) := rd 2 r5 in
  let? ty := payload_type_of pt in
  Ok {| l_size := size; l_block_id := bid; l_type := ty; l_raw := r6 |}.

Record image_leader := {
  il_timestamp : Z; il_pf : Z; il_width : Z; il_height : Z; il_xoff : Z; il_yoff : Z; il_xpad : Z
}.

(* ImageLeader::from_bytes = ImageExtendedChunkLeader::from_bytes *)
Definition parse_image_leader (bs : list Z) : outcome image_leader :=
  let? (ts, r1) := rd 8 bs in
  let? (pfc, r2) := rd 4 r1 in
  let? pf := pf_of_code pfc in
  let? (w, r3) := rd 4 r2 in
  let? (h, r4) := rd 4 r3 in
  let? (xo, r5) := rd 4 r4 in
  let? (yo, r6) := rd 4 r5 in
  let? (xp, r7) := rd 2 r6 in
  let? (_, _) := rd 2 r7 in
  Ok {| il_timestamp := ts; il_pf := pf; il_width := w; il_height := h; il_xoff := xo; il_yoff := yo;
        il_xpad := xp |}.

Definition parse_chunk_leader (bs : list Z) : outcome Z :=
  let? (ts, _) := rd 8 bs in Ok ts.

Record trailer := { t_size : Z; t_block_id : Z; t_status : Z; t_valid : Z; t_raw : list Z }.

Definition parse_trailer (bs : list Z) : outcome trailer :=
  let? (magic, r1) := rd 4 bs in
  if negb (magic =? TRAILER_MAGIC) then Err E_INVALID_PACKET else
  let? (_, r2) := rd 2 r1 in
  let? (size, r3) := rd 2 r2 in
  let? (bid, r4) := rd 8 r3 in
  let? (st, r5) := rd 2 r4 in
  let? status := payload_status_of st in
  let? (_, r6) := rd 2 r5 in
  let? (valid, r7) := rd 8 r6 in
  Ok {| t_size := size; t_block_id := bid; t_status := status; t_valid := valid; t_raw := r7 |}.

(* ImageTrailer: actual_height *)
Definition parse_image_trailer (bs : list Z) : outcome Z :=
  let? (h, _) := rd 4 bs in Ok h.

(* ImageExtendedChunkTrailer: actual_height, chunk_layout_id *)
Definition parse_ext_trailer (bs : list Z) : outcome (Z * Z) :=
  let? (h, r1) := rd 4 bs in
  let? (cl, _) := rd 4 r1 in Ok (h, cl).

(* ChunkTrailer: chunk_layout_id *)
Definition parse_chunk_trailer (bs : list Z) : outcome Z :=
  let? (cl, _) := rd 4 bs in Ok cl.

(* ---- drivers ------------------------------------------------------------------- *)

Definition show_il (l : image_leader) : list Z :=
  [il_timestamp l; il_pf l; il_width l; il_height l; il_xoff l; il_yoff l; il_xpad l].

Definition run_leader (bs : list Z) : list Z :=
  match parse_leader bs with
  | Err e => [1; e]
  | Panic => [2]
  | Ok l =>
    0 :: l_size l :: l_block_id l :: l_type l :: zlen (l_raw l) ::
    lp (show_view show_il (parse_image_leader (l_raw l))) ++
    lp (show_view (fun t => [t]) (parse_chunk_leader (l_raw l)))
  end.

Definition run_trailer (bs : list Z) : list Z :=
  match parse_trailer bs with
  | Err e => [1; e]
  | Panic => [2]
  | Ok t =>
    0 :: t_size t :: t_block_id t :: t_status t :: t_valid t :: zlen (t_raw t) ::
    lp (show_view (fun h => [h]) (parse_image_trailer (t_raw t))) ++
    lp (show_view (fun p => [fst p; snd p]) (parse_ext_trailer (t_raw t))) ++
    lp (show_view (fun c => [c]) (parse_chunk_trailer (t_raw t)))
  end.

(* code -> variant index -> code *)
Definition run_pixel (c : Z) : list Z :=
  match pf_of_code c with
  | Ok p => [0; p; match code_of_pf p with Some c' => c' | None => -1 end]
  | Err e => [1; e]
  | Panic => [2]
  end.
