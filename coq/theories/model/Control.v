(* Model of cameleon/src/u3v/control_handle.rs (after the "fix:" commits): ConnectionConfig,
   send_cmd / verify_ack, DeviceControl::{open, read, write, enable_streaming,
   disable_streaming}, the cached Abrm/Sbrm/Sirm handles, and StreamParams::from_control —
   running against the scripted device of rust/shim (the [world]: memory segments, one plan per
   transaction, conforming answers computed from the U3V wire layout by offsets and optionally
   edited, raw answers, libusb errors).  Uses the command/acknowledge codec models of C09/C08
   and the chunk iterators of C10. *)
From Cam Require Export Outcome Bytes Chunks Cmd Ack CmdLayout GenCPLayout.

(* ---- ControlError classes -------------------------------------------------------------- *)
Definition CE_BUSY : Z := 1.
Definition CE_DISCONNECTED : Z := 2.
Definition CE_IO : Z := 3.
Definition CE_TIMEOUT : Z := 4.
Definition CE_NOT_OPENED : Z := 5.
Definition CE_INVALID_DEVICE : Z := 6.
Definition CE_INVALID_DATA : Z := 8.

(* From<u3v::Error> for ControlError on a libusb error code (shim numbering) *)
Definition ce_of_usb (code : Z) : Z :=
  if code =? 5 then CE_BUSY
  else if (code =? 3) || (code =? 4) then CE_DISCONNECTED
  else if code =? 6 then CE_TIMEOUT
  else CE_IO.

(* ---- the scripted device (rust/shim World) ----------------------------------------------- *)

Inductive edit := ESet8 (o v : Z) | ESet16 (o v : Z) | ETrunc (n : Z) | EExt (bs : list Z) | EResize (n : Z).
Inductive reply := RPending (ms : Z) | RConform (es : list edit) | RRaw (bs : list Z) | RRecvErr (c : Z).
Record txplan := { tp_send_err : option Z; tp_replies : list reply }.

Inductive wev := WSend (bs : list Z) | WSendFail | WRecv (n : Z) | WRecvFail
               | WOpen | WClose | WSetHalt | WClearHalt.

Record world := {
  w_segs : list (Z * list Z); w_plans : list txplan; w_replies : list reply;
  w_cur_ack : list Z; w_cur_rid : Z; w_log : list wev; w_open_err : option Z;
  w_writes : list (Z * list Z)
}.

Definition w_set_log (w : world) (l : list wev) : world :=
  {| w_segs := w_segs w; w_plans := w_plans w; w_replies := w_replies w; w_cur_ack := w_cur_ack w;
     w_cur_rid := w_cur_rid w; w_log := l; w_open_err := w_open_err w; w_writes := w_writes w |}.
Definition w_logev (w : world) (e : wev) : world := w_set_log w (e :: w_log w).

Fixpoint seg_read (segs : list (Z * list Z)) (a n : Z) : option (list Z) :=
  match segs with
  | [] => None
  | (b, m) :: r =>
    if (b <=? a) && (a - b + n <=? zlen m) then Some (take n (drop (a - b) m)) else seg_read r a n
  end.

Definition set_at (o : Z) (bs new : list Z) : list Z := take o bs ++ new ++ drop (o + zlen new) bs.

Fixpoint seg_write (segs : list (Z * list Z)) (a : Z) (data : list Z) : option (list (Z * list Z)) :=
  match segs with
  | [] => None
  | (b, m) :: r =>
    if (b <=? a) && (a - b + zlen data <=? zlen m) then Some ((b, set_at (a - b) m data) :: r)
    else match seg_write r a data with Some r' => Some ((b, m) :: r') | None => None end
  end.


Definition w_set_rid (w : world) (rid : Z) : world :=
  {| w_segs := w_segs w; w_plans := w_plans w; w_replies := w_replies w; w_cur_ack := w_cur_ack w;
     w_cur_rid := rid; w_log := w_log w; w_open_err := w_open_err w; w_writes := w_writes w |}.

(* the conforming device: decode the command with the typed layout decoder of the U3V
   specification (spec/CmdLayout.v), apply it to memory, answer per GenCP.  Anything that is not
   a well-formed ReadMem / WriteMem command gets an error acknowledge computed from the raw
   header fields.  Returns (ack, world'). *)
Definition conform (w : world) (cmd : list Z) : list Z * world :=
  match spec_decode cmd with
  | Some (DRead a n, rid) =>
    match seg_read (w_segs w) a n with
    | Some d => (enc_ack 0 2049 rid d, w_set_rid w rid)
    | None => (enc_ack 32771 2049 rid [], w_set_rid w rid)
    end
  | Some (DWrite a data, rid) =>
    match seg_write (w_segs w) a data with
    | Some segs' =>
      (enc_ack 0 2051 rid (enc_write_scd (zlen data)),
       {| w_segs := segs'; w_plans := w_plans w; w_replies := w_replies w; w_cur_ack := w_cur_ack w;
          w_cur_rid := rid; w_log := w_log w; w_open_err := w_open_err w;
          w_writes := (a, data) :: w_writes w |})
    | None =>
      (enc_ack 32771 2051 rid [],
       {| w_segs := w_segs w; w_plans := w_plans w; w_replies := w_replies w; w_cur_ack := w_cur_ack w;
          w_cur_rid := rid; w_log := w_log w; w_open_err := w_open_err w;
          w_writes := (a, data) :: w_writes w |})
    end
  | _ =>
    if (zlen cmd <? 12) || negb (le_at 0 4 cmd =? 1129722709) then (enc_ack 32770 0 0 [], w) else
    let cmd_id := le_at 6 2 cmd in let rid := le_at 10 2 cmd in
    let w := w_set_rid w rid in
    if negb (zlen cmd =? 12 + le_at 8 2 cmd) || negb (le_at 4 2 cmd =? 16384)
    then (enc_ack 32770 (wrapu 16 (cmd_id + 1)) rid [], w)
    else if cmd_id =? 2048 then (enc_ack 32770 2049 rid [], w)
    else if cmd_id =? 2050 then (enc_ack 32770 2051 rid [], w)
    else (enc_ack 32769 (wrapu 16 (cmd_id + 1)) rid [], w)
  end.

Definition default_plan : txplan := {| tp_send_err := None; tp_replies := [RConform []] |}.

Definition on_send (w : world) (cmd : list Z) : outcome unit * world :=
  let '(plan, rest) := match w_plans w with [] => (default_plan, []) | p :: r => (p, r) end in
  let w := {| w_segs := w_segs w; w_plans := rest; w_replies := w_replies w; w_cur_ack := w_cur_ack w;
              w_cur_rid := w_cur_rid w; w_log := w_log w; w_open_err := w_open_err w; w_writes := w_writes w |} in
  match tp_send_err plan with
  | Some e => (Err e, w_logev w WSendFail)
  | None =>
    let '(ack, w1) := conform (w_logev w (WSend cmd)) cmd in
    (Ok tt, {| w_segs := w_segs w1; w_plans := w_plans w1; w_replies := tp_replies plan; w_cur_ack := ack;
               w_cur_rid := w_cur_rid w1; w_log := w_log w1; w_open_err := w_open_err w1;
               w_writes := w_writes w1 |})
  end.

Definition apply_edit (b : list Z) (e : edit) : list Z :=
  match e with
  | ESet8 o v => if o <? zlen b then set_at o b [v] else b
  | ESet16 o v => if o + 1 <? zlen b then set_at o b (le_bytes 2 v) else b
  | ETrunc n => take n b
  | EExt x => b ++ x
  | EResize n =>
    if 12 <=? zlen b then
      set_at 8 (take (12 + n) b ++ repeat 238 (Z.to_nat (12 + n - zlen b))) (le_bytes 2 (wrapu 16 n))
    else b
  end.

Definition on_recv (w : world) (buflen : Z) : outcome (list Z) * world :=
  match w_replies w with
  | [] => (Err 6, w_logev w WRecvFail)
  | r :: rest =>
    let w := {| w_segs := w_segs w; w_plans := w_plans w; w_replies := rest; w_cur_ack := w_cur_ack w;
                w_cur_rid := w_cur_rid w; w_log := w_log w; w_open_err := w_open_err w; w_writes := w_writes w |} in
    match r with
    | RRecvErr e => (Err e, w_logev w WRecvFail)
    | _ =>
      let bytes := match r with
                   | RPending ms => enc_ack 0 2053 (w_cur_rid w) (enc_write_scd ms)
                   | RConform es => fold_left apply_edit es (w_cur_ack w)
                   | RRaw b => b
                   | RRecvErr _ => []
                   end in
      if buflen <? zlen bytes then (Err 7, w_logev w WRecvFail)
      else (Ok bytes, w_logev w (WRecv (zlen bytes)))
    end
  end.

(* ---- the control handle -------------------------------------------------------------------- *)

Record ctl := {
  c_opened : bool; c_next : Z; c_retry : Z; c_max_cmd : Z; c_max_ack : Z; c_buflen : Z;
  c_abrm : option Z; c_sbrm : option (Z * Z); c_sirm : option Z
}.

Definition ctl_init : ctl :=
  {| c_opened := false; c_next := 0; c_retry := 3; c_max_cmd := 128; c_max_ack := 128; c_buflen := 0;
     c_abrm := None; c_sbrm := None; c_sirm := None |}.

Definition st := (ctl * world)%type.
Definition M (A : Type) := st -> outcome A * st.

Definition ret {A} (a : A) : M A := fun s => (Ok a, s).
Definition fail {A} (e : Z) : M A := fun s => (Err e, s).
Definition panic {A} : M A := fun s => (Panic, s).
Definition bindM {A B} (m : M A) (f : A -> M B) : M B :=
  fun s => match m s with
           | (Ok a, s') => f a s'
           | (Err e, s') => (Err e, s')
           | (Panic, s') => (Panic, s')
           end.
Notation "'do' x '<-' m ';' k" := (bindM m (fun x => k))
  (at level 200, x pattern, m at level 100, k at level 200, right associativity).
Definition lift {A} (x : outcome A) (cls : Z) : M A :=
  fun s => match x with Ok a => (Ok a, s) | Err _ => (Err cls, s) | Panic => (Panic, s) end.
Definition get_ctl : M ctl := fun s => (Ok (fst s), s).
Definition upd_ctl (f : ctl -> ctl) : M unit := fun s => (Ok tt, (f (fst s), snd s)).

Definition expected_ack_kind (cm : cmd) : Z :=
  match cm with CRead _ _ => 0 | CWrite _ => 1 | CReadStacked _ _ _ => 2 | CWriteStacked _ _ _ => 3 end.

Definition c_set_next (c : ctl) (n : Z) : ctl :=
  {| c_opened := c_opened c; c_next := n; c_retry := c_retry c; c_max_cmd := c_max_cmd c;
     c_max_ack := c_max_ack c; c_buflen := c_buflen c; c_abrm := c_abrm c; c_sbrm := c_sbrm c; c_sirm := c_sirm c |}.
Definition c_set_buflen (c : ctl) (n : Z) : ctl :=
  {| c_opened := c_opened c; c_next := c_next c; c_retry := c_retry c; c_max_cmd := c_max_cmd c;
     c_max_ack := c_max_ack c; c_buflen := n; c_abrm := c_abrm c; c_sbrm := c_sbrm c; c_sirm := c_sirm c |}.

(* the receive loop of send_cmd: at most [retry] receives *)
Fixpoint recv_loop (fuel : nat) (retry ek : Z) : M ack :=
  fun s =>
  match fuel with
  | O => (Err (-1), s)
  | S f =>
    if retry <=? 0 then (Err CE_IO, s) else
    let '(c, w) := s in
    let '(r, w1) := on_recv w (c_buflen c) in
    match r with
    | Err e => (Err (ce_of_usb e), (c, w1))
    | Panic => (Panic, (c, w1))
    | Ok bytes =>
      match parse_ack bytes with
      | Err _ => (Err CE_IO, (c, w1))
      | Panic => (Panic, (c, w1))
      | Ok a =>
        if negb (a_status a =? 0) then (Err CE_IO, (c, w1))
        else if negb (a_request_id a =? c_next c) then (Err CE_IO, (c, w1))
        else if a_kind a =? 4 then
          match view_pending a with
          | Ok _ => recv_loop f (retry - 1) ek (c, w1)
          | Err _ => (Err CE_IO, (c, w1))
          | Panic => (Panic, (c, w1))
          end
        else if negb (a_kind a =? ek) then (Err CE_IO, (c, w1))
        else (Ok a, (c_set_next c (wrapu 16 (c_next c + 1)), w1))
      end
    end
  end.

Definition send_cmd (cm : cmd) : M ack :=
  fun s =>
  let '(c, w) := s in
  if c_max_cmd c <? cmd_len cm then (Err CE_INVALID_DEVICE, s) else
  let need := Z.max (cmd_len cm) (maximum_ack_len cm) in
  let c1 := if c_buflen c <? need then c_set_buflen c need else c in
  let '(r, w1) := on_send w (serialize_vec cm (c_next c)) in
  match r with
  | Err e => (Err (ce_of_usb e), (c1, w1))
  | Panic => (Panic, (c1, w1))
  | Ok _ => recv_loop (S (Z.to_nat (c_retry c))) (c_retry c) (expected_ack_kind cm) (c1, w1)
  end.

Definition assert_open : M unit :=
  fun s => if c_opened (fst s) then (Ok tt, s) else (Err CE_NOT_OPENED, s).

(* DeviceControl::read *)
Fixpoint read_loop (fuel : nat) (addr remaining chunk : Z) (acc : list Z) : M (list Z) :=
  match fuel with
  | O => fail (-1)
  | S f =>
    if remaining <=? 0 then ret acc else
    let n := Z.min chunk remaining in
    do a <- send_cmd (CRead addr n);
    do data <- lift (view_data a) CE_IO;
    if negb (zlen data =? n) then fail CE_IO
    else read_loop f (wrapu 64 (addr + n)) (remaining - n) chunk (acc ++ data)
  end.

(* verify_range: [address, address + len) must lie in the 64 bit address space.  The address is a
   u64 in the code; the model, whose addresses are integers, refuses a negative one here so that it
   says nothing about inputs outside the type. *)
Definition verify_range (addr len : Z) : M unit :=
  if (addr <? 0) || (2 ^ 64 <? addr + len) then fail CE_INVALID_DATA else ret tt.

Definition ctl_read (addr len : Z) : M (list Z) :=
  do _ <- assert_open;
  do _ <- verify_range addr len;
  do c <- get_ctl;
  do _ <- lift (read_chunks_init addr 0 (c_max_ack c)) CE_IO;
  do chunk <- lift (maximum_read_length (c_max_ack c)) CE_IO;
  if chunk =? 0 then panic       (* chunks_mut(0); unreachable after the check above *)
  else read_loop (S (Z.to_nat len)) addr len chunk [].

(* DeviceControl::write *)
Fixpoint write_loop (fuel : nat) (ws : wstate) : M unit :=
  match fuel with
  | O => fail (-1)
  | S f =>
    do o <- lift (write_next ws) CE_IO;
    match o with
    | None => ret tt
    | Some ((a, data), ws') =>
      do cm <- lift (mk_write a data) CE_IO;
      do ak <- send_cmd cm;
      do n <- lift (view_write ak) CE_IO;
      if negb (n =? zlen data) then fail CE_IO else write_loop f ws'
    end
  end.

Definition MAX_WRITE : Z := 65527.

Fixpoint write_blocks (fuel : nat) (addr : Z) (data : list Z) (max_cmd : Z) : M unit :=
  match fuel with
  | O => fail (-1)
  | S f =>
    if zlen data =? 0 then ret tt else
    let block := take MAX_WRITE data in
    do wm <- lift (write_mem_new addr block) CE_IO;
    do ws <- lift (write_chunks_init (fst wm) (snd wm) max_cmd) CE_IO;
    do _ <- write_loop (S (length block)) ws;
    write_blocks f (wrapu 64 (addr + zlen block)) (drop MAX_WRITE data) max_cmd
  end.

Definition ctl_write (addr : Z) (data : list Z) : M unit :=
  do _ <- assert_open;
  do _ <- verify_range addr (zlen data);
  do c <- get_ctl;
  write_blocks (S (length data)) addr data (c_max_cmd c).

(* register_map.rs read_register / write_register for little-endian integers *)
Definition reg_addr (base off : Z) : M Z :=
  if base + off <? 2 ^ 64 then ret (base + off) else fail CE_INVALID_DEVICE.

Definition read_reg (addr len : Z) : M Z :=
  do bs <- ctl_read addr len; ret (of_le bs).

Definition write_reg (addr : Z) (len : nat) (v : Z) : M unit := ctl_write addr (le_bytes len v).

(* ControlHandle::abrm : the device capability is read once and cached *)
Definition h_abrm : M Z :=
  do c <- get_ctl;
  match c_abrm c with
  | Some cap => ret cap
  | None =>
    do cap <- read_reg 452 8;
    do _ <- upd_ctl (fun c => {| c_opened := c_opened c; c_next := c_next c; c_retry := c_retry c;
                                 c_max_cmd := c_max_cmd c; c_max_ack := c_max_ack c; c_buflen := c_buflen c;
                                 c_abrm := Some cap; c_sbrm := c_sbrm c; c_sirm := c_sirm c |});
    ret cap
  end.

(* Abrm::sbrm : SBRM address, then the U3VCP capability register *)
Definition abrm_sbrm : M (Z * Z) :=
  do a <- read_reg 472 8;
  do ca <- reg_addr a 4;
  do cap <- read_reg ca 8;
  ret (a, cap).

Definition h_sbrm : M (Z * Z) :=
  do c <- get_ctl;
  match c_sbrm c with
  | Some s => ret s
  | None =>
    do _ <- h_abrm;
    do s <- abrm_sbrm;
    do _ <- upd_ctl (fun c => {| c_opened := c_opened c; c_next := c_next c; c_retry := c_retry c;
                                 c_max_cmd := c_max_cmd c; c_max_ack := c_max_ack c; c_buflen := c_buflen c;
                                 c_abrm := c_abrm c; c_sbrm := Some s; c_sirm := c_sirm c |});
    ret s
  end.

Definition sbrm_sirm_address (s : Z * Z) : M (option Z) :=
  if Z.odd (snd s) then (do ra <- reg_addr (fst s) 32; do a <- read_reg ra 8; ret (Some a)) else ret None.

Definition h_sirm : M Z :=
  do c <- get_ctl;
  match c_sirm c with
  | Some a => ret a
  | None =>
    do s <- h_sbrm;
    do oa <- sbrm_sirm_address s;
    match oa with
    | None => fail CE_INVALID_DEVICE
    | Some a =>
      do _ <- upd_ctl (fun c => {| c_opened := c_opened c; c_next := c_next c; c_retry := c_retry c;
                                   c_max_cmd := c_max_cmd c; c_max_ack := c_max_ack c; c_buflen := c_buflen c;
                                   c_abrm := c_abrm c; c_sbrm := c_sbrm c; c_sirm := Some a |});
      ret a
    end
  end.

(* initialize_config *)
Definition initialize_config : M unit :=
  do _ <- h_abrm;
  do s <- abrm_sbrm;
  do _ <- read_reg 460 4;                         (* maximum device response time *)
  do a1 <- reg_addr (fst s) 20; do mc <- read_reg a1 4;
  do a2 <- reg_addr (fst s) 24; do ma <- read_reg a2 4;
  upd_ctl (fun c => {| c_opened := c_opened c; c_next := c_next c; c_retry := c_retry c;
                       c_max_cmd := mc; c_max_ack := ma; c_buflen := c_buflen c;
                       c_abrm := c_abrm c; c_sbrm := c_sbrm c; c_sirm := c_sirm c |}).

Definition w_ev (e : wev) : M unit := fun s => (Ok tt, (fst s, w_logev (snd s) e)).

Definition ctl_open : M unit :=
  do c <- get_ctl;
  if c_opened c then ret tt else
  do _ <- w_ev WOpen;
  fun s =>
  match w_open_err (snd s) with
  | Some e => (Err (ce_of_usb e), s)
  | None =>
    (do _ <- upd_ctl (fun c => {| c_opened := true; c_next := c_next c; c_retry := c_retry c;
                                  c_max_cmd := c_max_cmd c; c_max_ack := c_max_ack c; c_buflen := c_buflen c;
                                  c_abrm := c_abrm c; c_sbrm := c_sbrm c; c_sirm := c_sirm c |});
     do _ <- w_ev WSetHalt; do _ <- w_ev WClearHalt; initialize_config) s
  end.

Definition ctl_close : M unit :=
  do c <- get_ctl;
  if c_opened c then
    do _ <- w_ev WClose;
    upd_ctl (fun c => {| c_opened := false; c_next := c_next c; c_retry := c_retry c;
                         c_max_cmd := c_max_cmd c; c_max_ack := c_max_ack c; c_buflen := c_buflen c;
                         c_abrm := c_abrm c; c_sbrm := c_sbrm c; c_sirm := c_sirm c |})
  else ret tt.

(* ---- enable_streaming ------------------------------------------------------------------------ *)

Definition PAYLOAD_TRANSFER_SIZE : Z := 65536.

(* align!(x, uN): x.checked_add(al - 1) & !(al - 1); an overflow is InvalidDevice (commit 03aec4e) *)
Definition align (w x al : Z) : M Z :=
  if x + (al - 1) <? 2 ^ w then ret ((x + (al - 1)) - (x + (al - 1)) mod al) else fail CE_INVALID_DEVICE.

Record sirm_plan := {
  sp_size : Z; sp_count : Z; sp_final1 : Z; sp_final2 : Z; sp_leader : Z; sp_trailer : Z
}.

Definition compute_sizes (al req_leader req_payload req_trailer : Z) : M sirm_plan :=
  do pts <- align 32 PAYLOAD_TRANSFER_SIZE al;
  do count <- (if req_payload / pts <? 2 ^ 32 then ret (req_payload / pts) else fail CE_INVALID_DEVICE);
  do f1 <- align 64 (req_payload mod pts) al;
  do ml <- (if req_leader =? 0 then ret pts else align 32 req_leader al);
  do mt <- (if req_trailer =? 0 then ret pts else align 32 req_trailer al);
  ret {| sp_size := pts; sp_count := count; sp_final1 := wrapu 32 f1; sp_final2 := 0;
         sp_leader := ml; sp_trailer := mt |}.

Definition sirm_reg (sirm off : Z) : M Z := reg_addr sirm off.

Definition ctl_enable_streaming : M unit :=
  do sirm <- h_sirm;
  do a_ctrl <- sirm_reg sirm 4;
  do ctrl <- read_reg a_ctrl 4;
  do _ <- (if Z.odd ctrl then write_reg a_ctrl 4 0 else ret tt);
  do a_info <- sirm_reg sirm 0;
  do info <- read_reg a_info 4;
  let exp := info / 2 ^ 24 in
  if 32 <=? exp then fail CE_INVALID_DEVICE else
  let al := 2 ^ exp in
  do a <- sirm_reg sirm 16; do req_leader <- read_reg a 4;
  do a <- sirm_reg sirm 8; do req_payload <- read_reg a 8;
  do a <- sirm_reg sirm 20; do req_trailer <- read_reg a 4;
  do p <- compute_sizes al req_leader req_payload req_trailer;
  do a <- sirm_reg sirm 28; do _ <- write_reg a 4 (sp_size p);
  do a <- sirm_reg sirm 32; do _ <- write_reg a 4 (sp_count p);
  do a <- sirm_reg sirm 36; do _ <- write_reg a 4 (sp_final1 p);
  do a <- sirm_reg sirm 40; do _ <- write_reg a 4 (sp_final2 p);
  do a <- sirm_reg sirm 24; do _ <- write_reg a 4 (sp_leader p);
  do a <- sirm_reg sirm 44; do _ <- write_reg a 4 (sp_trailer p);
  write_reg a_ctrl 4 1.

Definition ctl_disable_streaming : M unit :=
  do sirm <- h_sirm;
  do a_ctrl <- sirm_reg sirm 4;
  write_reg a_ctrl 4 0.

(* StreamParams::from_control : fresh Abrm / Sbrm / Sirm, nothing cached *)
Definition stream_params : M (list Z) :=
  do _ <- read_reg 452 8;
  do s <- abrm_sbrm;
  do oa <- sbrm_sirm_address s;
  match oa with
  | None => fail CE_INVALID_DEVICE
  | Some sirm =>
    do a <- sirm_reg sirm 24; do leader <- read_reg a 4;
    do a <- sirm_reg sirm 44; do trailer <- read_reg a 4;
    do a <- sirm_reg sirm 28; do size <- read_reg a 4;
    do a <- sirm_reg sirm 32; do count <- read_reg a 4;
    do a <- sirm_reg sirm 36; do f1 <- read_reg a 4;
    do a <- sirm_reg sirm 40; do f2 <- read_reg a 4;
    do _ <- read_reg 460 4;
    ret [leader; trailer; size; count; f1; f2]
  end.
