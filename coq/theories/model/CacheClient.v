(* Adaptive clients of the cached register layer (property C04).

   A history (model/Cache.v, [run_ops]) is a FIXED list of operations.  Every evaluator built on top of
   the register layer - the feature graph of property C03 (pValue chains, pIndex tables, swiss knives,
   converters, selectors), an application polling a status register until a bit flips, ... - chooses its
   next operation from the results it has seen so far.  [client] is such a program: a well-founded tree
   that either stops with an answer or performs one operation of the register layer and continues with a
   client that depends on what the operation printed.  No proofs here. *)
From Cam Require Import Outcome Bytes Mem BitField RegCodec Cache.

Inductive client : Type :=
| CDone (answer : list Z)
| CCall (op : cop) (k : list Z -> client).

(* the trace of everything the operations printed, the client's answer, the final state *)
Fixpoint run_client (on : bool) (v : ver) (y : system) (c : client) (s : cst) : (list Z * list Z) * cst :=
  match c with
  | CDone r => (([], r), s)
  | CCall op k =>
    let '(o, s1) := step on v y op s in
    let '(t, s2) := run_client on v y (k o) s1 in
    ((o ++ fst t, snd t), s2)
  end.

Definition client_run (on : bool) (v : ver) (y : system) (base : Z) (image vars rej : list Z) (c : client)
  : (list Z * list Z) * cst := run_client on v y c (init base image vars rej).

Definition cl_trace (x : (list Z * list Z) * cst) : list Z := fst (fst x).
Definition cl_answer (x : (list Z * list Z) * cst) : list Z := snd (fst x).
Definition cl_mem (x : (list Z * list Z) * cst) : list Z := d_mem (c_dev (snd x)).
Definition cl_log (x : (list Z * list Z) * cst) : list access := d_log (c_dev (snd x)).

(* a history is the client that ignores what it sees *)
Fixpoint client_of_history (h : list cop) : client :=
  match h with
  | [] => CDone []
  | op :: rest => CCall op (fun _ => client_of_history rest)
  end.

(* the history a client actually performs from a state (what the correspondence check replays on the code) *)
Fixpoint history_of (on : bool) (v : ver) (y : system) (c : client) (s : cst) : list cop :=
  match c with
  | CDone _ => []
  | CCall op k => let '(o, s1) := step on v y op s in op :: history_of on v y (k o) s1
  end.

(* an adaptive example over the selector-addressed bank of P_C04.ex_bank: read the aliasing register (node 2);
   use its value as the selector (node 0); read the selected slot (node 1) twice; answer with the last result *)
Definition ex_client : client :=
  CCall (OpValue 2) (fun o =>
  CCall (OpSet 0 [nth 2 o 0 mod 2]) (fun _ =>
  CCall (OpValue 1) (fun _ =>
  CCall (OpValue 1) (fun o2 => CDone o2)))).
