(* Meaning of the operations that tools/translate_control.py emits for the control transaction layer of
   cameleon/src/u3v/control_handle.rs (gen/ControlSrc.v).  No proofs here.  Everything is defined with the primitives of
   model/Control.v (the handle record [ctl], the scripted device [world] with [on_send] / [on_recv], the codec models
   [serialize] / [parse_ack] / the views) so that proofs/P_C06s.v can show the translated functions equal to the
   hand-written ones.

   State.  The translated code runs in [X], a state monad over the model's state [st = ctl * world] and a GHOST part the
   model does not have:
     g_buf     the CONTENTS of `self.buffer` (the model keeps only its length, c_buflen); the two are tied by the
               invariant zlen g_buf = c_buflen of proofs/P_C06s.v;
     g_slept   the arguments of every `std::thread::sleep`, newest first (time is outside the model).
   An operation's error is a raw class (libusb code of the shim for the channel, u3v::Error class for the protocol
   functions); the translator wraps the operation in the conversion `?` / `unwrap_or_log!` applies:
     xtry ce_of_usb / liftE ce_of_u3v    From<u3v::Error> for ControlError (cameleon/src/u3v/mod.rs, text pinned by the
                                         translator): LibUsb(Busy) -> Busy, NoDevice | NotFound -> Disconnected, Timeout ->
                                         Timeout, the other libusb kinds, BufferIo and InvalidPacket -> Io, InvalidDevice ->
                                         InvalidDevice.  A protocol function never returns a LibUsb error.

     h_<field>              read of `self.<field>` / `self.config.<field>`; h_set_<field> v: the assignment.
                            `timeout_duration` is not part of the model's handle: it reads as TIMEOUT and its assignment
                            does nothing (the channel operations take the argument and ignore it; the translator refuses a
                            time-out argument that is not `self.config.timeout_duration`).
     buf_len                self.buffer.len()
     buf_resize n v         self.buffer.resize(n, v)
     buf_slice lo hi        &self.buffer[lo..hi]: Panic unless lo <= hi <= len
     buf_serialize pk       pk.serialize(self.buffer.as_mut_slice()): the serializer of model/Cmd.v over a slice sink of
                            the buffer's length; what was written replaces the front of the buffer; WriteZero = E_BUFFER_IO
     ch_is_opened / ch_open / ch_close / ch_set_halt t / ch_clear_halt
                            self.inner.<op>: the control channel of the shim as model/Control.v's ctl_open / ctl_close use it
     ch_send bs t           self.inner.send(bs, t): [on_send]; Ok carries the byte count
     ch_recv t              self.inner.recv(&mut self.buffer, t): [on_recv] with the buffer's length; the received bytes
                            replace the front of the buffer, Ok carries their number
     op_sleep ms            std::thread::sleep(d)
     cmd_finalize cm id     cm.finalize(id): a CommandPacket is the command and its request id; pk_scd_kind =
                            .ccd().scd_kind(), pk_cmd_len = .cmd_len(), pk_maximum_ack_len = .maximum_ack_len()
                            (model/Cmd.v; proved equal to the translated cmd.rs by C09's *_from_source theorems)
     parse_ack bs           ack::AckPacket::parse(bs) (model/Ack.v; C08_ack_parse_from_source); ack_status_kind =
                            .status().kind() with SK_GenCp_Success = StatusKind::GenCp(GenCpStatus::Success),
                            ack_request_id, ack_scd_kind with AK_* = ack::ScdKind::* in model/Ack.v's numbering
     view_parse V a         a.scd_as::<U>() for the ParseScd implementation V of U (C08_views_from_source)
     r_chunks n l           l.chunks(n) / l.chunks_mut(n): Panic for n = 0
     r_copy_from_slice d s  d.copy_from_slice(s): Panic when the lengths differ, otherwise d becomes s
     rm_new / rm_chunks     cmd::ReadMem::new / ReadMem::chunks (gen/ReadChunks.v src_read_chunks_init)
     wm_new / wm_chunks / witer_next
                            cmd::WriteMem::new / WriteMem::chunks / WriteMemChunks::next as translated by
                            tools/translate_chunks.py (gen/ReadChunks.v); a cmd::WriteMem is (address, data); the item of the
                            iterator is rebuilt from the index range the translated `next` returns
     cmd_of_rm / cmd_of_wm  the value passed for `T: CommandScd` *)
From Cam Require Export Outcome RustInt Bytes Chunks Cmd Ack Control CurOps ReadChunks RegTables.

(* ---- the monad ---------------------------------------------------------------------------------------------------- *)
Record ghost := { g_buf : list Z; g_slept : list Z }.
Definition xst := (st * ghost)%type.
Definition X (A : Type) := xst -> outcome A * xst.

Definition retX {A} (a : A) : X A := fun s => (Ok a, s).
Definition failX {A} (e : Z) : X A := fun s => (Err e, s).
Definition bindX {A B} (m : X A) (f : A -> X B) : X B :=
  fun s => match m s with
           | (Ok a, s') => f a s'
           | (Err e, s') => (Err e, s')
           | (Panic, s') => (Panic, s')
           end.
Notation "'doX' x '<-' m ';' k" := (bindX m (fun x => k))
  (at level 200, x pattern, m at level 100, k at level 200, right associativity).

(* a pure computation that can only panic (integer overflow, slice bounds, unwrap) *)
Definition liftP {A} (x : outcome A) : X A := fun s => (x, s).
(* a pure computation whose error class is converted *)
Definition liftE {A} (conv : Z -> Z) (x : outcome A) : X A :=
  fun s => (match x with Ok a => Ok a | Err e => Err (conv e) | Panic => Panic end, s).
(* an operation whose error class is converted *)
Definition xtry {A} (conv : Z -> Z) (m : X A) : X A :=
  fun s => match m s with
           | (Err e, s') => (Err (conv e), s')
           | r => r
           end.
(* an operation of model/Control.v: the ghost part is untouched *)
Definition liftM {A} (m : M A) : X A := fun s => let '(r, s') := m (fst s) in (r, (s', snd s)).

Definition ce_of_u3v (e : Z) : Z := if e =? E_INVALID_DEVICE then CE_INVALID_DEVICE else CE_IO.

(* ---- fields of the handle -------------------------------------------------------------------------------------------- *)
Definition h_get {A} (f : ctl -> A) : X A := fun s => (Ok (f (fst (fst s))), s).
Definition h_upd (f : ctl -> ctl) : X unit := fun s => (Ok tt, ((f (fst (fst s)), snd (fst s)), snd s)).

Definition c_set_max_cmd (c : ctl) (n : Z) : ctl :=
  {| c_opened := c_opened c; c_next := c_next c; c_retry := c_retry c; c_max_cmd := n;
     c_max_ack := c_max_ack c; c_buflen := c_buflen c; c_abrm := c_abrm c; c_sbrm := c_sbrm c; c_sirm := c_sirm c |}.
Definition c_set_max_ack (c : ctl) (n : Z) : ctl :=
  {| c_opened := c_opened c; c_next := c_next c; c_retry := c_retry c; c_max_cmd := c_max_cmd c;
     c_max_ack := n; c_buflen := c_buflen c; c_abrm := c_abrm c; c_sbrm := c_sbrm c; c_sirm := c_sirm c |}.
Definition c_set_opened (c : ctl) (b : bool) : ctl :=
  {| c_opened := b; c_next := c_next c; c_retry := c_retry c; c_max_cmd := c_max_cmd c;
     c_max_ack := c_max_ack c; c_buflen := c_buflen c; c_abrm := c_abrm c; c_sbrm := c_sbrm c; c_sirm := c_sirm c |}.
Definition c_set_abrm (c : ctl) (v : option Z) : ctl :=
  {| c_opened := c_opened c; c_next := c_next c; c_retry := c_retry c; c_max_cmd := c_max_cmd c;
     c_max_ack := c_max_ack c; c_buflen := c_buflen c; c_abrm := v; c_sbrm := c_sbrm c; c_sirm := c_sirm c |}.

Definition TIMEOUT : Z := 0.

Definition h_next_req_id : X Z := h_get c_next.
Definition h_retry_count : X Z := h_get c_retry.
Definition h_maximum_cmd_length : X Z := h_get c_max_cmd.
Definition h_maximum_ack_length : X Z := h_get c_max_ack.
Definition h_timeout_duration : X Z := retX TIMEOUT.
Definition h_abrm_cache : X (option Z) := h_get c_abrm.
Definition h_set_next_req_id (v : Z) : X unit := h_upd (fun c => c_set_next c v).
Definition h_set_maximum_cmd_length (v : Z) : X unit := h_upd (fun c => c_set_max_cmd c v).
Definition h_set_maximum_ack_length (v : Z) : X unit := h_upd (fun c => c_set_max_ack c v).
Definition h_set_timeout_duration (v : Z) : X unit := retX tt.
Definition h_set_abrm_cache (v : option Z) : X unit := h_upd (fun c => c_set_abrm c v).

(* ---- self.buffer --------------------------------------------------------------------------------------------------- *)
Definition g_set_buf (g : ghost) (b : list Z) : ghost := {| g_buf := b; g_slept := g_slept g |}.

Definition vec_resize (n v : Z) (l : list Z) : list Z := take n l ++ repeat v (Z.to_nat (n - zlen l)).
(* what a write of [new] at the front of [old] leaves *)
Definition overwrite (new old : list Z) : list Z := new ++ drop (zlen new) old.

Definition buf_len : X Z := fun s => (Ok (zlen (g_buf (snd s))), s).
Definition buf_resize (n v : Z) : X unit :=
  fun s => (Ok tt, ((c_set_buflen (fst (fst s)) n, snd (fst s)), g_set_buf (snd s) (vec_resize n v (g_buf (snd s))))).
Definition buf_slice (lo hi : Z) : X (list Z) := fun s => (src_slice (g_buf (snd s)) lo hi, s).

Definition packet := (cmd * Z)%type.
Definition buf_serialize (pk : packet) : X unit :=
  fun s =>
  let r := serialize (fst pk) (snd pk) (slice_sink (zlen (g_buf (snd s)))) in
  (fst r, (fst s, g_set_buf (snd s) (overwrite (s_out (snd r)) (g_buf (snd s))))).

(* ---- self.inner: the control channel --------------------------------------------------------------------------------- *)
Definition ch_is_opened : X bool := h_get c_opened.

Definition ch_send (bs : list Z) (timeout : Z) : X Z :=
  fun s =>
  let r := on_send (snd (fst s)) bs in
  (match fst r with Ok _ => Ok (zlen bs) | Err e => Err e | Panic => Panic end, ((fst (fst s), snd r), snd s)).

Definition ch_recv (timeout : Z) : X Z :=
  fun s =>
  let r := on_recv (snd (fst s)) (zlen (g_buf (snd s))) in
  match fst r with
  | Ok bytes => (Ok (zlen bytes), ((fst (fst s), snd r), g_set_buf (snd s) (overwrite bytes (g_buf (snd s)))))
  | Err e => (Err e, ((fst (fst s), snd r), snd s))
  | Panic => (Panic, ((fst (fst s), snd r), snd s))
  end.

Definition ch_open : X unit :=
  fun s =>
  let w1 := w_logev (snd (fst s)) WOpen in
  match w_open_err w1 with
  | Some e => (Err e, ((fst (fst s), w1), snd s))
  | None => (Ok tt, ((c_set_opened (fst (fst s)) true, w1), snd s))
  end.
Definition ch_close : X unit :=
  fun s => (Ok tt, ((c_set_opened (fst (fst s)) false, w_logev (snd (fst s)) WClose), snd s)).
Definition ch_set_halt (timeout : Z) : X unit := liftM (w_ev WSetHalt).
Definition ch_clear_halt : X unit := liftM (w_ev WClearHalt).

Definition op_sleep (ms : Z) : X unit :=
  fun s => (Ok tt, (fst s, {| g_buf := g_buf (snd s); g_slept := ms :: g_slept (snd s) |})).

(* ---- commands (model/Cmd.v) ------------------------------------------------------------------------------------------- *)
Inductive cmd_kind := CK_ReadMem | CK_WriteMem | CK_ReadMemStacked | CK_WriteMemStacked.

Definition cmd_finalize (cm : cmd) (request_id : Z) : packet := (cm, request_id).
Definition pk_scd_kind (p : packet) : cmd_kind :=
  match fst p with
  | CRead _ _ => CK_ReadMem
  | CWrite _ => CK_WriteMem
  | CReadStacked _ _ _ => CK_ReadMemStacked
  | CWriteStacked _ _ _ => CK_WriteMemStacked
  end.
Definition pk_cmd_len (p : packet) : Z := cmd_len (fst p).
Definition pk_maximum_ack_len (p : packet) : Z := maximum_ack_len (fst p).

(* ---- acknowledges (model/Ack.v) ---------------------------------------------------------------------------------------- *)
Definition AK_ReadMem : Z := 0.
Definition AK_WriteMem : Z := 1.
Definition AK_ReadMemStacked : Z := 2.
Definition AK_WriteMemStacked : Z := 3.
Definition AK_Pending : Z := 4.
Definition SK_GenCp_Success : Z := 0.

Definition ack_status_kind (a : ack) : Z := a_status a.
Definition ack_request_id (a : ack) : Z := a_request_id a.
Definition ack_scd_kind (a : ack) : Z := a_kind a.

Record ack_view (U : Type) := { view_parse : ack -> outcome U }.
Arguments view_parse {U} _ _.

Record ack_ReadMem := { ReadMem_data : list Z }.
Record ack_WriteMem := { WriteMem_length : Z }.
Record ack_Pending := { Pending_timeout : Z }.

Definition view_ReadMem : ack_view ack_ReadMem :=
  {| view_parse := fun a => omap Build_ack_ReadMem (view_data a) |}.
Definition view_WriteMem : ack_view ack_WriteMem :=
  {| view_parse := fun a => omap Build_ack_WriteMem (view_write a) |}.
Definition view_Pending : ack_view ack_Pending :=
  {| view_parse := fun a => omap Build_ack_Pending (view_pending a) |}.

(* ---- integers ------------------------------------------------------------------------------------------------------------ *)
Definition r_wrapping_add (w a b : Z) : Z := wrapu w (a + b).
Definition r_wrapping_sub (w a b : Z) : Z := wrapu w (a - b).

(* ---- slices and iterators ----------------------------------------------------------------------------------------------- *)
Fixpoint chunks_fuel (fuel : nat) (n : Z) (l : list Z) : list (list Z) :=
  match fuel with
  | O => []
  | S f => if zlen l <=? 0 then [] else take n l :: chunks_fuel f n (drop n l)
  end.
Definition r_chunks (n : Z) (l : list Z) : outcome (list (list Z)) :=
  if n =? 0 then Panic else Ok (chunks_fuel (length l) n l).

Definition r_copy_from_slice (dst src : list Z) : outcome (list Z) :=
  if zlen dst =? zlen src then Ok src else Panic.

Definition rm_new (address read_length : Z) : Z * Z := (address, read_length).
Definition rm_chunks (rm : Z * Z) (ack_len : Z) : outcome (Z * Z * Z) :=
  src_read_chunks_init (fst rm) (snd rm) ack_len.
Definition cmd_of_rm (rm : Z * Z) : cmd := CRead (fst rm) (snd rm).

Definition wmem := (Z * list Z)%type.
Definition wm_new (address : Z) (data : list Z) : outcome wmem :=
  let? _ := src_write_mem_new (zlen data) in Ok (address, data).
Definition wmem_data_len (wm : wmem) : Z := zlen (snd wm).
Definition cmd_of_wm (wm : wmem) : cmd :=
  CWrite {| wm_addr := fst wm; wm_data := snd wm; wm_data_len := zlen (snd wm); wm_len := zlen (snd wm) + 8 |}.

Definition witer := (list Z * (Z * Z * Z))%type.
Definition wm_chunks (wm : wmem) (cmd_len : Z) : outcome witer :=
  let? st := src_write_chunks_init (fst wm) cmd_len in Ok (snd wm, st).
Definition witer_next (it : witer) : outcome (option (wmem * witer)) :=
  let '(d, (a, i, m)) := it in
  let? o := src_write_next (zlen d) a i m in
  match o with
  | None => Ok None
  | Some ((a', (lo, hi)), st') => Ok (Some ((a', take (hi - lo) (drop lo d)), (d, st')))
  end.
(* a WriteMemChunks over n bytes of data yields at most n items *)
Definition witer_fuel (it : witer) : nat := S (length (fst it)).

(* ---- register_map.rs, as far as initialize_config needs it ---------------------------------------------------------------
   [rd] is the translated DeviceControl::read; a register is (offset, length) of gen/RegTables.v.
     rm_read_register rd addr len   the free fn read_register: `let mut buf = vec![0; len]; device.read(addr, &mut buf[..len])?;
                                    T::parse_bytes(&buf[..len])` for an integer T (from_le_bytes; Duration: the same u32) *)
Definition rm_read_register (rd : Z -> list Z -> X (list Z)) (addr len : Z) : X Z :=
  doX bs <- rd addr (repeat 0 (Z.to_nat len)); retX (of_le bs).
Definition rm_register_address (base off : Z) : X Z :=
  liftE (fun e => e) (r_ok_or (r_checked_add 64 base off) CE_INVALID_DEVICE).
(* Abrm::sbrm = sbrm_address (Abrm::read_register ignores the cached capability) then Sbrm::new: an Sbrm is
   (sbrm_addr, capability) *)
Definition rm_Abrm_sbrm (rd : Z -> list Z -> X (list Z)) (abrm : Z) : X (Z * Z) :=
  doX sbrm_address <- rm_read_register rd (fst abrm_SBRM_ADDRESS) (snd abrm_SBRM_ADDRESS);
  doX capability_addr <- rm_register_address sbrm_address (fst sbrm_U3VCP_CAPABILITY_REGISTER);
  doX capability <- rm_read_register rd capability_addr (snd sbrm_U3VCP_CAPABILITY_REGISTER);
  retX (sbrm_address, capability).
(* Sbrm::read_register *)
Definition rm_Sbrm_read_register (rd : Z -> list Z -> X (list Z)) (sbrm : Z * Z) (register : Z * Z) : X Z :=
  doX addr <- rm_register_address (fst sbrm) (fst register);
  rm_read_register rd addr (snd register).
