(* Model of the GenTL producer /repo/gentl (crate cameleon-gentl), system / interface / port groups
   of the exported C API:

     gentl/src/ffi/macros.rs      gentl_api! (init assertion, error code, save_last_error)
     gentl/src/ffi/mod.rs         GC_ERROR codes, CopyTo buffer protocol, GCInitLib, GCCloseLib,
                                  CGCGetInfo, GCGetLastError
     gentl/src/ffi/system.rs      TL*            gentl/src/ffi/interface.rs   IF*
     gentl/src/ffi/port.rs        GC*Port*
     gentl/src/imp/system/mod.rs  SystemModule (open/close/Port)   + system/genapi.rs (register map)
     gentl/src/imp/interface/u3v.rs U3VInterfaceModule             + interface/u3v_genapi.rs
     impl/macros/src/memory.rs    generated read_raw / write_raw / notify_all  (abstracted here as a
                                  byte image + a static layout of access rights; C20 models the
                                  packed MemoryProtection itself)

   One model, two code versions: [fixed] is the code that exists now, [pinned] the code before the
   repairs (SystemModule::close did not reset is_opened; Port::read added address + len unchecked;
   the generated read_raw/write_raw indexed the raw vector unchecked; enumerate_u3v_device was
   todo!()).  A Rust panic inside extern "C" aborts the process: [step] returns None.

   No USB hardware and no implemented enumeration: the interface's device list is always empty.

   Handles are raw Box pointers in the code.  The model names them by the order in which the API
   handed them out (0, 1, ..; -1 = NULL).  A call naming a handle that was never handed out or was
   closed would dereference a dangling pointer (undefined behaviour, outside the property); such a
   call is not made ([Skipped]).  *)
From Cam Require Export Outcome Bytes.
From Coq Require Import String Ascii.

Definition zs (s : string) : list Z :=
  map (fun c => Z.of_N (N_of_ascii c)) (list_ascii_of_string s).

(* ---- code versions ---------------------------------------------------- *)
Record ver := { v_close_resets : bool;     (* fix 13c2cdc *)
                v_checked_end : bool;      (* fix 50712dc *)
                v_enum_error : bool;       (* fix 5172323 *)
                v_macro_checked : bool }.  (* fixes 5d538ea + 4147429 (impl/macros, C20) *)
Definition fixed := {| v_close_resets := true; v_checked_end := true; v_enum_error := true;
                       v_macro_checked := true |}.
Definition pinned := {| v_close_resets := false; v_checked_end := false; v_enum_error := false;
                        v_macro_checked := false |}.

(* ---- GenTlError and GC_ERROR ------------------------------------------ *)
Inductive gerr :=
| EError | ENotInitialized | ENotImplemented | EResourceInUse | EAccessDenied | EInvalidHandle
| EInvalidId (id : list Z) | ENoData | EInvalidParam | EIo | ETimeout | EAbort
| EInvalidBuffer | ENotAvailable | EInvalidAddress | EBufferTooSmall | EInvalidIndex
| EParsingChunkData | EInvalidValue (why : list Z) | EResourceExhausted | EOutOfMemory | EBusy
| EAmbiguous.

Definition code_of (e : gerr) : Z :=
  match e with
  | EError => -1001 | ENotInitialized => -1002 | ENotImplemented => -1003
  | EResourceInUse => -1004 | EAccessDenied => -1005 | EInvalidHandle => -1006
  | EInvalidId _ => -1007 | ENoData => -1008 | EInvalidParam => -1009 | EIo => -1010
  | ETimeout => -1011 | EAbort => -1012 | EInvalidBuffer => -1013 | ENotAvailable => -1014
  | EInvalidAddress => -1015 | EBufferTooSmall => -1016 | EInvalidIndex => -1017
  | EParsingChunkData => -1018 | EInvalidValue _ => -1019 | EResourceExhausted => -1020
  | EOutOfMemory => -1021 | EBusy => -1022 | EAmbiguous => -1023
  end.

(* Display of GenTlError (gentl/src/lib.rs); only used for the size/terminator of GCGetLastError *)
Definition err_text (e : gerr) : list Z :=
  match e with
  | EError => zs "unspecified runtime error"
  | ENotInitialized => zs "module or resource not initialized"
  | ENotImplemented => zs "requested operation not implemented"
  | EResourceInUse => zs "requested resource is already in use"
  | EAccessDenied => zs "the access to the requested register addresss is denied"
  | EInvalidHandle => zs "given handle does not support the operation"
  | EInvalidId id => zs "given ID doesn't reference any module or remote device: " ++ id
  | ENoData => zs "the function has no data to work on or the data does not provide reliable information"
  | EInvalidParam => zs "one of the parameter given was not valid or out of range"
  | EIo => zs "communication error or connection lost: "
  | ETimeout => zs "operation timed out"
  | EAbort => zs "an operation has been aborted before it could be completed"
  | EInvalidBuffer => zs "the GenTL Consumer has not announced enough buffers to start the acquisition"
  | ENotAvailable => zs "resource or information is not available at a given time in a current state"
  | EInvalidAddress => zs "there is no register with the provided address"
  | EBufferTooSmall => zs "a provided buffer is too small to receive the expected amount of data"
  | EInvalidIndex => zs "given index is out of range"
  | EParsingChunkData => zs "an error occurred parsing a buffer containing chunk data"
  | EInvalidValue w => zs "an invalid value has been written: " ++ w
  | EResourceExhausted => zs "a requested resource is exhausted"
  | EOutOfMemory => zs "the system and/or other hardware in the system (frame grabber) ran out of memory"
  | EBusy => zs "the required operation cannot be executed because the responsible module/entity is busy"
  | EAmbiguous => zs "the required operation cannot be executed unambiguously in given"
  end.

(* result of Rust code that may fail with a GenTlError or panic *)
Inductive gres (A : Type) := GOk (a : A) | GErr (e : gerr) | GPanic.
Arguments GOk {A} a.
Arguments GErr {A} e.
Arguments GPanic {A}.
Definition gbind {A B} (x : gres A) (f : A -> gres B) : gres B :=
  match x with GOk a => f a | GErr e => GErr e | GPanic => GPanic end.
Notation "'let*' x ':=' e 'in' k" := (gbind e (fun x => k))
  (at level 200, x pattern, e at level 100, k at level 200, right associativity).

(* ---- CopyTo: the buffer protocol (ffi/mod.rs) ------------------------- *)
(* destination: NULL, or a buffer with *dst_size = cap on entry *)
Inductive dst := DNull | DBuf (cap : Z).

(* -> bytes written at the start of the buffer, value stored to *dst_size *)
Definition copy_to (v : list Z) (d : dst) : gres (list Z * Z) :=
  match d with
  | DNull => GOk ([], zlen v)
  | DBuf cap => if cap <? zlen v then GErr EBufferTooSmall else GOk (v, zlen v)
  end.

Definition is_ascii (s : list Z) : bool := forallb (fun c => c <? 128) s.

(* impl CopyTo for &str *)
Definition str_copy_to (s : list Z) (d : dst) : gres (list Z * Z) :=
  if is_ascii s then copy_to (s ++ [0]) d else GErr (EInvalidValue (zs "string is not ascii")).

Inductive info :=
| IStr (s : list Z) | IBuf (b : list Z) | IBool (b : bool)
| II32 (z : Z) | IU32 (z : Z) | II64 (z : Z) | IU64 (z : Z).

Definition T_STRING := 1. Definition T_INT32 := 5. Definition T_UINT32 := 6. Definition T_INT64 := 7.
Definition T_UINT64 := 8. Definition T_BOOL8 := 11. Definition T_BUFFER := 13.

Definition info_type (i : info) : Z :=
  match i with
  | IStr _ => T_STRING | IBuf _ => T_BUFFER | IBool _ => T_BOOL8 | II32 _ => T_INT32
  | IU32 _ => T_UINT32 | II64 _ => T_INT64 | IU64 _ => T_UINT64
  end.

(* the bytes the value occupies in the caller's buffer (little-endian machine) *)
Definition info_bytes (i : info) : list Z :=
  match i with
  | IStr s => s ++ [0]
  | IBuf b => b
  | IBool b => [if b then 1 else 0]
  | II32 z | IU32 z => le_bytes 4 z
  | II64 z | IU64 z => le_bytes 8 z
  end.

(* copy_info: (written, size, type) *)
Definition copy_info (i : info) (d : dst) : gres (list Z * Z * Z) :=
  let* (w, n) := (match i with IStr s => str_copy_to s d | _ => copy_to (info_bytes i) d end) in
  GOk (w, n, info_type i).

(* ---- register maps ---------------------------------------------------- *)
Inductive access := NA | RO | WO | RW.
Definition is_readable (a : access) : bool := match a with RO | RW => true | _ => false end.
Definition is_writable (a : access) : bool := match a with WO | RW => true | _ => false end.
(* AccessRight::meet *)
Definition meet (a b : access) : access :=
  match a with
  | RW => b
  | RO => if is_readable b then RO else NA
  | WO => if is_writable b then WO else NA
  | NA => NA
  end.

Definition layout := list (Z * Z * access).          (* address, length, access right *)
Fixpoint right_at (L : layout) (a : Z) : access :=
  match L with
  | [] => NA
  | (b, n, r) :: L' => if (b <=? a) && (a <? b + n) then r else right_at L' a
  end.
(* MemoryProtection::access_right_with_range(s..e) *)
Definition right_range (L : layout) (s e : Z) : access :=
  fold_left (fun acc i => meet acc (right_at L (s + Z.of_nat i))) (seq 0 (Z.to_nat (e - s))) RW.

Definition slice (raw : list Z) (s e : Z) : list Z := take (e - s) (drop s raw).
Definition splice (raw : list Z) (a : Z) (bs : list Z) : list Z :=
  take a raw ++ bs ++ drop (a + zlen bs) raw.

(* generated read_raw(range s..e).  verify_address_with_range walks s..e and fails at the first
   index >= size, i.e. iff s < e and size < e. *)
Definition read_raw (v : ver) (L : layout) (raw : list Z) (s e : Z) : gres (list Z) :=
  if (s <? e) && (zlen raw <? e) then GErr EInvalidAddress
  else if negb (is_readable (right_range L s e)) then GErr EAccessDenied
  else if (s <=? e) && (e <=? zlen raw) then GOk (slice raw s e)
  else if v_macro_checked v then GErr EInvalidAddress else GPanic.

(* observers: (register start, register end, event) in registration order *)
Definition notify {E} (v : ver) (obs : list (Z * Z * E)) (s e : Z) : list E :=
  flat_map (fun o => match o with (rs, re, ev) =>
     if v_macro_checked v
     then (if Z.max s rs <? Z.min e re then [ev] else [])
     else (if (re <=? s) || (e <=? rs) then [] else [ev]) end) obs.

(* generated write_raw(addr, buf); [n] = buf.len(), [bytes tt] = the buffer's content (only looked
   at after the range and right checks).  -> new image, events pushed *)
Definition write_raw {E} (v : ver) (L : layout) (obs : list (Z * Z * E)) (raw : list Z)
    (a n : Z) (bytes : unit -> list Z) : gres (list Z * list E) :=
  if 2 ^ 64 <=? a + n then (if v_macro_checked v then GErr EInvalidAddress else GPanic)
  else
  let e := a + n in
  if (a <? e) && (zlen raw <? e) then GErr EInvalidAddress
  else if negb (is_writable (right_range L a e)) then GErr EAccessDenied
  else if (a <=? e) && (e <=? zlen raw) then GOk (splice raw a (bytes tt), notify v obs a e)
  else if v_macro_checked v then GErr EInvalidAddress else GPanic.

(* ---- constants of the two modules ------------------------------------- *)
Definition TLID := zs "C09F0257-3F5C-41C2-B34F-FE67CB108370".
Definition VENDOR := zs "CameleonProjectDevelopers".
Definition SYS_MODEL := zs "CameleonGenTLSystemModule".
Definition SYS_TOOLTIP := zs "GenTL System Module".
Definition SYS_PORT := zs "TLPort".
Definition IF_ID := zs "639290f8-043c-436d-b8d1-cb916e2928e9".
Definition IF_MODEL := zs "CameleonGenTLU3VInterfaceModule".
Definition IF_DISPLAY := zs "U3V Interface Module".
Definition IF_PORT := zs "InterfacePort".
Definition VERSION := zs "1.0.0".        (* XML_{MAJOR,MINOR,SUBMINOR}_VERSION = 1, 0, 0 *)

Definition SYS_XML_ADDR := 1120.
Definition IF_XML_ADDR := 336.

(* environment: what the model cannot know from the sources of gentl alone *)
Record env := { e_path : list Z;       (* canonicalised ../gentl/src/imp/system/mod.rs *)
                e_sys_xml : list Z;    (* GENAPI_XML of system/genapi.rs after formatcp! *)
                e_if_xml : list Z }.   (* GENAPI_XML of interface/u3v_genapi.rs *)

Definition sys_layout (E : env) : layout :=
  [ (0, 1024, RO);     (* TlPath *)
    (1024, 4, RO);     (* InterfaceUpdateList *)
    (1028, 4, RW);     (* InterfaceSelector *)
    (1032, 4, RO);     (* InterfaceSelectorMax *)
    (1036, 64, RO);    (* InterfaceID *)
    (1100, 8, RO);     (* GevInterfaceMACAddress *)
    (1108, 4, RO); (1112, 4, RO); (1116, 4, RO);
    (SYS_XML_ADDR, zlen (e_sys_xml E), RO) ].
Definition if_layout (E : env) : layout :=
  [ (0, 4, WO);        (* DeviceUpdateList *)
    (4, 4, RW);        (* DeviceSelector *)
    (8, 4, RO);        (* DeviceSelectorMax *)
    (12, 64, RO); (76, 128, RO); (204, 128, RO); (332, 4, RO);
    (IF_XML_ADDR, zlen (e_if_xml E), RO) ].

Definition zeros (n : Z) : list Z := repeat 0 (Z.to_nat n).
Definition pad (n : Z) (s : list Z) : list Z := s ++ zeros (n - zlen s).

(* Memory::new() followed by initialize_vm *)
Definition sys_image (E : env) : list Z :=
  pad 1024 (e_path E) ++ zeros 4 ++ zeros 4 ++ zeros 4 ++ pad 64 IF_ID ++ zeros 20 ++ e_sys_xml E.
Definition if_image (E : env) : list Z := zeros 336 ++ e_if_xml E.

Inductive sev := SUpdateList | SSelector.
Inductive iev := IUpdateList | ISelector.
Definition sys_obs : list (Z * Z * sev) := [(1024, 1028, SUpdateList); (1028, 1032, SSelector)].
Definition if_obs : list (Z * Z * iev) := [(0, 4, IUpdateList); (4, 8, ISelector)].

(* ---- state ------------------------------------------------------------ *)
Inductive hkind := KSys | KIf.
Record hentry := { h_kind : hkind; h_live : bool; h_parent : Z }.

Record state := {
  lib_init : bool;
  sys_open : bool;
  if_open : bool;
  handles : list hentry;
  last_error : nat -> option gerr;      (* thread local *)
  sys_raw : list Z; sys_evq : list sev;
  if_raw : list Z; if_evq : list iev }.

Definition init_state (E : env) : state :=
  {| lib_init := false; sys_open := false; if_open := false; handles := [];
     last_error := fun _ => None;
     sys_raw := sys_image E; sys_evq := []; if_raw := if_image E; if_evq := [] |}.

Definition set_err (s : state) (t : nat) (e : gerr) : state :=
  {| lib_init := lib_init s; sys_open := sys_open s; if_open := if_open s; handles := handles s;
     last_error := fun u => if Nat.eqb u t then Some e else last_error s u;
     sys_raw := sys_raw s; sys_evq := sys_evq s; if_raw := if_raw s; if_evq := if_evq s |}.
Definition set_init (s : state) (b : bool) : state :=
  {| lib_init := b; sys_open := sys_open s; if_open := if_open s; handles := handles s;
     last_error := last_error s;
     sys_raw := sys_raw s; sys_evq := sys_evq s; if_raw := if_raw s; if_evq := if_evq s |}.
Definition set_open (s : state) (so io : bool) (hs : list hentry) : state :=
  {| lib_init := lib_init s; sys_open := so; if_open := io; handles := hs;
     last_error := last_error s;
     sys_raw := sys_raw s; sys_evq := sys_evq s; if_raw := if_raw s; if_evq := if_evq s |}.
Definition set_sys_mem (s : state) (raw : list Z) (q : list sev) : state :=
  {| lib_init := lib_init s; sys_open := sys_open s; if_open := if_open s; handles := handles s;
     last_error := last_error s;
     sys_raw := raw; sys_evq := q; if_raw := if_raw s; if_evq := if_evq s |}.
Definition set_if_mem (s : state) (raw : list Z) (q : list iev) : state :=
  {| lib_init := lib_init s; sys_open := sys_open s; if_open := if_open s; handles := handles s;
     last_error := last_error s;
     sys_raw := sys_raw s; sys_evq := sys_evq s; if_raw := raw; if_evq := q |}.

(* handle argument: None = must not be used (never handed out / closed) *)
Inductive href := HNull | HLive (i : nat) (k : hkind).
Definition lookup (s : state) (h : Z) : option href :=
  if h =? -1 then Some HNull
  else if h <? 0 then None
  else match nth_error (handles s) (Z.to_nat h) with
       | Some e => if h_live e then Some (HLive (Z.to_nat h) (h_kind e)) else None
       | None => None
       end.

(* from_raw_manually_drop + ModuleHandle::system() / interface() *)
Definition as_kind (k : hkind) (r : href) : gres nat :=
  match r with
  | HNull => GErr EInvalidHandle
  | HLive i k' => match k, k' with KSys, KSys | KIf, KIf => GOk i | _, _ => GErr EInvalidHandle end
  end.
Definition as_port (r : href) : gres hkind :=
  match r with HNull => GErr EInvalidHandle | HLive _ k => GOk k end.

Fixpoint kill (hs : list hentry) (i : nat) : list hentry :=
  match hs, i with
  | [], _ => []
  | e :: r, O => {| h_kind := h_kind e; h_live := false; h_parent := h_parent e |} :: r
  | e :: r, S j => e :: kill r j
  end.

(* ---- module ports ----------------------------------------------------- *)
(* Port::read of both modules after `address as usize`: end = address + len *)
Definition port_read (v : ver) (L : layout) (raw : list Z) (a n : Z) : gres (list Z) :=
  if 2 ^ 64 <=? a + n then (if v_checked_end v then GErr EInvalidAddress else GPanic)
  else read_raw v L raw a (a + n).

(* SystemModule::handle_interface_selector_change: index check, then InterfaceID is rewritten *)
Definition sys_selector_change (raw : list Z) : list Z * gres unit :=
  if 1 <=? of_le (slice raw 1028 1032) then (raw, GErr EInvalidIndex)
  else (splice raw 1036 (pad 64 IF_ID), GOk tt).

(* SystemModule::handle_events: -> image, events left in the queue, result *)
Fixpoint sys_handle_events (q : list sev) (raw : list Z) : list Z * list sev * gres unit :=
  match q with
  | [] => (raw, [], GOk tt)
  | SUpdateList :: q' => sys_handle_events q' raw
  | SSelector :: q' =>
      match sys_selector_change raw with
      | (raw', GOk _) => sys_handle_events q' raw'
      | (raw', r) => (raw', q', r)
      end
  end.

(* U3VInterfaceModule::handle_events with an empty device list: DeviceUpdateList runs
   update_device_list -> enumerate_u3v_device (todo!() in the pinned code, NotImplemented now);
   DeviceSelector: index >= devices.len() = 0 *)
Definition if_handle_events (v : ver) (q : list iev) (raw : list Z) : list Z * list iev * gres unit :=
  match q with
  | [] => (raw, [], GOk tt)
  | IUpdateList :: q' => (raw, q', if v_enum_error v then GErr ENotImplemented else GPanic)
  | ISelector :: q' => (raw, q', GErr EInvalidIndex)
  end.

(* Port::write of a module named by kind; returns the new state (memory and queue change even
   when event handling fails) and the result *)
Definition port_write (E : env) (v : ver) (s : state) (k : hkind) (a n : Z) (bytes : unit -> list Z)
  : state * gres Z :=
  match k with
  | KSys =>
      match write_raw v (sys_layout E) sys_obs (sys_raw s) a n bytes with
      | GOk (raw', evs) =>
          match sys_handle_events (sys_evq s ++ evs) raw' with
          | (raw'', q, GOk _) => (set_sys_mem s raw'' q, GOk n)
          | (raw'', q, GErr e) => (set_sys_mem s raw'' q, GErr e)
          | (raw'', q, GPanic) => (s, GPanic)
          end
      | GErr e => (s, GErr e)
      | GPanic => (s, GPanic)
      end
  | KIf =>
      if negb (if_open s) then (s, GErr ENotInitialized) else
      match write_raw v (if_layout E) if_obs (if_raw s) a n bytes with
      | GOk (raw', evs) =>
          match if_handle_events v (if_evq s ++ evs) raw' with
          | (raw'', q, GOk _) => (set_if_mem s raw'' q, GOk n)
          | (raw'', q, GErr e) => (set_if_mem s raw'' q, GErr e)
          | (raw'', q, GPanic) => (s, GPanic)
          end
      | GErr e => (s, GErr e)
      | GPanic => (s, GPanic)
      end
  end.

Definition port_read_k (E : env) (v : ver) (s : state) (k : hkind) (a n : Z) : gres (list Z) :=
  match k with
  | KSys => port_read v (sys_layout E) (sys_raw s) a n
  | KIf => if negb (if_open s) then GErr ENotInitialized
           else port_read v (if_layout E) (if_raw s) a n
  end.

(* ---- info values ------------------------------------------------------ *)
Definition hexdig (d : Z) : Z := if d <? 10 then 48 + d else 55 + d.
Fixpoint hex_aux (fuel : nat) (n : Z) (acc : list Z) : list Z :=
  match fuel with
  | O => acc
  | S f => let acc' := hexdig (n mod 16) :: acc in
           if n / 16 =? 0 then acc' else hex_aux f (n / 16) acc'
  end.
Definition hex_upper (n : Z) : list Z := hex_aux 16 n [].     (* {:X} of a u64 *)

Definition basename (p : list Z) : list Z :=
  fold_left (fun acc c => if c =? 47 then [] else acc ++ [c]) p [].

(* TLGetInfo *)
Definition tl_info (E : env) (cmd : Z) : gres info :=
  if cmd =? 0 then GOk (IStr TLID) else if cmd =? 1 then GOk (IStr VENDOR)
  else if cmd =? 2 then GOk (IStr SYS_MODEL) else if cmd =? 3 then GOk (IStr VERSION)
  else if cmd =? 4 then GOk (IStr (zs "Mixed")) else if cmd =? 5 then GOk (IStr (basename (e_path E)))
  else if cmd =? 6 then GOk (IStr (e_path E)) else if cmd =? 7 then GOk (IStr SYS_TOOLTIP)
  else if cmd =? 8 then GOk (II32 0) else if cmd =? 9 then GOk (IU32 1)
  else if cmd =? 10 then GOk (IU32 6) else GErr EInvalidParam.

(* if_get_info *)
Definition if_info (cmd : Z) : gres info :=
  if cmd =? 0 then GOk (IStr IF_ID) else if cmd =? 1 then GOk (IStr IF_DISPLAY)
  else if cmd =? 2 then GOk (IStr (zs "U3V")) else GErr EInvalidParam.

Definition port_model (k : hkind) := match k with KSys => SYS_MODEL | KIf => IF_MODEL end.
Definition xml_addr (k : hkind) := match k with KSys => SYS_XML_ADDR | KIf => IF_XML_ADDR end.
Definition xml_len (E : env) (k : hkind) :=
  match k with KSys => zlen (e_sys_xml E) | KIf => zlen (e_if_xml E) end.

(* port_info() / xml_infos() of the interface assert that it is open *)
Definition port_ready (s : state) (k : hkind) : gres unit :=
  match k with KSys => GOk tt | KIf => if if_open s then GOk tt else GErr ENotInitialized end.

(* GCGetPortInfo *)
Definition port_info (k : hkind) (cmd : Z) : gres info :=
  if cmd =? 0 then GOk (IStr (match k with KSys => TLID | KIf => IF_ID end))
  else if cmd =? 1 then GOk (IStr VENDOR) else if cmd =? 2 then GOk (IStr (port_model k))
  else if cmd =? 3 then GOk (IStr (match k with KSys => zs "Mixed" | KIf => zs "U3V" end))
  else if cmd =? 4 then GOk (IStr (match k with KSys => zs "TLSystem" | KIf => zs "TLInterface" end))
  else if cmd =? 5 then GOk (IBool true) else if cmd =? 6 then GOk (IBool false)
  else if cmd =? 7 then GOk (IBool true) else if cmd =? 8 then GOk (IBool true)
  else if cmd =? 9 then GOk (IBool false) else if cmd =? 10 then GOk (IBool false)
  else if cmd =? 11 then GOk (IStr VERSION)
  else if cmd =? 12 then GOk (IStr (match k with KSys => SYS_PORT | KIf => IF_PORT end))
  else GErr EInvalidParam.

(* file_location_to_url, XmlLocation::RegisterMap, uncompressed *)
Definition port_url (E : env) (k : hkind) : list Z :=
  zs "local:" ++ VENDOR ++ zs "_" ++ port_model k ++ zs "_" ++ VERSION ++ zs ".xml;"
  ++ hex_upper (xml_addr k) ++ zs ";" ++ hex_upper (xml_len E k) ++ zs "?SchemaVersion=1.1.0".

(* GCGetPortURLInfo after the index check *)
Definition url_info (E : env) (k : hkind) (cmd : Z) : gres info :=
  if cmd =? 0 then GOk (IStr (port_url E k))
  else if cmd =? 1 then GOk (II32 1) else if cmd =? 2 then GOk (II32 1)
  else if cmd =? 3 then GOk (II32 1) else if cmd =? 4 then GOk (II32 0)
  else if cmd =? 5 then GOk (II32 0) else if cmd =? 6 then GErr ENotAvailable
  else if cmd =? 7 then GOk (IU64 (xml_addr k)) else if cmd =? 8 then GOk (IU64 (xml_len E k))
  else if cmd =? 9 then GOk (II32 0) else if cmd =? 10 then GErr ENotAvailable
  else GErr EInvalidParam.

(* ---- the API ---------------------------------------------------------- *)
Inductive api_call :=
| GCInitLib | GCCloseLib | CGCGetInfo
| GCGetLastError (d : dst)
| TLOpen
| TLClose (h : Z)
| TLGetInfo (h cmd : Z) (d : dst)
| TLGetNumInterfaces (h : Z)
| TLGetInterfaceID (h idx : Z) (d : dst)
| TLGetInterfaceInfo (h : Z) (id : list Z) (cmd : Z) (d : dst)
| TLOpenInterface (h : Z) (id : list Z)
| TLUpdateInterfaceList (h : Z)
| IFClose (h : Z)
| IFGetInfo (h cmd : Z) (d : dst)
| IFGetNumDevices (h : Z)
| IFUpdateDeviceList (h : Z)
| IFGetDeviceID (h idx : Z) (d : dst)
| IFGetDeviceInfo (h : Z) (id : list Z) (cmd : Z) (d : dst)
| IFOpenDevice (h : Z) (id : list Z) (flag : Z)
| IFGetParentTL (h : Z)
| GCGetPortInfo (h cmd : Z) (d : dst)
| GCGetPortURL (h : Z) (d : dst)
| GCGetNumPortURLs (h : Z)
| GCGetPortURLInfo (h idx cmd : Z) (d : dst)
| GCReadPort (h addr size : Z)
| GCWritePort (h addr : Z) (data : list Z) (extra : Z)
| GCReadPortStacked (h : Z) (ents : list (Z * Z))
| GCWritePortStacked (h : Z) (ents : list (Z * list Z)).

Definition handle_of (c : api_call) : option Z :=
  match c with
  | GCInitLib | GCCloseLib | CGCGetInfo | GCGetLastError _ | TLOpen => None
  | TLClose h | TLGetInfo h _ _ | TLGetNumInterfaces h | TLGetInterfaceID h _ _
  | TLGetInterfaceInfo h _ _ _ | TLOpenInterface h _ | TLUpdateInterfaceList h | IFClose h
  | IFGetInfo h _ _ | IFGetNumDevices h | IFUpdateDeviceList h | IFGetDeviceID h _ _
  | IFGetDeviceInfo h _ _ _ | IFOpenDevice h _ _ | IFGetParentTL h | GCGetPortInfo h _ _
  | GCGetPortURL h _ | GCGetNumPortURLs h | GCGetPortURLInfo h _ _ _ | GCReadPort h _ _
  | GCWritePort h _ _ _ | GCReadPortStacked h _ | GCWritePortStacked h _ => Some h
  end.

(* Observable outputs in the canonical form the driver tools/gentl_child.py prints: out-parameters
   start from sentinels, caller buffers are pre-filled with 0xA5 and followed by guard bytes. *)
Definition FILL := 165.
Definition buf_view (cap : Z) (written : list Z) : list Z :=
  written ++ repeat FILL (Z.to_nat (cap - zlen written)).
Definition dst_view (d : dst) (written : list Z) : list Z :=
  match d with DNull => [] | DBuf cap => buf_view cap written end.
Definition dst_size0 (d : dst) : Z := match d with DNull => 0 | DBuf cap => cap end.

(* body result: new state, error (None = Ok(())), outputs *)
Definition bres := option (state * option gerr * list Z).   (* None = panic *)

(* info query with type: outputs [type; size; buffer...; guard] *)
Definition info_untouched (d : dst) : list Z := [-77; dst_size0 d] ++ dst_view d [] ++ [1].
Definition info_out (s : state) (d : dst) (r : gres info) : bres :=
  match (let* i := r in copy_info i d) with
  | GOk (w, n, ty) => Some (s, None, [ty; n] ++ dst_view d w ++ [1])
  | GErr e => Some (s, Some e, info_untouched d)
  | GPanic => None
  end.
(* string query without type: outputs [size; buffer...; guard] *)
Definition str_untouched (d : dst) : list Z := [dst_size0 d] ++ dst_view d [] ++ [1].
Definition str_out (s : state) (d : dst) (r : gres (list Z)) : bres :=
  match (let* x := r in str_copy_to x d) with
  | GOk (w, n) => Some (s, None, [n] ++ dst_view d w ++ [1])
  | GErr e => Some (s, Some e, str_untouched d)
  | GPanic => None
  end.

(* real bytes the driver puts behind a port buffer of claimed size n *)
Definition real_cap (n : Z) : Z := if n <=? 65536 then n else 64.

(* Port::read_stacked: -> entries read, error, buffers *)
Fixpoint read_stacked (E : env) (v : ver) (s : state) (k : hkind) (ents : list (Z * Z)) (cnt : Z)
  : option (Z * option gerr * list Z) :=
  match ents with
  | [] => Some (cnt, None, [])
  | (a, n) :: r =>
      match port_read_k E v s k a n with
      | GOk bs => match read_stacked E v s k r (cnt + 1) with
                  | Some (c, e, o) => Some (c, e, buf_view (real_cap n) bs ++ [1] ++ o)
                  | None => None
                  end
      | GErr e => Some (cnt, Some e, flat_map (fun an => buf_view (real_cap (snd an)) [] ++ [1]) ents)
      | GPanic => None
      end
  end.

Fixpoint write_stacked (E : env) (v : ver) (s : state) (k : hkind) (ents : list (Z * list Z)) (cnt : Z)
  : option (state * Z * option gerr) :=
  match ents with
  | [] => Some (s, cnt, None)
  | (a, bs) :: r =>
      match port_write E v s k a (zlen bs) (fun _ => bs) with
      | (s', GOk _) => write_stacked E v s' k r (cnt + 1)
      | (s', GErr e) => Some (s', cnt, Some e)
      | (_, GPanic) => None
      end
  end.

Definition gerr_of {A} (r : gres A) : option gerr := match r with GErr e => Some e | _ => None end.

(* the body of an exported function, after the init assertion *)
Definition body (E : env) (v : ver) (s : state) (t : nat) (c : api_call) (r : href) : bres :=
  match c with
  | GCInitLib =>
      if lib_init s then Some (s, Some EResourceInUse, []) else Some (set_init s true, None, [])
  | GCCloseLib =>
      if lib_init s then Some (set_init s false, None, []) else Some (s, Some ENotInitialized, [])
  | CGCGetInfo => Some (s, Some ENotImplemented, [])
  | GCGetLastError d =>
      let '(text, code) := match last_error s t with
                           | Some e => (err_text e, code_of e)
                           | None => (zs "No Error", 0)
                           end in
      match str_copy_to text d with
      | GOk _ => Some (s, None, [code; 1])
      | GErr e => Some (s, Some e, [12345; 1])
      | GPanic => None
      end
  | TLOpen =>
      if sys_open s then Some (s, Some EResourceInUse, [-1])
      else Some (set_open s true (if_open s)
                   (handles s ++ [{| h_kind := KSys; h_live := true; h_parent := -1 |}]),
                 None, [zlen (handles s)])
  | TLClose _ =>
      match as_kind KSys r with
      | GOk i =>
          if sys_open s
          then Some (set_open s (if v_close_resets v then false else true) false (kill (handles s) i),
                     None, [])
          else Some (s, Some ENotInitialized, [])
      | GErr e => Some (s, Some e, [])
      | GPanic => None
      end
  | TLGetInfo _ cmd d => info_out s d (let* _ := as_kind KSys r in tl_info E cmd)
  | TLGetNumInterfaces _ =>
      match as_kind KSys r with
      | GOk _ => Some (s, None, [1]) | GErr e => Some (s, Some e, [57005]) | GPanic => None
      end
  | TLGetInterfaceID _ idx d =>
      str_out s d (let* _ := as_kind KSys r in if idx =? 0 then GOk IF_ID else GErr EInvalidIndex)
  | TLGetInterfaceInfo h id cmd d =>
      info_out s d (let* _ := as_kind KSys r in
                    if list_eq_dec Z.eq_dec id IF_ID then if_info cmd else GErr (EInvalidId id))
  | TLOpenInterface h id =>
      match (let* _ := as_kind KSys r in
             if list_eq_dec Z.eq_dec id IF_ID then
               (if if_open s then GErr EResourceInUse else GOk tt)
             else GErr (EInvalidId id)) with
      | GOk _ => Some (set_open s (sys_open s) true
                         (handles s ++ [{| h_kind := KIf; h_live := true; h_parent := h |}]),
                       None, [zlen (handles s)])
      | GErr e => Some (s, Some e, [-1])
      | GPanic => None
      end
  | TLUpdateInterfaceList _ =>
      match (let* _ := as_kind KSys r in if sys_open s then GOk tt else GErr ENotInitialized) with
      | GOk _ => Some (s, None, [0]) | GErr e => Some (s, Some e, [90]) | GPanic => None
      end
  | IFClose _ =>
      match as_kind KIf r with
      | GOk i => Some (set_open s (sys_open s) false (kill (handles s) i), None, [])
      | GErr e => Some (s, Some e, [])
      | GPanic => None
      end
  | IFGetInfo _ cmd d => info_out s d (let* _ := as_kind KIf r in if_info cmd)
  | IFGetNumDevices _ =>
      match as_kind KIf r with
      | GOk _ => Some (s, None, [0]) | GErr e => Some (s, Some e, [57005]) | GPanic => None
      end
  | IFUpdateDeviceList _ =>
      match as_kind KIf r with
      | GOk _ => if if_open s
                 then (if v_enum_error v then Some (s, Some ENotImplemented, [90]) else None)
                 else Some (s, Some ENotInitialized, [90])
      | GErr e => Some (s, Some e, [90])
      | GPanic => None
      end
  | IFGetDeviceID _ idx d =>
      str_out s d (let* _ := as_kind KIf r in GErr EInvalidIndex)
  | IFGetDeviceInfo _ id cmd d =>
      info_out s d (let* _ := as_kind KIf r in GErr (EInvalidId id))
  | IFOpenDevice _ id flag =>
      match as_kind KIf r with
      | GOk _ => Some (s, Some (EInvalidId id), [-1]) | GErr e => Some (s, Some e, [-1])
      | GPanic => None
      end
  | IFGetParentTL _ =>
      match as_kind KIf r with
      | GOk _ => Some (s, None, [1]) | GErr e => Some (s, Some e, [0]) | GPanic => None
      end
  | GCGetPortInfo _ cmd d =>
      info_out s d (let* k := as_port r in let* _ := port_ready s k in port_info k cmd)
  | GCGetPortURL _ d =>
      str_out s d (let* k := as_port r in let* _ := port_ready s k in GOk (port_url E k))
  | GCGetNumPortURLs _ =>
      match (let* k := as_port r in port_ready s k) with
      | GOk _ => Some (s, None, [1]) | GErr e => Some (s, Some e, [57005]) | GPanic => None
      end
  | GCGetPortURLInfo _ idx cmd d =>
      info_out s d (let* k := as_port r in let* _ := port_ready s k in
                    if idx =? 0 then url_info E k cmd else GErr EInvalidIndex)
  | GCReadPort _ a n =>
      match (let* k := as_port r in port_read_k E v s k a n) with
      | GOk bs => Some (s, None, [zlen bs] ++ buf_view (real_cap n) bs ++ [1])
      | GErr e => Some (s, Some e, [n] ++ buf_view (real_cap n) [] ++ [1])
      | GPanic => None
      end
  | GCWritePort _ a data extra =>
      let n := zlen data + extra in
      match as_port r with
      | GOk k => match port_write E v s k a n (fun _ => data ++ zeros extra) with
                 | (s', GOk w) => Some (s', None, [w])
                 | (s', GErr e) => Some (s', Some e, [n])
                 | (_, GPanic) => None
                 end
      | GErr e => Some (s, Some e, [n])
      | GPanic => None
      end
  | GCReadPortStacked _ ents =>
      match as_port r with
      | GOk k => match read_stacked E v s k ents 0 with
                 | Some (c, e, o) => Some (s, e, c :: o)
                 | None => None
                 end
      | GErr e => Some (s, Some e,
                        zlen ents :: flat_map (fun an => buf_view (real_cap (snd an)) [] ++ [1]) ents)
      | GPanic => None
      end
  | GCWritePortStacked _ ents =>
      match as_port r with
      | GOk k => match write_stacked E v s k ents 0 with
                 | Some (s', c, e) => Some (s', e, [c])
                 | None => None
                 end
      | GErr e => Some (s, Some e, [zlen ents])
      | GPanic => None
      end
  end.

(* out-parameters as the driver reports them when the function returned before touching them *)
Definition untouched (c : api_call) : list Z :=
  match c with
  | GCInitLib | GCCloseLib | CGCGetInfo | TLClose _ | IFClose _ => []
  | GCGetLastError _ => [12345; 1]
  | TLOpen | TLOpenInterface _ _ | IFOpenDevice _ _ _ => [-1]
  | TLGetInfo _ _ d | TLGetInterfaceInfo _ _ _ d | IFGetInfo _ _ d | IFGetDeviceInfo _ _ _ d
  | GCGetPortInfo _ _ d | GCGetPortURLInfo _ _ _ d => info_untouched d
  | TLGetInterfaceID _ _ d | IFGetDeviceID _ _ d | GCGetPortURL _ d => str_untouched d
  | TLGetNumInterfaces _ | IFGetNumDevices _ | GCGetNumPortURLs _ => [57005]
  | TLUpdateInterfaceList _ | IFUpdateDeviceList _ => [90]
  | IFGetParentTL _ => [0]
  | GCReadPort _ _ n => [n] ++ buf_view (real_cap n) [] ++ [1]
  | GCWritePort _ _ data extra => [zlen data + extra]
  | GCReadPortStacked _ ents =>
      zlen ents :: flat_map (fun an => buf_view (real_cap (snd an)) [] ++ [1]) ents
  | GCWritePortStacked _ ents => [zlen ents]
  end.

Inductive result := Skipped | Made (code : Z) (outs : list Z).

(* gentl_api!: init assertion (all functions except GCInitLib), body, error code,
   save_last_error.  None = the process aborted. *)
Definition step (E : env) (v : ver) (s : state) (t : nat) (c : api_call) : option (state * result) :=
  match (match handle_of c with Some h => lookup s h | None => Some HNull end) with
  | None => Some (s, Skipped)
  | Some r =>
      if (match c with GCInitLib => false | _ => true end) && negb (lib_init s)
      then Some (set_err s t ENotInitialized, Made (code_of ENotInitialized) (untouched c))
      else match body E v s t c r with
           | None => None
           | Some (s', None, o) => Some (s', Made 0 o)
           | Some (s', Some e, o) => Some (set_err s' t e, Made (code_of e) o)
           end
  end.

(* a call sequence: (thread, call) *)
Fixpoint exec (E : env) (v : ver) (s : state) (cs : list (nat * api_call))
  : option (state * list result) :=
  match cs with
  | [] => Some (s, [])
  | (t, c) :: r =>
      match step E v s t c with
      | None => None
      | Some (s', x) => match exec E v s' r with
                        | Some (s'', xs) => Some (s'', x :: xs)
                        | None => None
                        end
      end
  end.

(* canonical output of a sequence for the correspondence: per call a length-prefixed result,
   -9 when the process died *)
Definition show_result (x : result) : list Z :=
  match x with Skipped => [1; -7] | Made c o => (1 + zlen o) :: c :: o end.
Fixpoint run_from (E : env) (v : ver) (s : state) (cs : list (nat * api_call)) : list Z :=
  match cs with
  | [] => []
  | (t, c) :: r =>
      match step E v s t c with
      | None => [-9]
      | Some (s', x) => show_result x ++ run_from E v s' r
      end
  end.
Definition run (E : env) (cs : list (nat * api_call)) : list Z := run_from E fixed (init_state E) cs.
Definition run_pinned (E : env) (cs : list (nat * api_call)) : list Z :=
  run_from E pinned (init_state E) cs.
