(* Model of the streaming machinery of cameleon/src/u3v/stream_handle.rs as a labelled
   transition system (C12):

     StreamingLoop::run            the loop thread, cut at every point where it interacts with
                                   another thread or with the USB layer: cancellation_rx.try_recv,
                                   sender.try_recv, AsyncPool::new / submit / poll / drop,
                                   sender.try_send, drop of the sender when the thread ends
     StreamHandle::start/stop      the controller: start_streaming_loop, the rendezvous
                                   cancellation_tx.send(()) split into call / registration in the
                                   zero-capacity channel / return
     payload::channel              two bounded FIFOs (payload channel loop -> receiver, send-back
                                   channel receiver -> loop) with try_ operations only on the loop side
     the receiver                  an arbitrary environment: try_recv / recv, send_back, drop
     the device                    a script of results of the bulk-in endpoint, consumed by `poll`
                                   in submission order (device/src/u3v/async_read.rs: FIFO submit,
                                   poll returns the first pending transfer's result, a time-out leaves
                                   it pending, drop cancels and reaps everything)

   Between two such points the loop body is a deterministic function (`finish`: the parse of
   leader and trailer, the length accounting and PayloadBuilder::build of model/Payload.v).
   `step : bool -> state -> label -> option state`; the boolean selects the code after the two
   `fix:` commits (true) or the pinned code before them (false, kept for the refutation witnesses).
   Labels carry the observed results, so `step` is deterministic and a recorded trace of the real
   threads can be replayed (`replay`). *)
From Cam Require Export Outcome Bytes Ack Stream Payload.

(* ---- stream parameters (StreamParams) -------------------------------------------------- *)

Record params := { q_leader : Z; q_trailer : Z; q_psize : Z; q_pcount : Z; q_f1 : Z; q_f2 : Z }.

Definition prm_ok (q : params) : bool :=
  (0 <=? q_leader q) && (0 <=? q_trailer q) && (0 <=? q_psize q) && (0 <=? q_pcount q) &&
  (0 <=? q_f1 q) && (0 <=? q_f2 q).

(* payload_transfer_sizes(): the sizes of the payload transfers in submission order *)
Definition psizes (q : params) : list Z :=
  repeat (q_psize q) (Z.to_nat (q_pcount q)) ++
  (if q_f1 q =? 0 then [] else [q_f1 q]) ++ (if q_f2 q =? 0 then [] else [q_f2 q]).

Definition max_payload (q : params) : Z := q_psize q * q_pcount q + q_f1 q + q_f2 q.

(* buffer sizes of the transfers of one iteration: read_leader, read_payload, read_trailer *)
Definition slots (q : params) : list Z := q_leader q :: psizes q ++ [q_trailer q].

(* ---- device script ----------------------------------------------------------------------- *)

Inductive xfer := XData (d : list Z) | XErr (code : Z) | XTimeout.

(* StreamError classes as the harness prints them *)
Definition C_INVALID_PAYLOAD : Z := 3.
Definition C_DISCONNECTED : Z := 4.
Definition C_IO : Z := 5.
Definition C_TIMEOUT : Z := 6.

(* impl From<u3v::Error> for StreamError (cameleon/src/u3v/mod.rs), libusb codes of rust/shim *)
Definition usb_class (code : Z) : Z :=
  if (code =? 3) || (code =? 4) then C_DISCONNECTED
  else if code =? 6 then C_TIMEOUT else C_IO.

Inductive item := IOk (p : payload) | IErr (c : Z).

(* ---- the deterministic part of one iteration ------------------------------------------------ *)

Definition write_at (buf : list Z) (off : Z) (d : list Z) : list Z :=
  take off buf ++ d ++ drop (off + zlen d) buf.

(* every payload transfer writes at its own fixed offset of payload_buf *)
Fixpoint pwrite (szs : list Z) (off : Z) (buf : list Z) (pds : list (list Z)) : list Z :=
  match szs, pds with
  | sz :: szs', d :: pds' => pwrite szs' (off + sz) (write_at buf off d) pds'
  | _, _ => buf
  end.

(* length accounting after the fix: payload_len counts while is_contiguous *)
Fixpoint acct (szs : list Z) (pds : list (list Z)) (plen : Z) (contig : bool) : Z :=
  match szs, pds with
  | sz :: szs', d :: pds' =>
    acct szs' pds' (if contig then plen + zlen d else plen) (contig && (zlen d =? sz))
  | _, _ => plen
  end.

(* before the fix: the sum of all payload transfer lengths *)
Fixpoint acct0 (pds : list (list Z)) : Z :=
  match pds with [] => 0 | d :: r => zlen d + acct0 r end.

Record fin := { f_item : item; f_keep : option (list Z); f_lbuf : list Z; f_tbuf : list Z }.

(* all transfers of the iteration completed with the data ds (leader, payload transfers, trailer).
   None: the loop thread panics. *)
Definition finish (fixed : bool) (q : params) (lbuf tbuf buf : list Z) (ds : list (list Z)) : option fin :=
  let d0 := hd [] ds in
  let rest := tl ds in
  let pds := removelast rest in
  let dl := last rest [] in
  let lbuf' := write_at lbuf 0 d0 in
  let tbuf' := write_at tbuf 0 dl in
  let buf' := pwrite (psizes q) 0 buf pds in
  let plen := if fixed then acct (psizes q) pds 0 true else acct0 pds in
  let lsrc := if fixed then take (zlen d0) lbuf' else lbuf' in
  let tsrc := if fixed then take (zlen dl) tbuf' else tbuf' in
  match parse_leader lsrc with
  | Panic => None
  | Err _ => Some {| f_item := IErr C_INVALID_PAYLOAD; f_keep := Some buf'; f_lbuf := lbuf'; f_tbuf := tbuf' |}
  | Ok l =>
    match parse_trailer tsrc with
    | Panic => None
    | Err _ => Some {| f_item := IErr C_INVALID_PAYLOAD; f_keep := Some buf'; f_lbuf := lbuf'; f_tbuf := tbuf' |}
    | Ok t =>
      match build l t buf' plen with
      | Panic => None
      | Err _ => Some {| f_item := IErr C_INVALID_PAYLOAD; f_keep := None; f_lbuf := lbuf'; f_tbuf := tbuf' |}
      | Ok p => Some {| f_item := IOk p; f_keep := None; f_lbuf := lbuf'; f_tbuf := tbuf' |}
      end
    end
  end.

(* leader_buf after an iteration that was abandoned after the polls ds *)
Definition lbuf_after (lbuf : list Z) (ds : list (list Z)) : list Z :=
  match ds with [] => lbuf | d0 :: _ => write_at lbuf 0 d0 end.

(* payload.payload.resize(maximum_payload_size, 0) *)
Definition resize (n : Z) (buf : list Z) : list Z :=
  take n buf ++ repeat 0 (Z.to_nat (n - zlen buf)).

Definition zeros (n : Z) : list Z := repeat 0 (Z.to_nat n).

(* ---- state ------------------------------------------------------------------------------------ *)

Inductive lpos :=
| LIdle                                  (* no loop thread (never started, or it has left the loop) *)
| LPanic                                 (* the loop thread panicked *)
| LHead                                  (* next: cancellation_rx.try_recv() *)
| LBuf                                   (* next: sender.try_recv()  (payload_buf_opt was None) *)
| LNew (buf : list Z)                    (* next: AsyncPool::new *)
| LSubmit (buf : list Z) (k : nat)       (* k transfers submitted; next: submit of transfer k *)
| LPoll (buf : list Z) (ds : list (list Z))   (* all submitted, ds polled; next: poll *)
| LSend (it : item) (keep : option (list Z))  (* next: sender.try_send(it) *)
| LDrop (keep : option (list Z)).        (* next: drop of the AsyncPool, then the loop head *)

(* the zero-capacity cancellation channel *)
Inductive cslot := CNone | CWaiting | CTaken | CDisc.

(* the controller: StreamHandle.cancellation_tx is None / Some / inside stop_streaming_loop *)
Inductive cphase := KIdle | KRunning | KStopping.

(* history of an item the loop tried to send: the parameters of its run, the number of script
   entries consumed when its iteration began, the data of its transfers if all of them completed *)
Record aentry := { a_prm : params; a_start : nat; a_ds : option (list (list Z)); a_item : item }.

(* ghost part of the state: written, never read, by the transitions *)
Record ghost := {
  g_consumed : nat;              (* script entries consumed so far *)
  g_istart : nat;                (* g_consumed when the current iteration began *)
  g_cur : option (list (list Z));  (* data of the iteration whose item is about to be sent *)
  g_att : list aentry;           (* every item the loop tried to send *)
  g_hist : list aentry;          (* the items accepted by the payload channel *)
  g_fail : nat;                  (* try_send calls that did not enqueue *)
  g_done : list (params * nat * list (list Z))   (* iterations in which all transfers completed *)
}.

Record state := {
  st_script : list xfer;         (* what the device will still deliver *)
  st_prm : params;               (* params of the running loop *)
  st_pos : lpos;
  st_lbuf : list Z;
  st_tbuf : list Z;
  st_pbo : option (list Z);      (* payload_buf_opt *)
  st_pending : list Z;           (* ledger of the AsyncPool: sizes of the transfers in flight *)
  st_pq : list item;             (* payload channel *)
  st_cp : Z;
  st_bq : list payload;          (* send-back channel *)
  st_cb : Z;
  st_rx : bool;                  (* the receiver still holds its end *)
  st_cancel : cslot;
  st_ctl : cphase;
  st_zombies : nat;              (* loop threads that left the loop and still own a PayloadSender *)
  st_g : ghost
}.

Definition init (script : list xfer) (cp cb : Z) : state :=
  {| st_script := script; st_prm := Build_params 0 0 0 0 0 0; st_pos := LIdle;
     st_lbuf := []; st_tbuf := []; st_pbo := None; st_pending := [];
     st_pq := []; st_cp := cp; st_bq := []; st_cb := cb; st_rx := true;
     st_cancel := CNone; st_ctl := KIdle; st_zombies := 0%nat;
     st_g := {| g_consumed := 0%nat; g_istart := 0%nat; g_cur := None; g_att := []; g_hist := [];
                g_fail := 0%nat; g_done := [] |} |}.

Inductive label :=
(* the loop thread *)
| LCancel (r : Z)              (* cancellation_rx.try_recv(): 0 Empty | 1 Ok(()) | 2 Disconnected *)
| LBackRecv (r : Z)            (* sender.try_recv(): 0 a payload | 1 none *)
| LPoolNew
| LSubmitOk (len : Z)
| LSubmitErr (code : Z)
| LPollData (len : Z)
| LPollErr (code : Z)
| LPollTimeout
| LTrySend (r : Z)             (* sender.try_send(item): 0 Ok | 1 Full | 2 Closed *)
| LPoolDrop (n : Z)            (* n transfers cancelled and reaped *)
| LSenderDrop                  (* a finished loop thread drops its PayloadSender *)
(* the receiver *)
| RRecv (r : Z)                (* 0 an item | 1 empty *)
| RSendBack (p : payload) (r : Z)   (* send_back: 0 queued | 1 full (dropped) *)
| RDrop
(* the controller *)
| KStart (q : params)          (* start_streaming_loop on a handle that is not streaming *)
| KStartBusy                   (* start_streaming_loop -> Err(InStreaming) *)
| KStopCall                    (* stop_streaming_loop entered: cancellation_tx taken *)
| KRegister                    (* send(()) has registered in the zero-capacity channel and blocks *)
| KStopRet                     (* send(()) returned: the loop took the message *)
| KDropTx.                     (* cancellation_tx dropped without a send *)

(* the steps of the loop thread inside `run` *)
Definition is_loop_label (l : label) : bool :=
  match l with
  | LCancel _ | LBackRecv _ | LPoolNew | LSubmitOk _ | LSubmitErr _ | LPollData _ | LPollErr _
  | LPollTimeout | LTrySend _ | LPoolDrop _ => true
  | _ => false
  end.

Definition nslots (q : params) : nat := length (slots q).

Definition zsum (l : list Z) : Z := fold_right Z.add 0 l.

(* the slice handed to submit number k lies inside its buffer: &mut leader_buf[..leader_size],
   &mut payload_buf[cursor..cursor + size] with cursor = the sum of the sizes before it,
   &mut trailer_buf[..trailer_size].  Slicing past the end of a Vec panics before anything is
   submitted, so a submit (successful or failed) is only a step of the loop when this holds. *)
Definition slice_in (q : params) (lbuf tbuf buf : list Z) (k : nat) (sz : Z) : bool :=
  if (k =? 0)%nat then sz <=? zlen lbuf
  else if (S k =? nslots q)%nat then sz <=? zlen tbuf
  else zsum (firstn (k - 1) (psizes q)) + sz <=? zlen buf.

Definition set_pos (s : state) (p : lpos) : state :=
  {| st_script := st_script s; st_prm := st_prm s; st_pos := p; st_lbuf := st_lbuf s; st_tbuf := st_tbuf s;
     st_pbo := st_pbo s; st_pending := st_pending s; st_pq := st_pq s; st_cp := st_cp s; st_bq := st_bq s;
     st_cb := st_cb s; st_rx := st_rx s; st_cancel := st_cancel s; st_ctl := st_ctl s;
     st_zombies := st_zombies s; st_g := st_g s |}.

(* a poll that completed (with data or an error) or timed out on a scripted entry consumes it *)
Definition consume (s : state) (rest : list xfer) : state :=
  {| st_script := rest; st_prm := st_prm s; st_pos := st_pos s; st_lbuf := st_lbuf s; st_tbuf := st_tbuf s;
     st_pbo := st_pbo s; st_pending := st_pending s; st_pq := st_pq s; st_cp := st_cp s; st_bq := st_bq s;
     st_cb := st_cb s; st_rx := st_rx s; st_cancel := st_cancel s; st_ctl := st_ctl s;
     st_zombies := st_zombies s;
     st_g := {| g_consumed := S (g_consumed (st_g s)); g_istart := g_istart (st_g s); g_cur := g_cur (st_g s); g_att := g_att (st_g s); g_hist := g_hist (st_g s); g_fail := g_fail (st_g s); g_done := g_done (st_g s) |} |}.

(* an iteration is abandoned after the polls ds: Err(c) is sent, payload_buf is dropped *)
Definition abandon (s : state) (ds : list (list Z)) (pending : list Z) (c : Z) : state :=
  {| st_script := st_script s; st_prm := st_prm s; st_pos := LSend (IErr c) None;
     st_lbuf := lbuf_after (st_lbuf s) ds; st_tbuf := st_tbuf s; st_pbo := st_pbo s; st_pending := pending;
     st_pq := st_pq s; st_cp := st_cp s; st_bq := st_bq s; st_cb := st_cb s; st_rx := st_rx s;
     st_cancel := st_cancel s; st_ctl := st_ctl s; st_zombies := st_zombies s;
     st_g := {| g_consumed := g_consumed (st_g s); g_istart := g_istart (st_g s); g_cur := None; g_att := g_att (st_g s); g_hist := g_hist (st_g s); g_fail := g_fail (st_g s); g_done := g_done (st_g s) |} |}.

Definition step (fixed : bool) (s : state) (l : label) : option state :=
  let q := st_prm s in
  match l with
  (* ---- the loop thread ---- *)
  | LCancel r =>
    match st_pos s with
    | LHead =>
      match st_cancel s with
      | CWaiting =>
        if r =? 1 then Some
          {| st_script := st_script s; st_prm := st_prm s; st_pos := LIdle; st_lbuf := st_lbuf s;
             st_tbuf := st_tbuf s; st_pbo := st_pbo s; st_pending := st_pending s; st_pq := st_pq s;
             st_cp := st_cp s; st_bq := st_bq s; st_cb := st_cb s; st_rx := st_rx s; st_cancel := CTaken;
             st_ctl := st_ctl s; st_zombies := S (st_zombies s); st_g := st_g s |}
        else None
      | CDisc =>
        if r =? 2 then Some
          {| st_script := st_script s; st_prm := st_prm s; st_pos := LIdle; st_lbuf := st_lbuf s;
             st_tbuf := st_tbuf s; st_pbo := st_pbo s; st_pending := st_pending s; st_pq := st_pq s;
             st_cp := st_cp s; st_bq := st_bq s; st_cb := st_cb s; st_rx := st_rx s; st_cancel := CNone;
             st_ctl := st_ctl s; st_zombies := S (st_zombies s); st_g := st_g s |}
        else None
      | _ =>
        if r =? 0 then
          match st_pbo s with
          | Some b => Some
            {| st_script := st_script s; st_prm := st_prm s; st_pos := LNew b; st_lbuf := st_lbuf s;
               st_tbuf := st_tbuf s; st_pbo := None; st_pending := st_pending s; st_pq := st_pq s;
               st_cp := st_cp s; st_bq := st_bq s; st_cb := st_cb s; st_rx := st_rx s;
               st_cancel := st_cancel s; st_ctl := st_ctl s; st_zombies := st_zombies s; st_g := st_g s |}
          | None => Some (set_pos s LBuf)
          end
        else None
      end
    | _ => None
    end
  | LBackRecv r =>
    match st_pos s with
    | LBuf =>
      match st_bq s with
      | p :: bq' =>
        if r =? 0 then Some
          {| st_script := st_script s; st_prm := st_prm s; st_pos := LNew (resize (max_payload q) (p_buf p));
             st_lbuf := st_lbuf s; st_tbuf := st_tbuf s; st_pbo := st_pbo s; st_pending := st_pending s;
             st_pq := st_pq s; st_cp := st_cp s; st_bq := bq'; st_cb := st_cb s; st_rx := st_rx s;
             st_cancel := st_cancel s; st_ctl := st_ctl s; st_zombies := st_zombies s; st_g := st_g s |}
        else None
      | [] => if r =? 1 then Some (set_pos s (LNew (zeros (max_payload q)))) else None
      end
    | _ => None
    end
  | LPoolNew =>
    match st_pos s with
    | LNew buf => Some
      {| st_script := st_script s; st_prm := st_prm s; st_pos := LSubmit buf 0; st_lbuf := st_lbuf s;
         st_tbuf := st_tbuf s; st_pbo := st_pbo s; st_pending := st_pending s; st_pq := st_pq s;
         st_cp := st_cp s; st_bq := st_bq s; st_cb := st_cb s; st_rx := st_rx s; st_cancel := st_cancel s;
         st_ctl := st_ctl s; st_zombies := st_zombies s;
         st_g := {| g_consumed := g_consumed (st_g s); g_istart := g_consumed (st_g s); g_cur := g_cur (st_g s); g_att := g_att (st_g s); g_hist := g_hist (st_g s); g_fail := g_fail (st_g s); g_done := g_done (st_g s) |} |}
    | _ => None
    end
  | LSubmitOk len =>
    match st_pos s with
    | LSubmit buf k =>
      match nth_error (slots q) k with
      | Some sz =>
        if (len =? sz) && slice_in q (st_lbuf s) (st_tbuf s) buf k sz then Some
          {| st_script := st_script s; st_prm := st_prm s;
             st_pos := (if (S k =? nslots q)%nat then LPoll buf [] else LSubmit buf (S k));
             st_lbuf := st_lbuf s; st_tbuf := st_tbuf s; st_pbo := st_pbo s;
             st_pending := st_pending s ++ [sz]; st_pq := st_pq s; st_cp := st_cp s; st_bq := st_bq s;
             st_cb := st_cb s; st_rx := st_rx s; st_cancel := st_cancel s; st_ctl := st_ctl s;
             st_zombies := st_zombies s; st_g := st_g s |}
        else None
      | None => None
      end
    | _ => None
    end
  | LSubmitErr code =>
    match st_pos s with
    | LSubmit buf k =>
      match nth_error (slots q) k with
      | Some sz =>
      if slice_in q (st_lbuf s) (st_tbuf s) buf k sz then
        let c := usb_class code in
        (* read_leader: only fatal errors are reported; read_payload / read_trailer: always *)
        if (k =? 0)%nat && negb ((c =? C_IO) || (c =? C_DISCONNECTED))
        then Some (set_pos s (LDrop (Some buf)))
        else Some
          {| st_script := st_script s; st_prm := st_prm s; st_pos := LSend (IErr c) (Some buf);
             st_lbuf := st_lbuf s; st_tbuf := st_tbuf s; st_pbo := st_pbo s; st_pending := st_pending s;
             st_pq := st_pq s; st_cp := st_cp s; st_bq := st_bq s; st_cb := st_cb s; st_rx := st_rx s;
             st_cancel := st_cancel s; st_ctl := st_ctl s; st_zombies := st_zombies s;
             st_g := {| g_consumed := g_consumed (st_g s); g_istart := g_istart (st_g s); g_cur := None; g_att := g_att (st_g s); g_hist := g_hist (st_g s); g_fail := g_fail (st_g s); g_done := g_done (st_g s) |} |}
      else None
      | None => None
      end
    | _ => None
    end
  | LPollData len =>
    match st_pos s with
    | LPoll buf ds =>
      match st_script s, nth_error (slots q) (length ds), st_pending s with
      | XData d :: rest, Some sz, _ :: pend' =>
        if (len =? zlen d) && (zlen d <=? sz) then
          let ds' := ds ++ [d] in
          if (length ds' =? nslots q)%nat then
            match finish fixed q (st_lbuf s) (st_tbuf s) buf ds' with
            | None => Some (set_pos (consume s rest) LPanic)
            | Some f => Some
              {| st_script := rest; st_prm := st_prm s; st_pos := LSend (f_item f) (f_keep f);
                 st_lbuf := f_lbuf f; st_tbuf := f_tbuf f; st_pbo := st_pbo s; st_pending := pend';
                 st_pq := st_pq s; st_cp := st_cp s; st_bq := st_bq s; st_cb := st_cb s; st_rx := st_rx s;
                 st_cancel := st_cancel s; st_ctl := st_ctl s; st_zombies := st_zombies s;
                 st_g := {| g_consumed := S (g_consumed (st_g s)); g_istart := g_istart (st_g s); g_cur := Some ds'; g_att := g_att (st_g s); g_hist := g_hist (st_g s); g_fail := g_fail (st_g s); g_done := g_done (st_g s) ++ [(q, g_istart (st_g s), ds')] |} |}
            end
          else Some
            {| st_script := rest; st_prm := st_prm s; st_pos := LPoll buf ds'; st_lbuf := st_lbuf s;
               st_tbuf := st_tbuf s; st_pbo := st_pbo s; st_pending := pend'; st_pq := st_pq s;
               st_cp := st_cp s; st_bq := st_bq s; st_cb := st_cb s; st_rx := st_rx s;
               st_cancel := st_cancel s; st_ctl := st_ctl s; st_zombies := st_zombies s;
               st_g := {| g_consumed := S (g_consumed (st_g s)); g_istart := g_istart (st_g s); g_cur := g_cur (st_g s); g_att := g_att (st_g s); g_hist := g_hist (st_g s); g_fail := g_fail (st_g s); g_done := g_done (st_g s) |} |}
        else None
      | _, _, _ => None
      end
    | _ => None
    end
  | LPollErr code =>
    match st_pos s with
    | LPoll buf ds =>
      match st_script s, nth_error (slots q) (length ds), st_pending s with
      | XErr c :: rest, Some _, _ :: pend' =>
        if code =? c then Some (abandon (consume s rest) ds pend' (usb_class code)) else None
      | XData d :: rest, Some sz, _ :: pend' =>
        (* more data than the transfer can take: LIBUSB_TRANSFER_OVERFLOW *)
        if (code =? 7) && (sz <? zlen d) then Some (abandon (consume s rest) ds pend' (usb_class code)) else None
      | _, _, _ => None
      end
    | _ => None
    end
  | LPollTimeout =>
    match st_pos s with
    | LPoll buf ds =>
      match nth_error (slots q) (length ds) with
      | Some _ =>
        match st_script s with
        | XTimeout :: rest => Some (abandon (consume s rest) ds (st_pending s) C_TIMEOUT)
        | [] => Some (abandon s ds (st_pending s) C_TIMEOUT)
        | _ => None
        end
      | None => None
      end
    | _ => None
    end
  | LTrySend r =>
    match st_pos s with
    | LSend it keep =>
      let e := {| a_prm := q; a_start := g_istart (st_g s); a_ds := g_cur (st_g s); a_item := it |} in
      if st_rx s then
        if zlen (st_pq s) <? st_cp s then
          if r =? 0 then Some
            {| st_script := st_script s; st_prm := st_prm s; st_pos := LDrop keep; st_lbuf := st_lbuf s;
               st_tbuf := st_tbuf s; st_pbo := st_pbo s; st_pending := st_pending s;
               st_pq := st_pq s ++ [it]; st_cp := st_cp s; st_bq := st_bq s; st_cb := st_cb s;
               st_rx := st_rx s; st_cancel := st_cancel s; st_ctl := st_ctl s; st_zombies := st_zombies s;
               st_g := {| g_consumed := g_consumed (st_g s); g_istart := g_istart (st_g s); g_cur := g_cur (st_g s); g_att := g_att (st_g s) ++ [e]; g_hist := g_hist (st_g s) ++ [e]; g_fail := g_fail (st_g s); g_done := g_done (st_g s) |} |}
          else None
        else
          if r =? 1 then Some
            {| st_script := st_script s; st_prm := st_prm s; st_pos := LDrop keep; st_lbuf := st_lbuf s;
               st_tbuf := st_tbuf s; st_pbo := st_pbo s; st_pending := st_pending s; st_pq := st_pq s;
               st_cp := st_cp s; st_bq := st_bq s; st_cb := st_cb s; st_rx := st_rx s;
               st_cancel := st_cancel s; st_ctl := st_ctl s; st_zombies := st_zombies s;
               st_g := {| g_consumed := g_consumed (st_g s); g_istart := g_istart (st_g s); g_cur := g_cur (st_g s); g_att := g_att (st_g s) ++ [e]; g_hist := g_hist (st_g s); g_fail := S (g_fail (st_g s)); g_done := g_done (st_g s) |} |}
          else None
      else
        if r =? 2 then Some
          {| st_script := st_script s; st_prm := st_prm s; st_pos := LDrop keep; st_lbuf := st_lbuf s;
             st_tbuf := st_tbuf s; st_pbo := st_pbo s; st_pending := st_pending s; st_pq := st_pq s;
             st_cp := st_cp s; st_bq := st_bq s; st_cb := st_cb s; st_rx := st_rx s;
             st_cancel := st_cancel s; st_ctl := st_ctl s; st_zombies := st_zombies s;
             st_g := {| g_consumed := g_consumed (st_g s); g_istart := g_istart (st_g s); g_cur := g_cur (st_g s); g_att := g_att (st_g s) ++ [e]; g_hist := g_hist (st_g s); g_fail := S (g_fail (st_g s)); g_done := g_done (st_g s) |} |}
        else None
    | _ => None
    end
  | LPoolDrop n =>
    match st_pos s with
    | LDrop keep =>
      if n =? zlen (st_pending s) then Some
        {| st_script := st_script s; st_prm := st_prm s; st_pos := LHead; st_lbuf := st_lbuf s;
           st_tbuf := st_tbuf s; st_pbo := keep; st_pending := []; st_pq := st_pq s; st_cp := st_cp s;
           st_bq := st_bq s; st_cb := st_cb s; st_rx := st_rx s; st_cancel := st_cancel s;
           st_ctl := st_ctl s; st_zombies := st_zombies s; st_g := st_g s |}
      else None
    | _ => None
    end
  | LSenderDrop =>
    match st_zombies s with
    | S z => Some
      {| st_script := st_script s; st_prm := st_prm s; st_pos := st_pos s; st_lbuf := st_lbuf s;
         st_tbuf := st_tbuf s; st_pbo := st_pbo s; st_pending := st_pending s; st_pq := st_pq s;
         st_cp := st_cp s; st_bq := st_bq s; st_cb := st_cb s; st_rx := st_rx s; st_cancel := st_cancel s;
         st_ctl := st_ctl s; st_zombies := z; st_g := st_g s |}
    | O => None
    end
  (* ---- the receiver ---- *)
  | RRecv r =>
    if st_rx s then
      match st_pq s with
      | it :: pq' =>
        if r =? 0 then Some
          {| st_script := st_script s; st_prm := st_prm s; st_pos := st_pos s; st_lbuf := st_lbuf s;
             st_tbuf := st_tbuf s; st_pbo := st_pbo s; st_pending := st_pending s; st_pq := pq';
             st_cp := st_cp s; st_bq := st_bq s; st_cb := st_cb s; st_rx := st_rx s;
             st_cancel := st_cancel s; st_ctl := st_ctl s; st_zombies := st_zombies s; st_g := st_g s |}
        else None
      | [] => if r =? 1 then Some s else None
      end
    else None
  | RSendBack p r =>
    if st_rx s && forallb is_byteb (p_buf p) then
      if zlen (st_bq s) <? st_cb s then
        if r =? 0 then Some
          {| st_script := st_script s; st_prm := st_prm s; st_pos := st_pos s; st_lbuf := st_lbuf s;
             st_tbuf := st_tbuf s; st_pbo := st_pbo s; st_pending := st_pending s; st_pq := st_pq s;
             st_cp := st_cp s; st_bq := st_bq s ++ [p]; st_cb := st_cb s; st_rx := st_rx s;
             st_cancel := st_cancel s; st_ctl := st_ctl s; st_zombies := st_zombies s; st_g := st_g s |}
        else None
      else if r =? 1 then Some s else None
    else None
  | RDrop =>
    if st_rx s then Some
      {| st_script := st_script s; st_prm := st_prm s; st_pos := st_pos s; st_lbuf := st_lbuf s;
         st_tbuf := st_tbuf s; st_pbo := st_pbo s; st_pending := st_pending s; st_pq := st_pq s;
         st_cp := st_cp s; st_bq := st_bq s; st_cb := st_cb s; st_rx := false; st_cancel := st_cancel s;
         st_ctl := st_ctl s; st_zombies := st_zombies s; st_g := st_g s |}
    else None
  (* ---- the controller ---- *)
  | KStart q' =>
    match st_pos s, st_ctl s with
    | LIdle, KIdle =>
      if prm_ok q' then
        (* a new thread: fresh leader / trailer buffers, payload_buf_opt = None, a fresh
           cancellation channel *)
        Some
          {| st_script := st_script s; st_prm := q'; st_pos := LHead; st_lbuf := zeros (q_leader q');
             st_tbuf := zeros (q_trailer q'); st_pbo := None; st_pending := st_pending s; st_pq := st_pq s;
             st_cp := st_cp s; st_bq := st_bq s; st_cb := st_cb s; st_rx := st_rx s; st_cancel := CNone;
             st_ctl := KRunning; st_zombies := st_zombies s;
             st_g := {| g_consumed := g_consumed (st_g s); g_istart := g_consumed (st_g s); g_cur := g_cur (st_g s); g_att := g_att (st_g s); g_hist := g_hist (st_g s); g_fail := g_fail (st_g s); g_done := g_done (st_g s) |} |}
      else None
    | _, _ => None
    end
  | KStartBusy => match st_ctl s with KRunning => Some s | _ => None end
  | KStopCall =>
    match st_ctl s with
    | KRunning => Some
      {| st_script := st_script s; st_prm := st_prm s; st_pos := st_pos s; st_lbuf := st_lbuf s;
         st_tbuf := st_tbuf s; st_pbo := st_pbo s; st_pending := st_pending s; st_pq := st_pq s;
         st_cp := st_cp s; st_bq := st_bq s; st_cb := st_cb s; st_rx := st_rx s; st_cancel := st_cancel s;
         st_ctl := KStopping; st_zombies := st_zombies s; st_g := st_g s |}
    | _ => None
    end
  | KRegister =>
    match st_ctl s, st_cancel s with
    | KStopping, CNone => Some
      {| st_script := st_script s; st_prm := st_prm s; st_pos := st_pos s; st_lbuf := st_lbuf s;
         st_tbuf := st_tbuf s; st_pbo := st_pbo s; st_pending := st_pending s; st_pq := st_pq s;
         st_cp := st_cp s; st_bq := st_bq s; st_cb := st_cb s; st_rx := st_rx s; st_cancel := CWaiting;
         st_ctl := st_ctl s; st_zombies := st_zombies s; st_g := st_g s |}
    | _, _ => None
    end
  | KStopRet =>
    match st_ctl s, st_cancel s with
    | KStopping, CTaken => Some
      {| st_script := st_script s; st_prm := st_prm s; st_pos := st_pos s; st_lbuf := st_lbuf s;
         st_tbuf := st_tbuf s; st_pbo := st_pbo s; st_pending := st_pending s; st_pq := st_pq s;
         st_cp := st_cp s; st_bq := st_bq s; st_cb := st_cb s; st_rx := st_rx s; st_cancel := CNone;
         st_ctl := KIdle; st_zombies := st_zombies s; st_g := st_g s |}
    | _, _ => None
    end
  | KDropTx =>
    match st_ctl s with
    | KRunning => Some
      {| st_script := st_script s; st_prm := st_prm s; st_pos := st_pos s; st_lbuf := st_lbuf s;
         st_tbuf := st_tbuf s; st_pbo := st_pbo s; st_pending := st_pending s; st_pq := st_pq s;
         st_cp := st_cp s; st_bq := st_bq s; st_cb := st_cb s; st_rx := st_rx s; st_cancel := CDisc;
         st_ctl := KIdle; st_zombies := st_zombies s; st_g := st_g s |}
    | _ => None
    end
  end.

Fixpoint run (fixed : bool) (s : state) (ls : list label) : option state :=
  match ls with
  | [] => Some s
  | l :: r => match step fixed s l with Some s' => run fixed s' r | None => None end
  end.

(* ---- what the receiver can see of an item (the harness prints exactly this) ------------------- *)

Definition hash_bytes (bs : list Z) : Z := fold_left (fun h b => (h * 31 + b) mod 4294967296) bs 0.

Definition describe (it : item) : list Z :=
  match it with
  | IErr c => [1; c]
  | IOk p =>
    let pv := view_payload p in
    [0; p_id p; p_type p; match pv with Ok l => zlen l | _ => -1 end; p_timestamp p] ++
    match p_info p with
    | Some ii => [1; ii_width ii; ii_height ii; ii_xoff ii; ii_yoff ii;
                  match code_of_pf (ii_pf ii) with Some c => c | None => -1 end; ii_image_size ii]
    | None => [0; 0; 0; 0; 0; 0; 0]
    end ++
    match pv with Ok l => [0; zlen l; hash_bytes l] | _ => [2; 0; 0] end ++
    match view_image p with
    | Ok None => [0; 0; 0]
    | Ok (Some l) => [1; zlen l; hash_bytes l]
    | _ => [2; 0; 0]
    end
  end.

(* ---- replay of a recorded trace ------------------------------------------------------------------ *)

(* send_back names the payload by its position among the items the receiver got *)
Inductive tlabel := TL (l : label) | TSendBack (k : nat) (r : Z).

Fixpoint replay_go (fixed : bool) (s : state) (ts : list tlabel) (rcvd : list item) (i : Z)
  : Z * state * list item :=
  match ts with
  | [] => (-1, s, rcvd)
  | t :: r =>
    let l := match t with
             | TL l => Some l
             | TSendBack k res => match nth_error rcvd k with Some (IOk p) => Some (RSendBack p res) | _ => None end
             end in
    match l with
    | None => (i, s, rcvd)
    | Some l =>
      match step fixed s l with
      | None => (i, s, rcvd)
      | Some s' =>
        let rcvd' := match l, st_pq s with RRecv 0, it :: _ => rcvd ++ [it] | _, _ => rcvd end in
        replay_go fixed s' r rcvd' (i + 1)
      end
    end
  end.

(* -> index of the first label the model does not accept (-1: all accepted), the items the
   receiver got, in order, as the harness prints them, the remaining script length, the number of
   transfers in flight, and whether a loop is still running *)
Definition replay (fixed : bool) (script : list xfer) (cp cb : Z) (ts : list tlabel) : list Z :=
  let '(i, s, rcvd) := replay_go fixed (init script cp cb) ts [] 0 in
  i :: zlen rcvd :: flat_map describe rcvd ++
  [zlen (st_script s); zlen (st_pending s);
   match st_pos s with LIdle => 0 | LPanic => 2 | _ => 1 end;
   zlen (g_hist (st_g s)); Z.of_nat (g_fail (st_g s))].
