(* Model of StreamHandle::{start_streaming_loop, stop_streaming_loop} of cameleon/src/u3v/stream_handle.rs
   as far as the stream parameters are concerned (C15): the handle keeps the parameters it read back
   with StreamParams::from_control at the last start and hands a copy to the receive loop; and the
   driver of the `c15h` cases of rust/h_u3v (histories of open / enable / start / stop / disable /
   reconfigure on one ControlHandle + StreamHandle pair). *)
From Cam Require Export Control ControlRun.

(* StreamError classes of rust/h_u3v (serr_class) *)
Definition SE_IO : Z := 5.
Definition SE_IN_STREAMING : Z := 9.

(* StreamHandle: params (leader, trailer, size, count, final1, final2) and cancellation_tx.is_some() *)
Record shandle := { sh_params : list Z; sh_running : bool }.
Definition sh_init : shandle := {| sh_params := [0; 0; 0; 0; 0; 0]; sh_running := false |}.

Definition hst := (st * shandle)%type.

(* start_streaming_loop: self.params = StreamParams::from_control(ctrl) (an error becomes StreamError::Io
   and leaves the handle as it was); then InStreaming when the loop is running; otherwise the loop is
   spawned with a clone of self.params *)
Definition strm_start (x : hst) : outcome unit * hst :=
  let '(s, h) := x in
  match stream_params s with
  | (Ok p, s') =>
    if sh_running h then (Err SE_IN_STREAMING, (s', {| sh_params := p; sh_running := true |}))
    else (Ok tt, (s', {| sh_params := p; sh_running := true |}))
  | (Err _, s') => (Err SE_IO, (s', h))
  | (Panic, s') => (Panic, (s', h))
  end.

Definition strm_stop (x : hst) : outcome unit * hst :=
  (Ok tt, (fst x, {| sh_params := sh_params (snd x); sh_running := false |})).

(* the bulk-in transfers the loop submits in one iteration with parameters p:
   leader, count x size, final1 and final2 when not 0, trailer *)
Definition loop_submits (p : list Z) : list Z :=
  match p with
  | [leader; trailer; size; count; f1; f2] =>
    [leader] ++ repeat size (Z.to_nat count) ++ (if f1 =? 0 then [] else [f1]) ++ (if f2 =? 0 then [] else [f2]) ++ [trailer]
  | _ => []
  end.

(* the device memory changes behind the host's back (the camera is reconfigured) *)
Definition w_set_segs (w : world) (segs : list (Z * list Z)) : world :=
  {| w_segs := segs; w_plans := w_plans w; w_replies := w_replies w; w_cur_ack := w_cur_ack w;
     w_cur_rid := w_cur_rid w; w_log := w_log w; w_open_err := w_open_err w; w_writes := w_writes w |}.
Definition w_poke (w : world) (a : Z) (data : list Z) : world :=
  match seg_write (w_segs w) a data with Some segs => w_set_segs w segs | None => w end.

Definition lift_ctl {A} (m : M A) (x : hst) : outcome A * hst :=
  let '(r, s') := m (fst x) in (r, (s', snd x)).

(* ---- driver ---------------------------------------------------------------------------------------- *)

Definition reg32 (w : world) (a : Z) : Z :=
  match seg_read (w_segs w) a 4 with Some d => of_le d | None => -1 end.

Definition sum_list (l : list Z) : Z := fold_left Z.add l 0.

Definition show_start (sirm : Z) (x : hst) : list Z :=
  let p := sh_params (snd x) in
  let w := snd (fst x) in
  let subs := loop_submits p in
  lpz (0 :: p ++ map (fun off => reg32 w (wrapu 64 (sirm + off))) [24; 44; 28; 32; 36; 40] ++
       [zlen subs; hd 0 subs; last subs 0; sum_list (removelast (tl subs))]).

Fixpoint run_hops (fuel : nat) (l : list Z) (x : hst) : list Z * hst :=
  match fuel with
  | O => ([], x)
  | S f =>
    let step {A} (r : outcome A * hst) (sh : outcome A -> hst -> list Z) (rest : list Z) :=
      let '(o, x') := r in
      if is_panic_out o then (sh o x', x')
      else let '(os, x'') := run_hops f rest x' in (sh o x' ++ os, x'') in
    match l with
    | 10 :: r => step (lift_ctl ctl_open x) (fun o _ => sh_unit o) r
    | 13 :: r => step (lift_ctl ctl_enable_streaming x) (fun o _ => sh_unit o) r
    | 14 :: r => step (lift_ctl ctl_disable_streaming x) (fun o _ => sh_unit o) r
    | 21 :: sirm :: r =>
      step (strm_start x) (fun o x' => match o with Ok _ => show_start sirm x' | _ => sh_unit o end) r
    | 22 :: r => step (strm_stop x) (fun o _ => sh_unit o) r
    | 23 :: a :: width :: v :: r =>
      step (Ok tt, ((fst (fst x), w_poke (snd (fst x)) a (le_bytes (Z.to_nat width) v)), snd x))
           (fun o _ => sh_unit o) r
    | 20 :: a :: n :: r =>
      step (match seg_read (w_segs (snd (fst x))) a n with Some d => Ok d | None => Err 99 end, x)
           (fun o _ => sh_data o) r
    | _ => ([], x)
    end
  end.

Definition run_c15h (toks : list Z) : list Z :=
  let '(w, ops) := parse_world (length toks) toks world_init in
  let '(o, x) := run_hops (length ops) ops ((ctl_init, w), sh_init) in
  o ++ show_world (snd (fst x)).
