(* Model of DeviceControl::genapi for u3v::ControlHandle (cameleon/src/u3v/control_handle.rs,
   after "fix: report a corrupt zipped GenApi XML as an error instead of panicking"), together
   with the pieces of cameleon/src/u3v/register_map.rs it uses: ControlHandle::manifest_table
   (cached ManifestTable), ManifestTable::entries, ManifestEntry::{file_info,
   genicam_file_version, file_address, file_size, sha1_hash}, GenICamFileInfo::{file_type,
   compression_type}, ControlHandle::{buffer_capacity, resize_buffer, verify_xml} and
   String::from_utf8_lossy.

   Every device access is DeviceControl::read of model/Control.v ([ctl_read]) against the
   scripted device.  Two pieces of handle state that Control.v does not carry are kept here
   ([xctl]): the cached manifest-table address and the *capacity* of the packet buffer
   (Control.v's [c_buflen] is its length; genapi saves the capacity and restores the length
   to it).  SHA-1 and the zip reader are oracles ([sha1], [unzip]): Section variables, every
   theorem is parametric in them; the correspondence supplies their values per case as lookup
   tables computed by Python's hashlib / zipfile.  Allocation failure is not modelled, except
   the deterministic "capacity overflow" panic of vec![0; n] for n > isize::MAX. *)
From Cam Require Export Control ControlRun.

(* ---- String::from_utf8_lossy (core::str::lossy::Utf8Chunks): every maximal invalid prefix
   of an ill-formed sequence becomes one U+FFFD ------------------------------------------ *)
Definition in_r (lo hi b : Z) : bool := (lo <=? b) && (b <=? hi).
Definition is_cont (b : Z) : bool := in_r 128 191 b.            (* b & 192 == 128 *)
Definition REPL : list Z := [239; 191; 189].
Definition ok3 (b c : Z) : bool :=
  ((b =? 224) && in_r 160 191 c) || (in_r 225 236 b && in_r 128 191 c) ||
  ((b =? 237) && in_r 128 159 c) || (in_r 238 239 b && in_r 128 191 c).
Definition ok4 (b c : Z) : bool :=
  ((b =? 240) && in_r 144 191 c) || (in_r 241 243 b && in_r 128 191 c) ||
  ((b =? 244) && in_r 128 143 c).

Fixpoint lossy (bs : list Z) : list Z :=
  match bs with
  | [] => []
  | b :: r =>
    if b <? 128 then b :: lossy r
    else if in_r 194 223 b then
      match r with
      | c1 :: r1 => if is_cont c1 then b :: c1 :: lossy r1 else REPL ++ lossy r
      | [] => REPL
      end
    else if in_r 224 239 b then
      match r with
      | c1 :: r1 =>
        if ok3 b c1 then
          match r1 with
          | c2 :: r2 => if is_cont c2 then b :: c1 :: c2 :: lossy r2 else REPL ++ lossy r1
          | [] => REPL
          end
        else REPL ++ lossy r
      | [] => REPL
      end
    else if in_r 240 244 b then
      match r with
      | c1 :: r1 =>
        if ok4 b c1 then
          match r1 with
          | c2 :: r2 =>
            if is_cont c2 then
              match r2 with
              | c3 :: r3 => if is_cont c3 then b :: c1 :: c2 :: c3 :: lossy r3 else REPL ++ lossy r2
              | [] => REPL
              end
            else REPL ++ lossy r1
          | [] => REPL
          end
        else REPL ++ lossy r
      | [] => REPL
      end
    else REPL ++ lossy r
  end.

(* ---- handle state beyond Control.v's [ctl] ----------------------------------------------- *)
Record xctl := { x_mt : option Z;      (* ControlHandle::manifest_table (cache) *)
                 x_cap : Z }.          (* self.buffer.capacity() *)
Definition xctl_init : xctl := {| x_mt := None; x_cap := 0 |}.

Definition xst := (xctl * st)%type.
Definition X (A : Type) := xst -> outcome A * xst.

Definition xret {A} (a : A) : X A := fun s => (Ok a, s).
Definition xfail {A} (e : Z) : X A := fun s => (Err e, s).
Definition xpanic {A} : X A := fun s => (Panic, s).
Definition xbind {A B} (m : X A) (f : A -> X B) : X B :=
  fun s => match m s with
           | (Ok a, s') => f a s'
           | (Err e, s') => (Err e, s')
           | (Panic, s') => (Panic, s')
           end.
Notation "'dox' x '<-' m ';' k" := (xbind m (fun x => k))
  (at level 200, x pattern, m at level 100, k at level 200, right associativity).

(* Vec::resize(new_len) on a Vec<u8> of length [len0] and capacity [cap] (RawVec::grow_amortized:
   max(2*cap, required, 8)); nothing happens unless the length grows. *)
Definition grow_cap (cap len0 len1 : Z) : Z :=
  if len0 <? len1 then (if cap <? len1 then Z.max (Z.max (2 * cap) len1) 8 else cap) else cap.

(* An operation of Control.v: the packet buffer is resized at most once per DeviceControl::read /
   write / open (send_cmd grows it to max(cmd_len, ack_len); the first chunk of a transfer is the
   largest), so the capacity after the operation follows from the lengths before and after. *)
Definition liftM {A} (m : M A) : X A :=
  fun xs => let '(x, s) := xs in
            let '(r, s') := m s in
            (r, ({| x_mt := x_mt x; x_cap := grow_cap (x_cap x) (c_buflen (fst s)) (c_buflen (fst s')) |}, s')).

Definition x_read (a n : Z) : X (list Z) := liftM (ctl_read a n).
Definition x_reg (a n : Z) : X Z := liftM (read_reg a n).       (* read_register::<u32 / u64> *)
Definition x_addr (base off : Z) : X Z := liftM (reg_addr base off).   (* register_address *)

Definition get_x : X xctl := fun s => (Ok (fst s), s).
Definition set_mt (a : Z) : X unit :=
  fun s => (Ok tt, ({| x_mt := Some a; x_cap := x_cap (fst s) |}, snd s)).

(* ControlHandle::resize_buffer(size): buffer.resize(size, 0); buffer.shrink_to_fit() *)
Definition resize_buffer (size : Z) : X unit :=
  fun s => let '(x, (c, w)) := s in
           (Ok tt, ({| x_mt := x_mt x; x_cap := size |}, (c_set_buflen c size, w))).

(* ControlHandle::manifest_table: self.abrm()? (cached by open), ABRM 0x1D0, cached *)
Definition manifest_table : X Z :=
  dox x <- get_x;
  match x_mt x with
  | Some a => xret a
  | None =>
    dox _ <- liftM h_abrm;
    dox a <- x_reg 464 8;
    dox _ <- set_mt a;
    xret a
  end.

(* ManifestTable::entries: entry count, address of the first entry, up-front validation that the
   last entry starts inside the address space.  Returns (first_entry_addr, entry_num). *)
Definition entries (table : Z) : X (Z * Z) :=
  dox a0 <- x_addr table 0;
  dox n <- x_reg a0 8;
  dox first <- x_addr table 8;
  if n =? 0 then xret (first, 0)
  else if first + (n - 1) * 64 <? 2 ^ 64 then xret (first, n)
  else xfail CE_INVALID_DEVICE.

(* semver::Version::new(major, minor, subminor) of ManifestEntry::genicam_file_version *)
Definition version_of (v : Z) : Z * Z * Z := ((v / 2 ^ 24) mod 256, (v / 2 ^ 16) mod 256, v mod 2 ^ 16).
(* Ord for semver::Version without pre-release / build parts *)
Definition ver_le (a b : Z * Z * Z) : bool :=
  let '(a1, a2, a3) := a in let '(b1, b2, b3) := b in
  (a1 <? b1) || ((a1 =? b1) && ((a2 <? b2) || ((a2 =? b2) && (a3 <=? b3)))).

(* GenICamFileInfo::file_type (bits 0..2), compression_type (bits 10..15) *)
Definition file_type (info : Z) : Z := info mod 8.
Definition compression_type (info : Z) : Z := (info / 2 ^ 10) mod 64.

(* candidate kept by the loop: (entry address, version, file info) *)
Definition cand := (Z * (Z * Z * Z) * Z)%type.

(* body of `for ent in table.entries(self)` *)
Definition scan_entry (ent : Z) (newest : option cand) : X (option cand) :=
  dox ia <- x_addr ent 4;
  dox info <- x_reg ia 4;
  if file_type info =? 0 then
    dox va <- x_addr ent 0;
    dox v <- x_reg va 4;
    let ver := version_of v in
    match newest with
    | Some (_, cur, _) => if ver_le ver cur then xret newest else xret (Some (ent, ver, info))
    | None => xret (Some (ent, ver, info))
    end
  else if file_type info =? 1 then xret newest
  else xfail CE_INVALID_DEVICE.

(* (0..entry_num).map(|i| ManifestEntry::new(first_entry_addr + i * 64)); debug build: the
   unchecked arithmetic panics on overflow (excluded by the validation in [entries]) *)
Fixpoint scan (k : nat) (first i : Z) (newest : option cand) : X (option cand) :=
  match k with
  | O => xret newest
  | S k' =>
    if first + i * 64 <? 2 ^ 64 then
      dox nw <- scan_entry (first + i * 64) newest;
      scan k' first (i + 1) nw
    else xpanic
  end.

Definition zeqb_list (a b : list Z) : bool :=
  (length a =? length b)%nat && forallb (fun p => fst p =? snd p) (combine a b).

Section Fetch.
Variable sha1 : list Z -> list Z.
(* zip::ZipArchive::new + by_index + read_to_end: None = the archive cannot be opened;
   Some files = the archive directory lists these files, a file that cannot be read
   (bad local header, unsupported method, inflate error, CRC mismatch) is None *)
Variable unzip : list Z -> option (list (option (list Z))).

(* ControlHandle::verify_xml with ManifestEntry::sha1_hash *)
Definition verify_xml (xml : list Z) (ent : Z) : X unit :=
  dox ha <- x_addr ent 24;
  dox h <- x_read ha 20;
  if forallb (fun b => b =? 0) h then xret tt
  else if zeqb_list (sha1 xml) h then xret tt
  else xfail CE_INVALID_DEVICE.

Definition decode (comp : Z) (buf : list Z) : X (list Z) :=
  if comp =? 1 then
    match unzip buf with
    | None => xfail CE_INVALID_DEVICE                      (* ZipArchive::new(..).map_err(zip_err) *)
    | Some files =>
      match files with
      | [f] =>
        match f with
        | Some xml => xret (lossy xml)
        | None => xfail CE_INVALID_DEVICE                  (* by_index / read_to_end .map_err(zip_err) *)
        end
      | _ => xfail CE_INVALID_DEVICE                       (* zip.len() != 1 *)
      end
    end
  else xret (lossy buf).

(* the part of genapi after the selection *)
Definition fetch (sel : cand) : X (list Z) :=
  let '(ent, _, info) := sel in
  dox aa <- x_addr ent 8;
  dox file_address <- x_reg aa 8;
  dox sa <- x_addr ent 16;
  dox file_size <- x_reg sa 8;                             (* u64 -> usize: lossless on 64 bit *)
  let comp := compression_type info in
  if negb ((comp =? 0) || (comp =? 1)) then xfail CE_INVALID_DEVICE else
  dox x <- get_x;
  let current_capacity := x_cap x in
  if 2 ^ 63 <=? file_size then xpanic else                 (* vec![0; n]: capacity overflow *)
  dox buf <- x_read file_address file_size;
  dox _ <- resize_buffer current_capacity;
  dox _ <- verify_xml buf ent;
  decode comp buf.

Definition genapi : X (list Z) :=
  dox table <- manifest_table;
  dox fe <- entries table;
  dox newest <- scan (Z.to_nat (snd fe)) (fst fe) 0 None;
  match newest with
  | None => xfail CE_INVALID_DEVICE
  | Some sel => fetch sel
  end.

(* The code before the repair: ZipArchive::new(..).unwrap() *)
Definition decode_v0 (comp : Z) (buf : list Z) : X (list Z) :=
  if comp =? 1 then
    match unzip buf with
    | None => xpanic
    | Some _ => decode comp buf
    end
  else decode comp buf.

Definition fetch_v0 (sel : cand) : X (list Z) :=
  let '(ent, _, info) := sel in
  dox aa <- x_addr ent 8;
  dox file_address <- x_reg aa 8;
  dox sa <- x_addr ent 16;
  dox file_size <- x_reg sa 8;
  let comp := compression_type info in
  if negb ((comp =? 0) || (comp =? 1)) then xfail CE_INVALID_DEVICE else
  dox x <- get_x;
  let current_capacity := x_cap x in
  if 2 ^ 63 <=? file_size then xpanic else
  dox buf <- x_read file_address file_size;
  dox _ <- resize_buffer current_capacity;
  dox _ <- verify_xml buf ent;
  decode_v0 comp buf.

Definition genapi_v0 : X (list Z) :=
  dox table <- manifest_table;
  dox fe <- entries table;
  dox newest <- scan (Z.to_nat (snd fe)) (fst fe) 0 None;
  match newest with
  | None => xfail CE_INVALID_DEVICE
  | Some sel => fetch_v0 sel
  end.

(* ---- driver for the correspondence (same token stream as rust/h_u3v `ctl` cases) --------- *)
Fixpoint run_xops (fuel : nat) (l : list Z) (s : xst) : list Z * xst :=
  match fuel with
  | O => ([], s)
  | S f =>
    let step {A} (m : X A) (sh : outcome A -> list Z) (rest : list Z) :=
      let '(x, s') := m s in
      if is_panic_out x then (sh x, s')
      else let '(o, s'') := run_xops f rest s' in (sh x ++ o, s'') in
    match l with
    | 10 :: r => step (liftM ctl_open) sh_unit r
    | 11 :: a :: n :: r => step (x_read a n) sh_data r
    | 12 :: a :: r => let '(b, r1) := take_bytes r in step (liftM (ctl_write a b)) sh_unit r1
    | 15 :: r => step genapi sh_data r
    | 16 :: r => step (liftM ctl_close) sh_unit r
    | 17 :: n :: r => step (liftM (set_retry n)) sh_unit r
    | _ => ([], s)
    end
  end.

Definition run_fetch_with (toks : list Z) : list Z :=
  let '(w, ops) := parse_world (length toks) toks world_init in
  let '(o, s) := run_xops (length ops) ops (xctl_init, (ctl_init, w)) in
  o ++ show_world (snd (snd s)).

End Fetch.

(* oracle tables of a case: keyed by (length, ControlRun.hash) of the argument *)
Fixpoint lookup {A} (k : Z * Z) (tab : list ((Z * Z) * A)) : option A :=
  match tab with
  | [] => None
  | ((k1, k2), v) :: r => if (k1 =? fst k) && (k2 =? snd k) then Some v else lookup k r
  end.

Definition sha1_of (tab : list ((Z * Z) * list Z)) (bs : list Z) : list Z :=
  match lookup (zlen bs, hash bs) tab with Some h => h | None => [] end.
Definition unzip_of (tab : list ((Z * Z) * option (list (option (list Z))))) (bs : list Z)
  : option (list (option (list Z))) :=
  match lookup (zlen bs, hash bs) tab with Some r => r | None => None end.

Definition run_fetch (stab : list ((Z * Z) * list Z))
           (utab : list ((Z * Z) * option (list (option (list Z))))) (toks : list Z) : list Z :=
  run_fetch_with (sha1_of stab) (unzip_of utab) toks.
