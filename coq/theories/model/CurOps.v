(* Meaning of the cursor operations that tools/translate_ackparse.py emits for the decoders of
   device/src/u3v/protocol/{ack,event}.rs (gen/AckParseSrc.v).  No proofs here.

   A `std::io::Cursor<&[u8]>` is the slice it was made from and a position (a u64).

     cur_new buf              Cursor::new(buf): position 0
     cur_buf c / cur_pos c    get_ref() / position()
     cur_read_le n c          `c.read_bytes_le::<T>()` with size_of::<T>() = n.  impl/src/bytes_io.rs (shape pinned by the
                              translator): ReadBytes::read_bytes_le forwards to BytesConvertible::read_bytes_le, which is
                              `let mut tmp = [0; size_of::<T>()]; buf.read_exact(&mut tmp)?; Ok(T::from_le_bytes(tmp))`.
                              Cursor::read_exact reads from the remaining slice `&inner[min(pos, len)..]`: fewer than n bytes
                              left = Err(UnexpectedEof) (an io::Error; u3v::Error::BufferIo after `?`), otherwise the n bytes
                              are taken and pos += n.  (After an error the position is unspecified here; the translator only
                              accepts code that leaves with `?`, so it is never looked at.)
     cur_seek_current off c   `c.seek(SeekFrom::Current(off))`: pos.checked_add_signed(off), InvalidInput (an io::Error) when
                              that is negative or does not fit a u64; the new position may lie behind the end of the slice.
     src_slice buf lo hi      `&buf[lo..hi]` (`&buf[..hi]`: lo = 0, `&buf[lo..]`: hi = buf.len()): panics unless
                              lo <= hi <= buf.len() ([r_slice] of lib/RustInt.v), otherwise the bytes lo .. hi-1.
     r_checked_sub w a b      a.checked_sub(b) on an unsigned type: None when b > a.
     r_trailing_zeros w x     x.trailing_zeros() on a w-bit unsigned type (w for x = 0).
     src_with_capacity n      Vec::with_capacity(n): the empty vector (the capacity is not observable).
     E_FUEL                   what a translated `while` loop returns when its fuel argument runs out; proofs/P_C08s.v shows
                              that the fuel the translator passes is never used up. *)
From Cam Require Export Outcome RustInt Bytes.

Definition cur := (list Z * Z)%type.

Definition cur_new (buf : list Z) : cur := (buf, 0).
Definition cur_buf (c : cur) : list Z := fst c.
Definition cur_pos (c : cur) : Z := snd c.

(* the slice read_exact reads from *)
Definition cur_rem (c : cur) : list Z := drop (Z.min (cur_pos c) (zlen (cur_buf c))) (cur_buf c).

Definition cur_read_le (n : nat) (c : cur) : outcome (Z * cur) :=
  let r := cur_rem c in
  if (length r <? n)%nat then Err E_BUFFER_IO
  else Ok (of_le (firstn n r), (cur_buf c, cur_pos c + Z.of_nat n)).

Definition cur_seek_current (off : Z) (c : cur) : outcome (Z * cur) :=
  let n := cur_pos c + off in
  if (0 <=? n) && (n <? 2 ^ 64) then Ok (n, (cur_buf c, n)) else Err E_BUFFER_IO.

Definition src_slice (buf : list Z) (lo hi : Z) : outcome (list Z) :=
  let? (l, h) := r_slice (zlen buf) lo hi in Ok (take (h - l) (drop l buf)).

Definition r_checked_sub (w a b : Z) : option Z := if a - b <? 0 then None else Some (a - b).

Fixpoint tz_count (fuel : nat) (x : Z) : Z :=
  match fuel with
  | O => 0
  | S f => if Z.odd x then 0 else 1 + tz_count f (x / 2)
  end.
Definition r_trailing_zeros (w x : Z) : Z := tz_count (Z.to_nat w) x.

Definition src_with_capacity {A} (n : Z) : list A := [].

Definition E_FUEL : Z := -1.
