(* Model of device/src/u3v/protocol/cmd.rs: command constructors, CommandPacket
   serialize / cmd_len / maximum_ack_len, over two kinds of output sink
   (growable Vec<u8>, and &mut [u8] with std's short-write semantics), and of
   impl/src/bytes_io.rs WriteBytes (write_bytes_le ignores the byte count
   returned by Write::write). *)
From Cam Require Export Outcome Bytes Chunks.


Definition MAGIC : Z := 0x43563355.
Definition FLAG_REQUEST_ACK : Z := 2 ^ 14.
Definition ID_READ_MEM : Z := 0x0800.
Definition ID_WRITE_MEM : Z := 0x0802.
Definition ID_READ_MEM_STACKED : Z := 0x0806.
Definition ID_WRITE_MEM_STACKED : Z := 0x0808.

Record write_mem := { wm_addr : Z; wm_data : list Z; wm_data_len : Z; wm_len : Z }.

Inductive cmd :=
| CRead (a n : Z)
| CWrite (w : write_mem)
| CReadStacked (es : list (Z * Z)) (len ack : Z)
| CWriteStacked (es : list write_mem) (len ack : Z).

(* ---- constructors ---------------------------------------------------- *)

Definition mk_write_mem (a : Z) (data : list Z) : outcome write_mem :=
  let? dl := into_scd_len (zlen data) in
  let? l := into_scd_len (zlen data + 8) in
  Ok {| wm_addr := a; wm_data := data; wm_data_len := dl; wm_len := l |}.

Definition mk_write (a : Z) (data : list Z) : outcome cmd := omap CWrite (mk_write_mem a data).

(* ReadMemStacked::len : fold of scd_len (= 12) over entries, then into_scd_len *)
Definition read_stacked_len (es : list (Z * Z)) : outcome Z :=
  into_scd_len (fold_left (fun acc _ => acc + 12) es 0).

(* ReadMemStacked::ack_scd_len : u16 checked_add *)
Fixpoint read_stacked_ack (es : list (Z * Z)) (acc : Z) : outcome Z :=
  match es with
  | [] => Ok acc
  | (_, n) :: r => if acc + n <? 2 ^ 16 then read_stacked_ack r (acc + n) else Err E_INVALID_PACKET
  end.

Definition mk_read_stacked (es : list (Z * Z)) : outcome cmd :=
  let? len := read_stacked_len es in
  let? ack := read_stacked_ack es 0 in
  Ok (CReadStacked es len ack).

Definition write_stacked_len (es : list write_mem) : outcome Z :=
  into_scd_len (fold_left (fun acc w => acc + 12 + wm_data_len w) es 0).

(* entries.len() as u16 * 4 : truncating cast, then u16 multiplication (debug: overflow panics) *)
Definition write_stacked_ack (es : list write_mem) : outcome Z :=
  chk_u 16 (wrapu 16 (zlen es) * 4).

Definition mk_write_stacked (raw : list (Z * list Z)) : outcome cmd :=
  let? es := mapM (fun p => mk_write_mem (fst p) (snd p)) raw in
  let? len := write_stacked_len es in
  let? ack := write_stacked_ack es in
  Ok (CWriteStacked es len ack).

(* ---- CommandScd accessors -------------------------------------------- *)

Definition scd_kind_id (c : cmd) : Z :=
  match c with
  | CRead _ _ => ID_READ_MEM
  | CWrite _ => ID_WRITE_MEM
  | CReadStacked _ _ _ => ID_READ_MEM_STACKED
  | CWriteStacked _ _ _ => ID_WRITE_MEM_STACKED
  end.

Definition scd_len (c : cmd) : Z :=
  match c with
  | CRead _ _ => 12
  | CWrite w => wm_len w
  | CReadStacked _ len _ => len
  | CWriteStacked _ len _ => len
  end.

Definition ack_scd_len (c : cmd) : Z :=
  match c with
  | CRead _ n => n
  | CWrite _ => 4
  | CReadStacked _ _ ack => ack
  | CWriteStacked _ _ ack => ack
  end.

Definition cmd_len (c : cmd) : Z := 4 + 8 + scd_len c.
Definition maximum_ack_len (c : cmd) : Z := 12 + Z.max (ack_scd_len c) 4.

(* ---- sinks ------------------------------------------------------------ *)

(* The output is kept newest-first so that a write costs time proportional to
   the bytes written; [s_out] is the byte string in wire order. *)
Record sink := { s_rev : list Z; s_cap : option Z }.
Definition s_out (s : sink) : list Z := rev' (s_rev s).

Definition vec_sink : sink := {| s_rev := []; s_cap := None |}.
Definition slice_sink (cap : Z) : sink := {| s_rev := []; s_cap := Some cap |}.

(* io::Write::write : Vec appends everything; &mut [u8] copies what fits. *)
Definition sink_write (s : sink) (bs : list Z) : sink * Z :=
  match s_cap s with
  | None => ({| s_rev := rev_append bs (s_rev s); s_cap := None |}, zlen bs)
  | Some c =>
    let k := Z.min c (zlen bs) in
    ({| s_rev := rev_append (take k bs) (s_rev s); s_cap := Some (c - k) |}, k)
  end.

(* write_bytes_le : the count returned by write() is not inspected *)
Definition write_le (n : nat) (v : Z) (s : sink) : sink := fst (sink_write s (le_bytes n v)).

(* io::Write::write_all : error (WriteZero) when not everything could be written *)
Definition write_all (bs : list Z) (s : sink) : outcome unit * sink :=
  let '(s', k) := sink_write s bs in
  if k <? zlen bs then (Err E_BUFFER_IO, s') else (Ok tt, s').

Definition ser_read_entry (e : Z * Z) (s : sink) : sink :=
  write_le 2 (snd e) (write_le 2 0 (write_le 8 (fst e) s)).

Fixpoint ser_write_entries (es : list write_mem) (s : sink) : outcome unit * sink :=
  match es with
  | [] => (Ok tt, s)
  | w :: r =>
    let s1 := write_le 2 (wm_data_len w) (write_le 2 0 (write_le 8 (wm_addr w) s)) in
    match write_all (wm_data w) s1 with
    | (Ok _, s2) => ser_write_entries r s2
    | (e, s2) => (e, s2)
    end
  end.

Definition ser_scd (c : cmd) (s : sink) : outcome unit * sink :=
  match c with
  | CRead a n => (Ok tt, ser_read_entry (a, n) s)
  | CWrite w => write_all (wm_data w) (write_le 8 (wm_addr w) s)
  | CReadStacked es _ _ => (Ok tt, fold_left (fun s e => ser_read_entry e s) es s)
  | CWriteStacked es _ _ => ser_write_entries es s
  end.

Definition ser_header (c : cmd) (id : Z) (s : sink) : sink :=
  write_le 2 id (write_le 2 (scd_len c) (write_le 2 (scd_kind_id c)
    (write_le 2 FLAG_REQUEST_ACK (write_le 4 MAGIC s)))).

Definition serialize (c : cmd) (id : Z) (s : sink) : outcome unit * sink :=
  ser_scd c (ser_header c id s).

Definition serialize_vec (c : cmd) (id : Z) : list Z := s_out (snd (serialize c id vec_sink)).

(* ---- drivers ----------------------------------------------------------- *)

Definition show_ser (c : cmd) (id cap : Z) : list Z :=
  (* cap < 0 : Vec sink; otherwise a slice of cap bytes *)
  let s := if cap <? 0 then vec_sink else slice_sink cap in
  let '(r, s') := serialize c id s in
  cmd_len c :: maximum_ack_len c ::
  (match r with Ok _ => 0 | Err e => e | Panic => -2 end) :: zlen (s_out s') :: s_out s'.

Definition run_cmd (oc : outcome cmd) (id cap : Z) : list Z :=
  match oc with
  | Ok c => 0 :: show_ser c id cap
  | Err e => [1; e]
  | Panic => [2]
  end.

(* flat decoders of the case arguments *)
Fixpoint pairs_of (l : list Z) : list (Z * Z) :=
  match l with
  | a :: n :: r => (a, n) :: pairs_of r
  | _ => []
  end.

(* stacked write entries: (addr, len, seed) triples, data = pat_data seed len *)
Fixpoint wentries_of (l : list Z) : list (Z * list Z) :=
  match l with
  | a :: n :: sd :: r => (a, pat_data sd n) :: wentries_of r
  | _ => []
  end.
