(* Model of the bookkeeping of device/src/u3v/async_read.rs (AsyncPool: submit, poll with
   poll_completed, pending, is_empty, cancel_all, Drop) together with what libusb knows about every
   transfer (C12).

   A slot of `pending` carries the state libusb has for that transfer: never accepted (LUnknown),
   accepted and in flight (LFlight: completion status and length, the poll epoch at which it is due,
   the latency of a cancellation, cancellation requested), or completed with its callback run and
   not yet reaped (LDone).
   The device side is scripted exactly as rust/h_async/src/fake_usb.rs:
   - every libusb_submit_transfer call takes the next plan entry (refused with an error code /
     accepted with a completion and a cancellation latency);
   - every libusb_handle_events_locked call takes the next entry of the event plan `p_evs`: a libusb
     error code is returned and nothing is handled; 0 (also past the end) handles events: every
     in-flight transfer that is due completes, a cancelled one completes (CANCELLED) when its
     remaining latency is 0 and otherwise has it decremented; when nothing completed the call used
     up the whole timeval it was given (the time-out of the poll has passed);
   - libusb_cancel_transfer succeeds on in-flight transfers only.

   `push_first = false` is the code: a transfer is pushed onto `pending` only after
   libusb_submit_transfer accepted it.  `push_first = true` pushes first and submits through
   pending.back_mut() (kept to show what the theorems exclude).
   `pool_drop` is the code's Drop (`while !is_empty() { poll(1s).ok(); }`); `pool_drop_rounds` is
   the variant `for _ in 0..pending() { poll(1s).ok(); }` (kept to show what the theorems exclude).

   The events lock (fifth round).  poll_completed follows libusb's protocol for several threads: per
   round of its loop it tries to take the events lock; when it gets it, it handles events itself;
   when another thread holds it, it takes the event waiters lock, asks libusb_event_handler_active
   and only if a handler is still active waits for it (libusb_wait_for_event).  What the OTHER threads
   of the process do with the events lock is scripted per round (`lk_plan`, one entry per round, past
   the end LkOwn), exactly as rust/h_async/src/fake_usb.rs:
   - LkOwn: libusb_try_lock_events succeeds; the round is one libusb_handle_events_locked call;
   - LkActive n: it fails, libusb_event_handler_active answers 1, libusb_wait_for_event is called with
     the remaining time: if n microseconds is less than that, the other thread handles events after
     n us - the due / cancelled transfers of our pool complete exactly as in a successful
     event-handling call of our own, their callbacks run on that thread - and the waiters are woken;
     otherwise the wait times out, nothing of ours was handled;
   - LkGone: it fails because the lock was taken at that instant, but the holder has left before the
     waiters lock is held: libusb_event_handler_active answers 0, the code does not wait and goes
     round again at once (no time passes).  A libusb_wait_for_event call in that situation sleeps for
     the whole timeval it was given: nobody is left to wake the waiters, nobody handles events.
   Time is the virtual clock of the harness (microseconds): it moves only when an event-handling call
   finds nothing to complete (by the timeval + 1 us), when a wait returns (by n) or times out (by the
   timeval + 1 us).  `poll_wait` carries the time left until the deadline of poll_completed.
   `recheck = true` is the code; `recheck = false` is the variant that calls libusb_wait_for_event in
   the contended branch without asking libusb_event_handler_active (kept to show what the theorems
   exclude). *)
From Cam Require Export Outcome Bytes.

Inductive plan := PRefuse (code : Z) | PAccept (status len delay : Z) (clat : nat).

Inductive lstate :=
| LUnknown
| LFlight (status len due : Z) (clat : nat) (cancel : bool)
| LDone (status len : Z).

Record slot := { sl_no : Z; sl_buf : Z; sl_st : lstate }.

(* what the other threads do with libusb's events lock during one round of poll_completed *)
Inductive lockent := LkOwn | LkGone | LkActive (n : Z).

(* the libusb calls of the lock protocol, as poll_completed makes them (ghost call log) *)
Inductive lcall :=
| CTryLock (got : bool)       (* libusb_try_lock_events; got = it returned 0 *)
| CHandle (code : Z)          (* libusb_handle_events_locked and its result *)
| CActive (ans : bool)        (* libusb_event_handler_active, under the waiters lock *)
| CWait (active : bool).      (* libusb_wait_for_event; active = an event handler was active at that moment *)

Record lkstate := {
  lk_plan : list lockent;       (* the coming rounds *)
  lk_clock : Z;                 (* virtual microseconds gone by *)
  lk_rounds : Z;                (* libusb_try_lock_events calls *)
  lk_fail : Z;                  (* ... that found the lock taken *)
  lk_waits : Z;                 (* libusb_wait_for_event calls *)
  lk_idle : Z;                  (* ... made while no event handler was active *)
  lk_log : list lcall           (* ghost: the calls, newest first *)
}.

Record pstate := {
  p_plan : list plan;
  p_evs : list Z;               (* results of the coming libusb_handle_events_locked calls *)
  p_epoch : Z;                  (* poll operations begun *)
  p_pool : option (list slot);  (* AsyncPool.pending; None: no pool *)
  p_calls : Z;                  (* libusb_submit_transfer calls *)
  p_accepted : Z;
  p_refused : Z;
  p_completed : Z;
  p_notfound : Z;               (* libusb_cancel_transfer -> NOT_FOUND *)
  p_evcalls : Z;                (* libusb_handle_events_locked calls *)
  p_freed : Z;                  (* transfers freed (libusb_free_transfer) while libusb had them in flight *)
  p_reaped : list Z;            (* ghost: numbers of the transfers poll has returned, in order *)
  p_lk : lkstate                (* the events lock: plan of the other threads, clock, call counters and log *)
}.

Definition lkinit (lks : list lockent) : lkstate :=
  {| lk_plan := lks; lk_clock := 0; lk_rounds := 0; lk_fail := 0; lk_waits := 0; lk_idle := 0; lk_log := [] |}.

Definition pinit (pl : list plan) (evs : list Z) (lks : list lockent) : pstate :=
  {| p_plan := pl; p_evs := evs; p_epoch := 0; p_pool := Some []; p_calls := 0; p_accepted := 0; p_refused := 0;
     p_completed := 0; p_notfound := 0; p_evcalls := 0; p_freed := 0; p_reaped := []; p_lk := lkinit lks |}.

(* LibUsbError::from_libusb_error, classes numbered as the harness prints them; None: unreachable!() *)
Definition err_class (code : Z) : option Z :=
  if code =? -1 then Some 0 else if code =? -2 then Some 1 else if code =? -3 then Some 2
  else if code =? -4 then Some 3 else if code =? -5 then Some 4 else if code =? -6 then Some 5
  else if code =? -7 then Some 6 else if code =? -8 then Some 7 else if code =? -9 then Some 8
  else if code =? -10 then Some 9 else if code =? -11 then Some 10 else if code =? -12 then Some 11
  else if code =? -99 then Some 13 else None.

(* AsyncTransfer::handle_completed: Some (inl len) = Ok, Some (inr class) = Err, None = unreachable!() *)
Definition completion (status len : Z) : option (Z + Z) :=
  if status =? 0 then Some (inl len)
  else if status =? 3 then Some (inr 6)       (* CANCELLED -> Timeout *)
  else if status =? 1 then Some (inr 13)      (* ERROR -> Other *)
  else if status =? 4 then Some (inr 8)       (* STALL -> Pipe *)
  else if status =? 5 then Some (inr 3)       (* NO_DEVICE *)
  else if status =? 6 then Some (inr 7)       (* OVERFLOW *)
  else None.

Definition mkslot (sl : slot) (st : lstate) : slot := {| sl_no := sl_no sl; sl_buf := sl_buf sl; sl_st := st |}.

(* one successful event handling, one transfer: a cancelled transfer whose latency has run out
   completes as CANCELLED, a due one with its planned completion, a cancelled one that is still
   being cancelled gets one step closer *)
Definition complete1 (epoch : Z) (sl : slot) : slot * Z :=
  match sl_st sl with
  | LFlight status len due clat cancel =>
    match cancel, clat with
    | true, O => (mkslot sl (LDone 3 0), 1)
    | _, _ =>
      if due <? epoch then (mkslot sl (LDone status (if status =? 0 then len else 0)), 1)
      else if cancel then (mkslot sl (LFlight status len due (pred clat) true), 0)
      else (sl, 0)
    end
  | _ => (sl, 0)
  end.

Fixpoint events (epoch : Z) (q : list slot) : list slot * Z :=
  match q with
  | [] => ([], 0)
  | sl :: r => let '(sl', n) := complete1 epoch sl in let '(r', m) := events epoch r in (sl' :: r', n + m)
  end.

(* libusb_cancel_transfer on every pending transfer *)
Definition cancel1 (sl : slot) : slot * Z :=
  match sl_st sl with
  | LFlight status len due clat _ => (mkslot sl (LFlight status len due clat true), 0)
  | _ => (sl, 1)
  end.

Fixpoint cancel_all (q : list slot) : list slot * Z :=
  match q with
  | [] => ([], 0)
  | sl :: r => let '(sl', n) := cancel1 sl in let '(r', m) := cancel_all r in (sl' :: r', n + m)
  end.

(* ---- state updates -------------------------------------------------------------------------- *)

Definition set_pool (s : pstate) (q : option (list slot)) : pstate :=
  {| p_plan := p_plan s; p_evs := p_evs s; p_epoch := p_epoch s; p_pool := q; p_calls := p_calls s;
     p_accepted := p_accepted s; p_refused := p_refused s; p_completed := p_completed s; p_notfound := p_notfound s;
     p_evcalls := p_evcalls s; p_freed := p_freed s; p_reaped := p_reaped s; p_lk := p_lk s |}.

(* ---- the events lock: what one round of poll_completed does to it -------------------------------- *)

(* the entry of the plan for the round that begins *)
Definition lk_round (k : lkstate) : lockent := match lk_plan k with [] => LkOwn | e :: _ => e end.

Definition lk_logc (k : lkstate) (c : lcall) : lkstate :=
  {| lk_plan := lk_plan k; lk_clock := lk_clock k; lk_rounds := lk_rounds k; lk_fail := lk_fail k;
     lk_waits := lk_waits k; lk_idle := lk_idle k; lk_log := c :: lk_log k |}.

(* the virtual clock moves by d microseconds *)
Definition lk_tick (k : lkstate) (d : Z) : lkstate :=
  {| lk_plan := lk_plan k; lk_clock := lk_clock k + d; lk_rounds := lk_rounds k; lk_fail := lk_fail k;
     lk_waits := lk_waits k; lk_idle := lk_idle k; lk_log := lk_log k |}.

(* libusb_try_lock_events returned 0: this thread handles the events of the round *)
Definition lk_own (k : lkstate) : lkstate :=
  {| lk_plan := tl (lk_plan k); lk_clock := lk_clock k; lk_rounds := lk_rounds k + 1; lk_fail := lk_fail k;
     lk_waits := lk_waits k; lk_idle := lk_idle k; lk_log := CTryLock true :: lk_log k |}.

(* libusb_try_lock_events found the lock taken; then, under the waiters lock: `ask` = libusb_event_handler_active
   is called (`active` = whether a handler is active at that moment, which is what it answers); `wait` =
   libusb_wait_for_event is called *)
Definition lk_contended (k : lkstate) (ask active wait : bool) : lkstate :=
  let l1 := CTryLock false :: lk_log k in
  let l2 := if ask then CActive active :: l1 else l1 in
  let l3 := if wait then CWait active :: l2 else l2 in
  {| lk_plan := tl (lk_plan k); lk_clock := lk_clock k; lk_rounds := lk_rounds k + 1; lk_fail := lk_fail k + 1;
     lk_waits := lk_waits k + (if wait then 1 else 0);
     lk_idle := lk_idle k + (if wait && negb active then 1 else 0); lk_log := l3 |}.

Definition lk_push (k : lkstate) (e : lockent) : lkstate :=
  {| lk_plan := lk_plan k ++ [e]; lk_clock := lk_clock k; lk_rounds := lk_rounds k; lk_fail := lk_fail k;
     lk_waits := lk_waits k; lk_idle := lk_idle k; lk_log := lk_log k |}.

Definition set_lk (s : pstate) (k : lkstate) : pstate :=
  {| p_plan := p_plan s; p_evs := p_evs s; p_epoch := p_epoch s; p_pool := p_pool s; p_calls := p_calls s;
     p_accepted := p_accepted s; p_refused := p_refused s; p_completed := p_completed s; p_notfound := p_notfound s;
     p_evcalls := p_evcalls s; p_freed := p_freed s; p_reaped := p_reaped s; p_lk := k |}.

Definition tick (s : pstate) (d : Z) : pstate := set_lk s (lk_tick (p_lk s) d).

(* one libusb_handle_events_locked call begins: its result is taken from the event plan *)
Definition ev_call (s : pstate) : pstate :=
  {| p_plan := p_plan s; p_evs := tl (p_evs s); p_epoch := p_epoch s; p_pool := p_pool s; p_calls := p_calls s;
     p_accepted := p_accepted s; p_refused := p_refused s; p_completed := p_completed s; p_notfound := p_notfound s;
     p_evcalls := p_evcalls s + 1; p_freed := p_freed s; p_reaped := p_reaped s;
     p_lk := lk_logc (p_lk s) (CHandle (hd 0 (p_evs s))) |}.

Definition add_completed (s : pstate) (n : Z) : pstate :=
  {| p_plan := p_plan s; p_evs := p_evs s; p_epoch := p_epoch s; p_pool := p_pool s; p_calls := p_calls s;
     p_accepted := p_accepted s; p_refused := p_refused s; p_completed := p_completed s + n; p_notfound := p_notfound s;
     p_evcalls := p_evcalls s; p_freed := p_freed s; p_reaped := p_reaped s; p_lk := p_lk s |}.

Definition add_notfound (s : pstate) (n : Z) : pstate :=
  {| p_plan := p_plan s; p_evs := p_evs s; p_epoch := p_epoch s; p_pool := p_pool s; p_calls := p_calls s;
     p_accepted := p_accepted s; p_refused := p_refused s; p_completed := p_completed s; p_notfound := p_notfound s + n;
     p_evcalls := p_evcalls s; p_freed := p_freed s; p_reaped := p_reaped s; p_lk := p_lk s |}.

Definition next_epoch (s : pstate) : pstate :=
  {| p_plan := p_plan s; p_evs := p_evs s; p_epoch := p_epoch s + 1; p_pool := p_pool s; p_calls := p_calls s;
     p_accepted := p_accepted s; p_refused := p_refused s; p_completed := p_completed s; p_notfound := p_notfound s;
     p_evcalls := p_evcalls s; p_freed := p_freed s; p_reaped := p_reaped s; p_lk := p_lk s |}.

Definition push_ev (s : pstate) (code : Z) : pstate :=
  {| p_plan := p_plan s; p_evs := p_evs s ++ [code]; p_epoch := p_epoch s; p_pool := p_pool s; p_calls := p_calls s;
     p_accepted := p_accepted s; p_refused := p_refused s; p_completed := p_completed s; p_notfound := p_notfound s;
     p_evcalls := p_evcalls s; p_freed := p_freed s; p_reaped := p_reaped s; p_lk := p_lk s |}.

(* pending.pop_front() of the completed front transfer `sl` *)
Definition pop_front (s : pstate) (sl : slot) (r : list slot) : pstate :=
  {| p_plan := p_plan s; p_evs := p_evs s; p_epoch := p_epoch s; p_pool := Some r; p_calls := p_calls s;
     p_accepted := p_accepted s; p_refused := p_refused s; p_completed := p_completed s; p_notfound := p_notfound s;
     p_evcalls := p_evcalls s; p_freed := p_freed s; p_reaped := p_reaped s ++ [sl_no sl]; p_lk := p_lk s |}.

(* transfers libusb still has in flight *)
Definition is_flight (sl : slot) : bool := match sl_st sl with LFlight _ _ _ _ _ => true | _ => false end.
Definition in_flight (q : list slot) : Z := zlen (filter is_flight q).

(* the pool goes away: `pending` is dropped, every AsyncTransfer in it is freed (AsyncTransfer::drop:
   the completion flag, then libusb_free_transfer), in flight or not *)
Definition free_pool (s : pstate) (q : list slot) : pstate :=
  {| p_plan := p_plan s; p_evs := p_evs s; p_epoch := p_epoch s; p_pool := None; p_calls := p_calls s;
     p_accepted := p_accepted s; p_refused := p_refused s; p_completed := p_completed s; p_notfound := p_notfound s;
     p_evcalls := p_evcalls s; p_freed := p_freed s + in_flight q; p_reaped := p_reaped s; p_lk := p_lk s |}.

(* ---- AsyncPool::submit ---------------------------------------------------------------------- *)
Definition submit (push_first : bool) (s : pstate) (q : list slot) (len : Z) : pstate * list Z :=
  let pl := match p_plan s with [] => PAccept 0 len 0 0 | x :: _ => x end in
  let rest := tl (p_plan s) in
  match pl with
  | PRefuse code =>
    (* the transfer is freed (or, with push_first, stays in `pending` although libusb never took it) *)
    let q' := if push_first then q ++ [{| sl_no := -1; sl_buf := len; sl_st := LUnknown |}] else q in
    ({| p_plan := rest; p_evs := p_evs s; p_epoch := p_epoch s; p_pool := Some q'; p_calls := p_calls s + 1;
        p_accepted := p_accepted s; p_refused := p_refused s + 1; p_completed := p_completed s;
        p_notfound := p_notfound s; p_evcalls := p_evcalls s; p_freed := p_freed s; p_reaped := p_reaped s; p_lk := p_lk s |},
     match err_class code with Some c => [1; c] | None => [2] end)
  | PAccept status ln delay clat =>
    let sl := {| sl_no := p_accepted s; sl_buf := len;
                 sl_st := LFlight status (Z.min ln len) (p_epoch s + delay) clat false |} in
    ({| p_plan := rest; p_evs := p_evs s; p_epoch := p_epoch s; p_pool := Some (q ++ [sl]); p_calls := p_calls s + 1;
        p_accepted := p_accepted s + 1; p_refused := p_refused s; p_completed := p_completed s;
        p_notfound := p_notfound s; p_evcalls := p_evcalls s; p_freed := p_freed s; p_reaped := p_reaped s; p_lk := p_lk s |}, [0])
  end.

(* ---- AsyncPool::poll ------------------------------------------------------------------------ *)

(* handle_completed of the front transfer: None = its completion flag is not set *)
Definition reap (sl : slot) : option (list Z) :=
  match sl_st sl with
  | LDone status len =>
    Some match completion status len with
         | Some (inl n) => [0; n; 1]
         | Some (inr c) => [1; c]
         | None => [2]
         end
  | _ => None
  end.

Definition front_done (q : list slot) : bool :=
  match q with sl :: _ => match sl_st sl with LDone _ _ => true | _ => false end | [] => false end.

(* poll_completed, entered with the front transfer not completed; `rem` = deadline - now in microseconds:
     while err == 0 && !completed && deadline > now {
         if libusb_try_lock_events(ctx) == 0 {
             if !completed && libusb_event_handling_ok(ctx) != 0 { err = libusb_handle_events_locked(ctx, remaining) }
             libusb_unlock_events(ctx)
         } else {
             libusb_lock_event_waiters(ctx)
             if !completed && libusb_event_handler_active(ctx) != 0 { libusb_wait_for_event(ctx, remaining) }
             libusb_unlock_event_waiters(ctx)
         } }
   One iteration = one round = one entry of the lock plan.
   LkOwn: one event-handling call.  It fails (the loop ends with that error; TIMEOUT = -7 is turned into "not
   completed"), or completes the front transfer, or completes nothing - then the call has waited for the whole
   remaining time (+ 1 us) and the deadline has passed -, or completes other transfers only and the loop goes
   round again, no time gone.
   LkActive n: the wait returns after n us with the events handled by the other thread (front completed: the loop
   ends; otherwise next round with n us less to go), or - n not below the remaining time - it times out and the
   deadline has passed.
   LkGone: nothing is called after libusb_event_handler_active answered 0; next round at once.  The variant
   (recheck = false) waits: the whole remaining time goes by, nothing is handled, the deadline has passed.
   Every further round needs a completion or uses up a contended entry of the lock plan, so the number of rounds is
   at most the number of transfers in flight + the contended entries of the plan + 1: the fuel given by `poll` is
   never used up (P_C12p.poll_wait_fuel). *)
Inductive wres := WDone | WTimeout | WErr (code : Z).

Fixpoint poll_wait (recheck : bool) (fuel : nat) (s : pstate) (q : list slot) (rem : Z) : pstate * list slot * wres :=
  match fuel with
  | O => (s, q, WTimeout)
  | S f =>
    if rem <=? 0 then (s, q, WTimeout)           (* deadline > now does not hold *)
    else
    match lk_round (p_lk s) with
    | LkOwn =>
      let s0 := set_lk s (lk_own (p_lk s)) in
      let code := hd 0 (p_evs s0) in
      let s1 := ev_call s0 in
      if code =? 0 then
        let '(q', n) := events (p_epoch s) q in
        let s2 := add_completed s1 n in
        if front_done q' then (s2, q', WDone)
        else if n =? 0 then (tick s2 (rem + 1), q', WTimeout)
        else poll_wait recheck f s2 q' rem
      else if code =? -7 then (s1, q, WTimeout)
      else (s1, q, WErr code)
    | LkActive n0 =>
      let n := Z.max 0 n0 in
      let s0 := set_lk s (lk_contended (p_lk s) recheck true true) in
      if n <? rem then
        let '(q', m) := events (p_epoch s) q in
        let s2 := tick (add_completed s0 m) n in
        if front_done q' then (s2, q', WDone) else poll_wait recheck f s2 q' (rem - n)
      else (tick s0 (rem + 1), q, WTimeout)
    | LkGone =>
      if recheck then poll_wait recheck f (set_lk s (lk_contended (p_lk s) true false false)) q rem
      else (tick (set_lk s (lk_contended (p_lk s) false false true)) (rem + 1), q, WTimeout)
    end
  end.

(* rounds of the lock plan in which another thread holds the events lock *)
Definition is_contended (e : lockent) : bool := match e with LkOwn => false | _ => true end.
Definition contended (l : list lockent) : nat := length (filter is_contended l).
Definition is_active (e : lockent) : bool := match e with LkActive _ => true | _ => false end.
Definition actives (l : list lockent) : nat := length (filter is_active l).

(* PReap: the front transfer was popped and this is handle_completed's result ([2]: unreachable!()
   after the pop); PFail: Err(..) and nothing was popped; PPanic: a panic and nothing was popped
   (from_libusb_error's unreachable!() on a code libusb does not define; poll on an empty pool) *)
Inductive pres := PReap (out : list Z) | PFail (out : list Z) | PPanic.

Definition poll (recheck : bool) (ms : Z) (s : pstate) (q : list slot) : pstate * pres :=
  match q with
  | [] => (s, PPanic)
  | sl :: r =>
    match reap sl with
    | Some out => (pop_front s sl r, PReap out)
    | None =>
      if ms <=? 0 then (s, PFail [1; 6])       (* the deadline has passed before the first round *)
      else
        let '(s1, q', w) := poll_wait recheck (S (length q + contended (lk_plan (p_lk s)))) s q (ms * 1000) in
        let s2 := set_pool s1 (Some q') in
        match w with
        | WDone =>
          match q' with
          | sl' :: r' => match reap sl' with Some out => (pop_front s2 sl' r', PReap out) | None => (s2, PFail [1; 6]) end
          | [] => (s2, PFail [1; 6])
          end
        | WTimeout => (s2, PFail [1; 6])
        | WErr code => match err_class code with Some c => (s2, PFail [1; c]) | None => (s2, PPanic) end
        end
    end
  end.

Definition is_panic (out : list Z) : bool := match out with [2] => true | _ => false end.

(* ---- Drop ------------------------------------------------------------------------------------
   cancel_all(); while !is_empty() { poll(1 s).ok(); }  and then `pending` (empty) is dropped.
   DRet: drop returned; DPanic: a poll panicked (unreachable!()), the unwinding frees what is left
   in `pending`; DHang: the fuel is used up.  The fuel `drop_fuel` = pending transfers + the
   cancellation latencies still to run + failing event-handling calls still in the plan + rounds of
   the lock plan in which this thread waits for another event handler (such a wait can time out) + 1
   is never used up (P_C12p.drain_ready): the loop ends within that many polls. *)
Inductive dres := DRet (s : pstate) | DPanic (s : pstate) | DHang.

Fixpoint drain (fuel : nat) (s : pstate) (q : list slot) : dres :=
  match q with
  | [] => DRet (free_pool s [])
  | _ =>
    match fuel with
    | O => DHang
    | S f =>
      match poll true 1000 s q with
      | (s', PReap out) =>
        match p_pool s' with
        | Some q' => if is_panic out then DPanic (free_pool s' q') else drain f s' q'
        | None => DHang
        end
      | (s', PFail _) => match p_pool s' with Some q' => drain f s' q' | None => DHang end
      | (s', PPanic) => match p_pool s' with Some q' => DPanic (free_pool s' q') | None => DHang end
      end
    end
  end.

Definition lat1 (sl : slot) : nat := match sl_st sl with LFlight _ _ _ clat _ => clat | _ => O end.
Fixpoint lat_sum (q : list slot) : nat := match q with [] => O | sl :: r => (lat1 sl + lat_sum r)%nat end.
Fixpoint failures (evs : list Z) : nat :=
  match evs with [] => O | c :: r => if c =? 0 then failures r else S (failures r) end.

Definition drop_fuel (s : pstate) (q : list slot) : nat :=
  S (length q + lat_sum q + failures (p_evs s) + actives (lk_plan (p_lk s))).

Definition pool_drop (s : pstate) (q : list slot) : dres :=
  let '(q', n) := cancel_all q in
  let s0 := add_notfound (set_pool s (Some q')) n in
  drain (drop_fuel s0 q') s0 q'.

(* the variant: cancel_all(); for _ in 0..pending() { poll(1 s).ok(); }  and then `pending` - with
   whatever is still in it - is dropped *)
Fixpoint drain_rounds (n : nat) (s : pstate) (q : list slot) : dres :=
  match n with
  | O => DRet (free_pool s q)
  | S k =>
    match poll true 1000 s q with
    | (s', PReap out) =>
      match p_pool s' with
      | Some q' => if is_panic out then DPanic (free_pool s' q') else drain_rounds k s' q'
      | None => DHang
      end
    | (s', PFail _) => match p_pool s' with Some q' => drain_rounds k s' q' | None => DHang end
    | (s', PPanic) => match p_pool s' with Some q' => DPanic (free_pool s' q') | None => DHang end
    end
  end.

Definition pool_drop_rounds (s : pstate) (q : list slot) : dres :=
  let '(q', n) := cancel_all q in
  let s0 := add_notfound (set_pool s (Some q')) n in
  drain_rounds (length q') s0 q'.

(* ---- one operation of the harness: new state, output; None: the operation never returns ------- *)

(* an entry of the lock plan as the harness reads it: 1 = LkGone, 2 + n = LkActive n, anything else LkOwn *)
Definition lk_of_tok (e : Z) : lockent := if e =? 1 then LkGone else if 2 <=? e then LkActive (e - 2) else LkOwn.

(* what the harness prints after the result of a poll: pending(), then the libusb_try_lock_events and the
   libusb_handle_events_locked calls made since the case began *)
Definition poll_tail (s : pstate) : list Z :=
  [zlen (match p_pool s with Some q' => q' | None => [] end); lk_rounds (p_lk s); p_evcalls s].

Definition pool_op (push_first : bool) (s : pstate) (op arg : Z) : option (pstate * list Z) :=
  if op =? 9 then Some (push_ev s arg, [])
  else if op =? 10 then Some (set_lk s (lk_push (p_lk s) (lk_of_tok arg)), [])
  else
  match p_pool s with
  | Some q =>
    if op =? 1 then Some (submit push_first s q arg)
    else if op =? 2 then
      match q with
      | [] => Some (s, [-1])
      | _ =>
        match poll true arg (next_epoch s) q with
        | (s', PReap out) => Some (s', if is_panic out then out else out ++ poll_tail s')
        | (s', PFail out) => Some (s', out ++ poll_tail s')
        | (s', PPanic) => Some (s', [2])
        end
      end
    else if op =? 3 then Some (s, [zlen q])
    else if op =? 4 then
      let '(q', n) := cancel_all q in Some (add_notfound (set_pool s (Some q')) n, [])
    else if op =? 5 then
      match pool_drop s q with
      | DRet s' => Some (s', [0; p_freed s'; p_evcalls s'; lk_rounds (p_lk s')])
      | DPanic s' => Some (s', [2])
      | DHang => None
      end
    else if op =? 6 then Some (s, [])
    else if op =? 7 then Some (s, [match q with [] => 1 | _ => 0 end])
    else Some (s, [-99])
  | None =>
    if op =? 6 then Some (set_pool s (Some []), [])
    else if (op =? 3) || (op =? 7) then Some (s, [-1])
    else Some (s, [])
  end.

(* -> state, output, whether an operation panicked (the case ends there) *)
Fixpoint pool_run (push_first : bool) (s : pstate) (ops : list (Z * Z)) : option (pstate * list Z * bool) :=
  match ops with
  | [] => Some (s, [], false)
  | (op, arg) :: r =>
    match pool_op push_first s op arg with
    | Some (s', out) =>
      if ((op =? 1) || (op =? 2) || (op =? 5)) && is_panic out then Some (s', out, true)
      else match pool_run push_first s' r with
           | Some (s'', out', b) => Some (s'', out ++ out', b)
           | None => None
           end
    | None => None
    end
  end.

(* ---- the harness line ------------------------------------------------------------------------ *)

(* v2 = false: `pool` lines (no cancellation latency, no event plan); v2 = true: `pool2` / `pool3` lines *)
Fixpoint parse_plan (v2 : bool) (n : nat) (t : list Z) : list plan * list Z :=
  match n with
  | O => ([], t)
  | S k =>
    match t with
    | 0 :: code :: r => let '(p, r') := parse_plan v2 k r in (PRefuse code :: p, r')
    | _ :: st :: ln :: d :: r =>
      if v2 then
        match r with
        | cl :: r1 => let '(p, r') := parse_plan v2 k r1 in (PAccept st ln d (Z.to_nat cl) :: p, r')
        | [] => ([], [])
        end
      else let '(p, r') := parse_plan v2 k r in (PAccept st ln d 0 :: p, r')
    | _ => ([], [])
    end
  end.

Fixpoint parse_ops (n : nat) (t : list Z) : list (Z * Z) :=
  match n with
  | O => []
  | S k => match t with op :: a :: r => (op, a) :: parse_ops k r | _ => [] end
  end.

Definition parse_evs (v2 : bool) (t : list Z) : list Z * list Z :=
  if v2 then match t with n :: r => (take n r, drop n r) | [] => ([], []) end else ([], t).

(* v3 = true: `pool3` lines: the lock plan follows the event plan *)
Definition parse_lks (v3 : bool) (t : list Z) : list lockent * list Z :=
  if v3 then match t with n :: r => (map lk_of_tok (take n r), drop n r) | [] => ([], []) end else ([], t).

(* what rust/h_async prints for the case `toks`; [3]: the case never ends.
   ver: 1 = `pool`, 2 = `pool2`, 3 = `pool3` lines *)
Definition run_pool_with (push_first : bool) (ver : Z) (toks : list Z) : list Z :=
  match toks with
  | np :: t =>
    let '(pl, t1) := parse_plan (2 <=? ver) (Z.to_nat np) t in
    let '(evs, t1') := parse_evs (2 <=? ver) t1 in
    let '(lks, t1'') := parse_lks (3 <=? ver) t1' in
    match t1'' with
    | nops :: t2 =>
      match pool_run push_first (pinit pl evs lks) (parse_ops (Z.to_nat nops) t2) with
      | None => [3]
      | Some (s, out, true) => out ++ [-9; -1]      (* an unreachable!() was hit: not exercised *)
      | Some (s, out, false) =>
        (* the pool is dropped at the end of the case *)
        match (match p_pool s with Some q => pool_drop s q | None => DRet s end) with
        | DRet s' =>
          out ++ [-9; p_calls s'; p_accepted s'; p_refused s'; p_completed s'; p_notfound s'; 0; p_freed s'; p_evcalls s';
                  lk_rounds (p_lk s'); lk_fail (p_lk s'); lk_waits (p_lk s'); lk_idle (p_lk s'); lk_clock (p_lk s')]
        | _ => [3]
        end
      end
    | [] => [-99]
    end
  | [] => [-99]
  end.

Definition run_pool (toks : list Z) : list Z := run_pool_with false 1 toks.
Definition run_pool2 (toks : list Z) : list Z := run_pool_with false 2 toks.
Definition run_pool3 (toks : list Z) : list Z := run_pool_with false 3 toks.
