(* Model of the bookkeeping of device/src/u3v/async_read.rs (AsyncPool: submit, poll, pending,
   is_empty, cancel_all, Drop) together with what libusb knows about every transfer (C12).

   A slot of `pending` carries the state libusb has for that transfer: never accepted (LUnknown),
   accepted and in flight (LFlight: completion status and length, the poll epoch at which it is due,
   cancellation requested), or completed with its callback run and not yet reaped (LDone).
   The device side is scripted exactly as rust/h_async/src/fake_usb.rs: every
   libusb_submit_transfer call takes the next plan entry (refused with an error code / accepted with
   a completion); event handling completes every in-flight transfer that is due or cancelled;
   libusb_cancel_transfer succeeds on in-flight transfers only.

   `push_first = false` is the code: a transfer is pushed onto `pending` only after
   libusb_submit_transfer accepted it.  `push_first = true` pushes first and submits through
   pending.back_mut() (kept to show what the theorems exclude). *)
From Cam Require Export Outcome Bytes.

Inductive plan := PRefuse (code : Z) | PAccept (status len delay : Z).

Inductive lstate :=
| LUnknown
| LFlight (status len due : Z) (cancel : bool)
| LDone (status len : Z).

Record slot := { sl_no : Z; sl_buf : Z; sl_st : lstate }.

Record pstate := {
  p_plan : list plan;
  p_epoch : Z;                  (* poll operations begun *)
  p_pool : option (list slot);  (* AsyncPool.pending; None: no pool *)
  p_calls : Z;                  (* libusb_submit_transfer calls *)
  p_accepted : Z;
  p_refused : Z;
  p_completed : Z;
  p_notfound : Z;               (* libusb_cancel_transfer -> NOT_FOUND *)
  p_reaped : list Z             (* ghost: numbers of the transfers poll has returned, in order *)
}.

Definition pinit (pl : list plan) : pstate :=
  {| p_plan := pl; p_epoch := 0; p_pool := Some []; p_calls := 0; p_accepted := 0; p_refused := 0;
     p_completed := 0; p_notfound := 0; p_reaped := [] |}.

(* LibUsbError::from_libusb_error, classes numbered as the harness prints them; None: unreachable!() *)
Definition err_class (code : Z) : option Z :=
  if code =? -1 then Some 0 else if code =? -2 then Some 1 else if code =? -3 then Some 2
  else if code =? -4 then Some 3 else if code =? -5 then Some 4 else if code =? -6 then Some 5
  else if code =? -7 then Some 6 else if code =? -8 then Some 7 else if code =? -9 then Some 8
  else if code =? -10 then Some 9 else if code =? -11 then Some 10 else if code =? -12 then Some 11
  else if code =? -99 then Some 13 else None.

(* AsyncTransfer::handle_completed: Some (inl len) = Ok, Some (inr class) = Err, None = unreachable!() *)
Definition completion (status len : Z) : option (Z + Z) :=
  if status =? 0 then Some (inl len)
  else if status =? 3 then Some (inr 6)       (* CANCELLED -> Timeout *)
  else if status =? 1 then Some (inr 13)      (* ERROR -> Other *)
  else if status =? 4 then Some (inr 8)       (* STALL -> Pipe *)
  else if status =? 5 then Some (inr 3)       (* NO_DEVICE *)
  else if status =? 6 then Some (inr 7)       (* OVERFLOW *)
  else None.

(* libusb_handle_events: every in-flight transfer that is due or cancelled completes *)
Definition complete1 (epoch : Z) (sl : slot) : slot * Z :=
  match sl_st sl with
  | LFlight status len due cancel =>
    if cancel then ({| sl_no := sl_no sl; sl_buf := sl_buf sl; sl_st := LDone 3 0 |}, 1)
    else if due <? epoch then
      ({| sl_no := sl_no sl; sl_buf := sl_buf sl; sl_st := LDone status (if status =? 0 then len else 0) |}, 1)
    else (sl, 0)
  | _ => (sl, 0)
  end.

Fixpoint events (epoch : Z) (q : list slot) : list slot * Z :=
  match q with
  | [] => ([], 0)
  | sl :: r => let '(sl', n) := complete1 epoch sl in let '(r', m) := events epoch r in (sl' :: r', n + m)
  end.

(* libusb_cancel_transfer on every pending transfer *)
Definition cancel1 (sl : slot) : slot * Z :=
  match sl_st sl with
  | LFlight status len due _ => ({| sl_no := sl_no sl; sl_buf := sl_buf sl; sl_st := LFlight status len due true |}, 0)
  | _ => (sl, 1)
  end.

Fixpoint cancel_all (q : list slot) : list slot * Z :=
  match q with
  | [] => ([], 0)
  | sl :: r => let '(sl', n) := cancel1 sl in let '(r', m) := cancel_all r in (sl' :: r', n + m)
  end.

Definition set_pool (s : pstate) (q : option (list slot)) : pstate :=
  {| p_plan := p_plan s; p_epoch := p_epoch s; p_pool := q; p_calls := p_calls s; p_accepted := p_accepted s;
     p_refused := p_refused s; p_completed := p_completed s; p_notfound := p_notfound s; p_reaped := p_reaped s |}.

(* AsyncPool::submit *)
Definition submit (push_first : bool) (s : pstate) (q : list slot) (len : Z) : pstate * list Z :=
  let pl := match p_plan s with [] => PAccept 0 len 0 | x :: _ => x end in
  let rest := tl (p_plan s) in
  match pl with
  | PRefuse code =>
    (* the transfer is freed (or, with push_first, stays in `pending` although libusb never took it) *)
    let q' := if push_first then q ++ [{| sl_no := -1; sl_buf := len; sl_st := LUnknown |}] else q in
    ({| p_plan := rest; p_epoch := p_epoch s; p_pool := Some q'; p_calls := p_calls s + 1;
        p_accepted := p_accepted s; p_refused := p_refused s + 1; p_completed := p_completed s;
        p_notfound := p_notfound s; p_reaped := p_reaped s |},
     match err_class code with Some c => [1; c] | None => [2] end)
  | PAccept status ln delay =>
    let sl := {| sl_no := p_accepted s; sl_buf := len;
                 sl_st := LFlight status (Z.min ln len) (p_epoch s + delay) false |} in
    ({| p_plan := rest; p_epoch := p_epoch s; p_pool := Some (q ++ [sl]); p_calls := p_calls s + 1;
        p_accepted := p_accepted s + 1; p_refused := p_refused s; p_completed := p_completed s;
        p_notfound := p_notfound s; p_reaped := p_reaped s |}, [0])
  end.

(* the front transfer after poll_completed: None = not completed (time-out, stays pending) *)
Definition reap (sl : slot) : option (list Z) :=
  match sl_st sl with
  | LDone status len =>
    Some match completion status len with
         | Some (inl n) => [0; n; 1]
         | Some (inr c) => [1; c]
         | None => [2]
         end
  | _ => None
  end.

(* AsyncPool::poll on a non-empty pool (the epoch has been advanced by the caller when it is a
   poll operation of the harness; the polls inside Drop do not advance it) *)
Definition poll (s : pstate) (q : list slot) : pstate * option (list Z) :=
  match q with
  | [] => (s, None)
  | sl :: r =>
    match reap sl with
    | Some out =>
      ({| p_plan := p_plan s; p_epoch := p_epoch s; p_pool := Some r; p_calls := p_calls s;
          p_accepted := p_accepted s; p_refused := p_refused s; p_completed := p_completed s;
          p_notfound := p_notfound s; p_reaped := p_reaped s ++ [sl_no sl] |}, Some out)
    | None =>
      let '(q', n) := events (p_epoch s) q in
      match q' with
      | sl' :: r' =>
        match reap sl' with
        | Some out =>
          ({| p_plan := p_plan s; p_epoch := p_epoch s; p_pool := Some r'; p_calls := p_calls s;
              p_accepted := p_accepted s; p_refused := p_refused s; p_completed := p_completed s + n;
              p_notfound := p_notfound s; p_reaped := p_reaped s ++ [sl_no sl'] |}, Some out)
        | None =>
          ({| p_plan := p_plan s; p_epoch := p_epoch s; p_pool := Some q'; p_calls := p_calls s;
              p_accepted := p_accepted s; p_refused := p_refused s; p_completed := p_completed s + n;
              p_notfound := p_notfound s; p_reaped := p_reaped s |}, None)
        end
      | [] => (s, None)
      end
    end
  end.

(* Drop: cancel_all, then poll until the pool is empty.  None: a poll timed out with nothing left
   that could ever complete the front transfer - the loop `while !is_empty() { poll(1s).ok(); }`
   never ends *)
Fixpoint drain (fuel : nat) (s : pstate) (q : list slot) : option pstate :=
  match q with
  | [] => Some (set_pool s None)
  | _ =>
    match fuel with
    | O => None
    | S f =>
      match poll s q with
      | (s', Some _) => match p_pool s' with Some q' => drain f s' q' | None => None end
      | (_, None) => None
      end
    end
  end.

Definition pool_drop (s : pstate) (q : list slot) : option pstate :=
  let '(q', n) := cancel_all q in
  drain (S (length q'))
        {| p_plan := p_plan s; p_epoch := p_epoch s; p_pool := Some q'; p_calls := p_calls s;
           p_accepted := p_accepted s; p_refused := p_refused s; p_completed := p_completed s;
           p_notfound := p_notfound s + n; p_reaped := p_reaped s |} q'.

(* transfers libusb still has in flight *)
Definition in_flight (q : list slot) : Z :=
  zlen (filter (fun sl => match sl_st sl with LFlight _ _ _ _ => true | _ => false end) q).

(* one operation of the harness: new state, output; None: the operation never returns *)
Definition pool_op (push_first : bool) (s : pstate) (op arg : Z) : option (pstate * list Z) :=
  match p_pool s with
  | Some q =>
    if op =? 1 then Some (submit push_first s q arg)
    else if op =? 2 then
      match q with
      | [] => Some (s, [-1])
      | _ =>
        let s1 := {| p_plan := p_plan s; p_epoch := p_epoch s + 1; p_pool := p_pool s; p_calls := p_calls s;
                     p_accepted := p_accepted s; p_refused := p_refused s; p_completed := p_completed s;
                     p_notfound := p_notfound s; p_reaped := p_reaped s |} in
        match poll s1 q with
        | (s', Some out) => Some (s', out)
        | (s', None) => Some (s', [1; 6])
        end
      end
    else if op =? 3 then Some (s, [zlen q])
    else if op =? 4 then
      let '(q', n) := cancel_all q in
      Some ({| p_plan := p_plan s; p_epoch := p_epoch s; p_pool := Some q'; p_calls := p_calls s;
               p_accepted := p_accepted s; p_refused := p_refused s; p_completed := p_completed s;
               p_notfound := p_notfound s + n; p_reaped := p_reaped s |}, [])
    else if op =? 5 then
      match pool_drop s q with
      | Some s' => Some (s', [0; 0])
      | None => None
      end
    else if op =? 6 then Some (s, [])
    else if op =? 7 then Some (s, [match q with [] => 1 | _ => 0 end])
    else Some (s, [-99])
  | None =>
    if op =? 6 then Some (set_pool s (Some []), [])
    else if (op =? 3) || (op =? 7) then Some (s, [-1])
    else Some (s, [])
  end.

Definition is_panic (out : list Z) : bool := match out with [2] => true | _ => false end.

(* -> state, output, whether an operation panicked (the case ends there) *)
Fixpoint pool_run (push_first : bool) (s : pstate) (ops : list (Z * Z)) : option (pstate * list Z * bool) :=
  match ops with
  | [] => Some (s, [], false)
  | (op, arg) :: r =>
    match pool_op push_first s op arg with
    | Some (s', out) =>
      if ((op =? 1) || (op =? 2)) && is_panic out then Some (s', out, true)
      else match pool_run push_first s' r with
           | Some (s'', out', b) => Some (s'', out ++ out', b)
           | None => None
           end
    | None => None
    end
  end.

(* ---- the harness line ------------------------------------------------------------------------ *)

Fixpoint parse_plan (n : nat) (t : list Z) : list plan * list Z :=
  match n with
  | O => ([], t)
  | S k =>
    match t with
    | 0 :: code :: r => let '(p, r') := parse_plan k r in (PRefuse code :: p, r')
    | _ :: st :: ln :: d :: r => let '(p, r') := parse_plan k r in (PAccept st ln d :: p, r')
    | _ => ([], [])
    end
  end.

Fixpoint parse_ops (n : nat) (t : list Z) : list (Z * Z) :=
  match n with
  | O => []
  | S k => match t with op :: a :: r => (op, a) :: parse_ops k r | _ => [] end
  end.

(* what rust/h_async prints for the case `toks`; [3]: the case never ends *)
Definition run_pool_with (push_first : bool) (toks : list Z) : list Z :=
  match toks with
  | np :: t =>
    let '(pl, t1) := parse_plan (Z.to_nat np) t in
    match t1 with
    | nops :: t2 =>
      match pool_run push_first (pinit pl) (parse_ops (Z.to_nat nops) t2) with
      | None => [3]
      | Some (s, out, true) => out ++ [-9; -1]      (* an unreachable!() was hit: not exercised *)
      | Some (s, out, false) =>
        (* the pool is dropped at the end of the case *)
        match (match p_pool s with Some q => pool_drop s q | None => Some s end) with
        | None => [3]
        | Some s' =>
          out ++ [-9; p_calls s'; p_accepted s'; p_refused s'; p_completed s'; p_notfound s'; 0; 0]
        end
      end
    | [] => [-99]
    end
  | [] => [-99]
  end.

Definition run_pool (toks : list Z) : list Z := run_pool_with false toks.
