(* C18 — model of `is_readable` / `is_writable` of every interface kind of /repo/genapi.

   Sources transcribed (after the two `fix:` commits of C18; the pinned behaviour is selected by the
   configuration record [cfg], see [pinned_cfg]):
     node_base.rs      NodeElementBase::{is_readable,is_writable,is_locked,is_implemented,is_available}
     utils.rs          bool_from_id, is_nid_readable, is_nid_writable, FormulaEnvCollector::is_readable
     register_base.rs  RegisterBase::{is_readable,is_writable}
     ivalue.rs         IValue::{is_readable,is_writable} for i64/f64 (Imm), value ids (slots), NodeId
                       (i64, f64 and String flavours), ImmOrPNode, ValueKind, PValue (+copies), PIndex
     integer.rs float.rs boolean.rs enumeration.rs command.rs string.rs   (elem_base && value source)
     int_reg.rs masked_int_reg.rs float_reg.rs string_reg.rs               (register_base)
     converter.rs int_converter.rs                                        (elem_base && pValue && variables)
     swiss_knife.rs int_swiss_knife.rs                                    (elem_base && variables; never writable)

   A node store is a list of nodes; a NodeId is the index.  Recursion through references uses
   explicit fuel ([Err E_FUEL] when it runs out; excluded in every theorem by a rank hypothesis).

   Values.  The verdicts depend on the current value of the controlling nodes (pIsImplemented,
   pIsAvailable, pIsLocked) and of pIndex index nodes.  [val] is `IValue<i64> for NodeId::value`
   restricted to what matters here: the state [leaf n k] gives the content of the k-th value-store
   slot of node n (slot 0 = <Value>, slot i+1 = the i-th <ValueIndexed>, the last one = <ValueDefault>),
   the decoded content of a register node (slot 0; Err E_DEVICE when the device refuses the read) and
   the formula result of converters / swiss knives (slot 0; formulas are C05's business).  Float nodes
   carry integral values, so the `as i64` / `as f64` casts of ivalue.rs are the identity (|v| < 2^53).
   `value()` never consults readability in the code, neither does [val]. *)
From Cam Require Import Outcome.

Definition E_DEVICE : Z := 30.
Definition E_INVALID_NODE : Z := 32.
Definition E_NOIFACE : Z := 90.   (* harness only: the node kind has no such query *)
Definition E_FUEL : Z := 97.

Inductive amode := RO | WO | RW.

Inductive kind :=
| KInteger | KIntReg | KMaskedIntReg | KIntConverter | KIntSwissKnife
| KFloat | KFloatReg | KConverter | KSwissKnife
| KString | KStringReg | KBoolean | KCommand | KEnumeration
| KRegister | KOther.

(* ImmOrPNode<T>: T = i64/f64 literal (IImm; never produced by the parser for value elements, which
   always allocate a value-store slot), T = IntegerId/FloatId/StringId (ISlot k), or a node. *)
Inductive iop :=
| IImm (v : Z)
| ISlot (k : nat)
| INode (n : nat).

(* ValueKind<T> (Value | PValue | PIndex); VOne also stands for the plain ImmOrPNode value of
   Boolean / Command / Enumeration / String nodes. *)
Inductive vsrc :=
| VOne (i : iop)
| VPValue (p : nat) (copies : list nat)
| VPIndex (idx : nat) (entries : list (Z * iop)) (dflt : iop).

Record node := mkNode {
  nkind : kind;
  imposed : amode;            (* ImposedAccessMode, default RW *)
  regmode : amode;            (* AccessMode of register kinds, default RO *)
  p_impl : option nat;
  p_avail : option nat;
  p_lock : option nat;
  nvalue : vsrc;              (* Integer, Float, Boolean, Command, Enumeration, String *)
  conv_pvalue : nat;          (* Converter, IntConverter *)
  vars : list nat;            (* the node of every <pVariable> of converters and swiss knives, whatever
                                 its name: `X`, `X.Value`, `X.Min`, `X.Max`, `X.Inc`, `X.Enum.<Entry>` —
                                 FormulaEnvCollector::is_readable asks `variable.value()` (the NodeId)
                                 of every variable and never looks at the accessor suffix *)
  on_value : Z;               (* Boolean *)
  off_value : Z
}.

Definition store := list node.
Definition state := nat -> nat -> outcome Z.

(* the two repairs of C18; [pinned_cfg] is the code before them *)
Record cfg := mkCfg {
  sk_checks_vars : bool;      (* SwissKnifeNode::is_readable consults its variables *)
  nid_w_enum : bool           (* IValue for NodeId::is_writable has an Enumeration arm *)
}.
Definition fixed_cfg := mkCfg true true.
Definition pinned_cfg := mkCfg false false.

Definition kind_of (s : store) (n : nat) : kind :=
  match nth_error s n with Some nd => nkind nd | None => KOther end.

Definition is_iinteger (k : kind) : bool :=
  match k with KInteger | KIntReg | KMaskedIntReg | KIntConverter | KIntSwissKnife => true | _ => false end.
Definition is_ifloat (k : kind) : bool :=
  match k with KFloat | KFloatReg | KConverter | KSwissKnife => true | _ => false end.
Definition is_istring (k : kind) : bool :=
  match k with KString | KStringReg => true | _ => false end.
Definition is_iboolean (k : kind) : bool := match k with KBoolean => true | _ => false end.
Definition is_ienum (k : kind) : bool := match k with KEnumeration => true | _ => false end.
(* kinds accepted by `IValue<i64|f64> for NodeId::{value,is_readable}` *)
Definition is_numeric (k : kind) : bool := is_iinteger k || is_ifloat k || is_ienum k.
(* kinds accepted by utils::{is_nid_readable,is_nid_writable,expr_from_nid} *)
Definition is_varkind (k : kind) : bool := is_iinteger k || is_ifloat k || is_iboolean k || is_ienum k.

Definition mode_r (m : amode) : bool := match m with RO | RW => true | WO => false end.
Definition mode_w (m : amode) : bool := match m with WO | RW => true | RO => false end.
Definition not_wo (m : amode) : bool := match m with WO => false | _ => true end.
Definition not_ro (m : amode) : bool := match m with RO => false | _ => true end.

(* `a? && b` of Rust: b is evaluated only when a is Ok(true) *)
Definition andl (a : outcome bool) (b : outcome bool) : outcome bool :=
  match a with
  | Ok true => b
  | Ok false => Ok false
  | Err e => Err e
  | Panic => Panic
  end.
Infix "&&?" := andl (at level 40, left associativity).

(* `for x in l { acc &= f(x)?; }` *)
Fixpoint all_amp (f : nat -> outcome bool) (l : list nat) (acc : bool) : outcome bool :=
  match l with
  | [] => Ok acc
  | x :: r => let? b := f x in all_amp f r (acc && b)
  end.

(* `value_indexed.iter().find(|vi| vi.index == index)`, else the default *)
Fixpoint select (i : Z) (es : list (Z * iop)) (d : iop) : iop :=
  match es with
  | [] => d
  | (j, x) :: r => if j =? i then x else select i r d
  end.
Section WithStore.
Variable c : cfg.
Variable s : store.

(* ------------------------------------------------------------------ values *)
(* IValue<i64> for NodeId::value, by kind *)
Fixpoint val (fuel : nat) (st : state) (n : nat) : outcome Z :=
  match fuel with
  | O => Err E_FUEL
  | S f =>
    match nth_error s n with
    | None => Err E_INVALID_NODE
    | Some nd =>
      let iopv (i : iop) : outcome Z :=
        match i with
        | IImm v => Ok v
        | ISlot k => st n k
        | INode m => val f st m
        end in
      match nkind nd with
      | KInteger | KFloat | KEnumeration =>
        match nvalue nd with
        | VOne i => iopv i
        | VPValue p _ => val f st p
        | VPIndex idx es d =>
          if is_iinteger (kind_of s idx) then
            let? i := val f st idx in iopv (select i es d)
          else Err E_INVALID_NODE
        end
      | KIntReg | KMaskedIntReg | KFloatReg
      | KIntConverter | KIntSwissKnife | KConverter | KSwissKnife => st n O
      | _ => Err E_INVALID_NODE
      end
    end
  end.

(* IBoolean::value of a Boolean node *)
Definition bool_value (fuel : nat) (st : state) (n : nat) : outcome bool :=
  match fuel with
  | O => Err E_FUEL
  | S f =>
    match nth_error s n with
    | None => Err E_INVALID_NODE
    | Some nd =>
      let? raw := match nvalue nd with
                  | VOne (IImm v) => Ok v
                  | VOne (ISlot k) => st n k
                  | VOne (INode m) => val f st m
                  | _ => Err E_INVALID_NODE
                  end in
      if raw =? on_value nd then Ok true
      else if raw =? off_value nd then Ok false
      else Err E_INVALID_NODE
    end
  end.

(* utils::bool_from_id *)
Definition bool_from_id (fuel : nat) (st : state) (n : nat) : outcome bool :=
  if is_iboolean (kind_of s n) then bool_value fuel st n
  else if is_iinteger (kind_of s n) then let? v := val fuel st n in Ok (v =? 1)
  else Err E_INVALID_NODE.

(* ------------------------------------------------------------ is_readable *)
(* The body of the node-level functions, with the recursive calls abstracted:
     rd m / wr m   is_readable / is_writable of node m through the interface of its kind
     vl m          IInteger::value of node m            bfi m   bool_from_id m *)

(* IValue<i64|f64> for NodeId::is_readable *)
Definition nid_r (rd : nat -> outcome bool) (m : nat) : outcome bool :=
  if is_numeric (kind_of s m) then rd m else Ok false.
(* IValue<String> for NodeId::{is_readable,is_writable}: expect_istring_kind(store)? *)
Definition str_q (q : nat -> outcome bool) (m : nat) : outcome bool :=
  if is_istring (kind_of s m) then q m else Err E_INVALID_NODE.
(* utils::{is_nid_readable,is_nid_writable} *)
Definition var_q (q : nat -> outcome bool) (m : nat) : outcome bool :=
  if is_varkind (kind_of s m) then q m else Err E_INVALID_NODE.
(* ImmOrPNode::is_readable: i64/f64 literals and value ids are readable *)
Definition iop_r (rd : nat -> outcome bool) (i : iop) : outcome bool :=
  match i with
  | IImm _ => Ok true
  | ISlot _ => Ok true
  | INode m => nid_r rd m
  end.

(* NodeElementBase::{is_implemented,is_available,is_locked} *)
Definition ctlq (bfi : nat -> outcome bool) (r : option nat) (dflt : bool) : outcome bool :=
  match r with
  | None => Ok dflt
  | Some n => bfi n
  end.
(* NodeElementBase::is_readable *)
Definition base_r (bfi : nat -> outcome bool) (nd : node) : outcome bool :=
  ctlq bfi (p_impl nd) true &&? ctlq bfi (p_avail nd) true &&? Ok (mode_r (imposed nd)).
(* NodeElementBase::is_writable *)
Definition base_w (bfi : nat -> outcome bool) (nd : node) : outcome bool :=
  ctlq bfi (p_impl nd) true &&? ctlq bfi (p_avail nd) true
  &&? omap negb (ctlq bfi (p_lock nd) false) &&? Ok (mode_w (imposed nd)).

Definition readable_step (rd : nat -> outcome bool) (vl : nat -> outcome Z) (bfi : nat -> outcome bool)
           (nd : node) : outcome bool :=
  let base := base_r bfi nd in
  match nkind nd with
  | KInteger | KFloat =>
    base &&?
    match nvalue nd with
    | VOne i => iop_r rd i
    | VPValue p _ => nid_r rd p
    | VPIndex idx es d =>
      (* p_index.expect_iinteger_kind(store)?.is_readable()? && { index()?; selected.is_readable()? } *)
      if is_iinteger (kind_of s idx) then
        rd idx &&? (let? i := vl idx in iop_r rd (select i es d))
      else Err E_INVALID_NODE
    end
  | KBoolean | KEnumeration =>
    base &&? match nvalue nd with VOne i => iop_r rd i | _ => Err E_INVALID_NODE end
  | KString =>
    base &&? match nvalue nd with
             | VOne (INode m) => str_q rd m
             | VOne _ => Ok true
             | _ => Err E_INVALID_NODE
             end
  | KIntReg | KMaskedIntReg | KFloatReg | KStringReg =>
    base &&? Ok (not_wo (regmode nd))
  | KIntConverter | KConverter =>
    base &&? var_q rd (conv_pvalue nd) &&? all_amp (var_q rd) (vars nd) true
  | KIntSwissKnife => base &&? all_amp (var_q rd) (vars nd) true
  | KSwissKnife =>
    if sk_checks_vars c then base &&? all_amp (var_q rd) (vars nd) true else base
  | KCommand | KRegister | KOther => Err E_NOIFACE
  end.

Fixpoint is_readable (fuel : nat) (st : state) (n : nat) : outcome bool :=
  match fuel with
  | O => Err E_FUEL
  | S f =>
    match nth_error s n with
    | None => Err E_NOIFACE
    | Some nd => readable_step (is_readable f st) (val f st) (bool_from_id f st) nd
    end
  end.

(* ------------------------------------------------------------ is_writable *)
(* IValue<i64|f64> for NodeId::is_writable *)
Definition nid_w (wr : nat -> outcome bool) (m : nat) : outcome bool :=
  let k := kind_of s m in
  if is_iinteger k || is_ifloat k || (nid_w_enum c && is_ienum k) then wr m else Ok false.
(* ImmOrPNode::is_writable: a literal is not writable, a value id is *)
Definition iop_w (wr : nat -> outcome bool) (i : iop) : outcome bool :=
  match i with
  | IImm _ => Ok false
  | ISlot _ => Ok true
  | INode m => nid_w wr m
  end.

Definition writable_step (wr rd : nat -> outcome bool) (vl : nat -> outcome Z) (bfi : nat -> outcome bool)
           (nd : node) : outcome bool :=
  let base := base_w bfi nd in
  match nkind nd with
  | KInteger | KFloat =>
    base &&?
    match nvalue nd with
    | VOne i => iop_w wr i
    | VPValue p cs => let? b := nid_w wr p in all_amp (nid_w wr) cs b
    | VPIndex idx es d =>
      if is_iinteger (kind_of s idx) then
        rd idx &&? (let? i := vl idx in iop_w wr (select i es d))
      else Err E_INVALID_NODE
    end
  | KBoolean | KEnumeration | KCommand =>
    base &&? match nvalue nd with VOne i => iop_w wr i | _ => Err E_INVALID_NODE end
  | KString =>
    base &&? match nvalue nd with
             | VOne (INode m) => str_q wr m
             | VOne (ISlot _) => Ok true
             | VOne (IImm _) => Ok false
             | _ => Err E_INVALID_NODE
             end
  | KIntReg | KMaskedIntReg | KFloatReg | KStringReg =>
    base &&? Ok (not_ro (regmode nd))
  | KIntConverter | KConverter =>
    (* the collector must be readable to write a value *)
    base &&? var_q wr (conv_pvalue nd) &&? all_amp (var_q rd) (vars nd) true
  | KIntSwissKnife | KSwissKnife => Ok false
  | KRegister | KOther => Err E_NOIFACE
  end.

Fixpoint is_writable (fuel : nat) (st : state) (n : nat) : outcome bool :=
  match fuel with
  | O => Err E_FUEL
  | S f =>
    match nth_error s n with
    | None => Err E_NOIFACE
    | Some nd =>
      writable_step (is_writable f st) (is_readable f st) (val f st) (bool_from_id f st) nd
    end
  end.

End WithStore.

(* the current values as the specification (spec/AccessSpec.v) takes them *)
Definition iv (s : store) (F : nat) (st : state) (m : nat) : option Z :=
  match val s F st m with Ok v => Some v | _ => None end.
Definition bv (s : store) (F : nat) (st : state) (m : nat) : option bool :=
  match bool_value s F st m with Ok b => Some b | _ => None end.

(* one step of a history as the model sees it: a leaf (value slot, register content, formula result)
   takes a new value; everything else stays *)
Definition upd (st : state) (a b : nat) (v : outcome Z) : state :=
  fun x y => if (Nat.eqb x a && Nat.eqb y b)%bool then v else st x y.

(* ---------------------------------------------------------------- running *)
Definition show_b (x : outcome bool) : Z :=
  match x with
  | Ok false => 0
  | Ok true => 1
  | Err e => 100 + e
  | Panic => 2
  end.

Fixpoint lookup (l : list (nat * nat * outcome Z)) (n k : nat) : outcome Z :=
  match l with
  | [] => Err E_DEVICE
  | (n', k', v) :: r => if (Nat.eqb n n' && Nat.eqb k k')%bool then v else lookup r n k
  end.
Definition st_of (l : list (nat * nat * outcome Z)) : state := lookup l.

(* verdicts (is_readable, is_writable) of every node of the store in one state *)
Definition verdicts (c : cfg) (s : store) (st : state) : list Z :=
  let fuel := S (length s) in
  flat_map (fun n => [show_b (is_readable c s fuel st n); show_b (is_writable c s fuel st n)])
           (seq 0 (length s)).

(* one case of the correspondence: the verdicts in every state of a history *)
Definition run_acc (c : cfg) (s : store) (sts : list (list (nat * nat * outcome Z))) : list Z :=
  flat_map (fun l => verdicts c s (st_of l)) sts.

(* compact constructor used by the generated cases *)
Definition N (k : kind) (im rm : amode) (pi pa pl : option nat) (v : vsrc) (pv : nat) (vs : list nat)
           (onv offv : Z) : node := mkNode k im rm pi pa pl v pv vs onv offv.
Definition sm (n : nat) : option nat := Some n.
Definition nl (l : list Z) : list nat := map Z.to_nat l.
Definition E (n k : nat) (v : outcome Z) : nat * nat * outcome Z := (n, k, v).
