(* Model of /repo/genapi/src/formula.rs, syntax part (property C05): Token, Lexer, Parser.

   The Rust lexer is lazy (one token of look-ahead, produced on demand from the current byte
   position), and `parse` ignores whatever follows the expression.  The model keeps that shape:
   the parser is written over an abstract token stream [St] with [next : St -> outcome (option
   (token * St))]; it is instantiated (a) on the byte list with [lex1] (what the code does) and
   (b) on a token list (for the token-level round-trip theorems).

   The parser is ONE fuel-indexed function [p] with a mode argument:
     MExpr          Parser::expr      (ternary, right associative)
     MLevel l       the l-th `parse_binop!` level, l = 1 (logical_or) .. 10 (factor)
     MLoop l lhs    the `loop { ... }` of that macro with the accumulated left operand
     MUnop MPow MPrimary
   Rust panics (assert! in expect, unwrap in next_ident / from_str, panic! on an unknown character
   or function name) are [Panic].  [fixd = false] is the function table before the `fix:` commit
   that added SGN.

   Characters are bytes (Z).  Bytes >= 128 are not modelled (the lexer model panics on them at a
   token start); the generator never produces them. *)
From Cam Require Import Outcome Formula FuncTable.

Inductive token :=
| TLParen | TRParen | TPlus | TMinus | TStar | TDoubleStar | TSlash | TPercent | TAnd | TDoubleAnd
| TOr | TDoubleOr | TCaret | TTilde | TEq | TNe | TColon | TQuestion | TLt | TLe | TGt | TGe
| TShl | TShr
| TIdent (s : ident) | TFloat (b : Z) | TInteger (i : Z).

(* declaration order of `enum Token` *)
Definition tok_code (t : token) : Z :=
  match t with
  | TLParen => 0 | TRParen => 1 | TPlus => 2 | TMinus => 3 | TStar => 4 | TDoubleStar => 5
  | TSlash => 6 | TPercent => 7 | TAnd => 8 | TDoubleAnd => 9 | TOr => 10 | TDoubleOr => 11
  | TCaret => 12 | TTilde => 13 | TEq => 14 | TNe => 15 | TColon => 16 | TQuestion => 17
  | TLt => 18 | TLe => 19 | TGt => 20 | TGe => 21 | TShl => 22 | TShr => 23
  | TIdent _ => 24 | TFloat _ => 25 | TInteger _ => 26
  end.

Definition ident_eqb (a b : ident) : bool := if list_eq_dec Z.eq_dec a b then true else false.

(* derived PartialEq of Token (only ever used with a payload-free right-hand side) *)
Definition tok_eqb (a b : token) : bool :=
  match a, b with
  | TIdent x, TIdent y => ident_eqb x y
  | TFloat x, TFloat y => x =? y
  | TInteger x, TInteger y => x =? y
  | _, _ => tok_code a =? tok_code b
  end.

(* ------------------------------------------------------------------ tables -- *)
Definition unop_of_code (c : Z) : option unop := find (fun k => unop_code k =? c) all_unops.
Definition binop_of_code (c : Z) : option binop := find (fun k => binop_code k =? c) all_binops.

(* Parser::primary function-name match (regenerated table gen/FuncTable.v) *)
Definition func_of_name (fixd : bool) (s : ident) : option unop :=
  match lookup s gen_func_table with
  | Some c => if negb fixd && (c =? 2) then None else unop_of_code c
  | None => None
  end.
(* Parser::next_float constant names *)
Definition const_of_name (s : ident) : option Z := lookup s gen_const_table.

Definition NLEV : nat := 10.
(* the (Token, BinOpKind) pairs of the parse_binop! invocations, outermost level = 1 *)
Definition level_ops (l : nat) : list (token * binop) :=
  match l with
  | 1 => [(TDoubleOr, BOr)]
  | 2 => [(TDoubleAnd, BAnd)]
  | 3 => [(TOr, BBitOr)]
  | 4 => [(TCaret, BXor)]
  | 5 => [(TAnd, BBitAnd)]
  | 6 => [(TEq, BEq); (TNe, BNe)]
  | 7 => [(TLt, BLt); (TLe, BLe); (TGt, BGt); (TGe, BGe)]
  | 8 => [(TShl, BShl); (TShr, BShr)]
  | 9 => [(TPlus, BAdd); (TMinus, BSub)]
  | 10 => [(TStar, BMul); (TSlash, BDiv); (TPercent, BRem)]
  | _ => []
  end%nat.

Fixpoint find_op (ops : list (token * binop)) (t : token) : option binop :=
  match ops with
  | [] => None
  | (t', k) :: r => if tok_eqb t t' then Some k else find_op r t
  end.

(* ------------------------------------------------------------------ parser -- *)
Inductive mode :=
| MExpr | MLevel (l : nat) | MLoop (l : nat) (lhs : expr) | MUnop | MPow | MPrimary.

Definition sub_mode (l : nat) : mode := if (NLEV <=? l)%nat then MUnop else MLevel (S l).

Section Parser.
  Variable St : Type.
  Variable next : St -> outcome (option (token * St)).
  Variable fixd : bool.

  (* Parser::eat: peek, compare, consume on equality *)
  Definition eat (tok : token) (s : St) : outcome (bool * St) :=
    let? o := next s in
    match o with
    | Some (t, s') => if tok_eqb t tok then Ok (true, s') else Ok (false, s)
    | None => Ok (false, s)
    end.
  (* Parser::expect: assert!(self.eat(tok)) *)
  Definition expect (tok : token) (s : St) : outcome St :=
    let? (b, s') := eat tok s in if b then Ok s' else Panic.

  Fixpoint p (fuel : nat) (m : mode) (s : St) {struct fuel} : outcome (expr * St) :=
    match fuel with
    | O => Err E_FUEL
    | S f =>
      match m with
      | MExpr =>
          let? (c, s1) := p f (MLevel 1) s in
          let? (q, s2) := eat TQuestion s1 in
          if q then
            let? (t, s3) := p f MExpr s2 in
            let? s4 := expect TColon s3 in
            let? (e, s5) := p f MExpr s4 in
            Ok (EIf c t e, s5)
          else Ok (c, s2)
      | MLevel l =>
          let? (lhs, s1) := p f (sub_mode l) s in
          p f (MLoop l lhs) s1
      | MLoop l lhs =>
          let? o := next s in
          match o with
          | Some (t, s1) =>
              match find_op (level_ops l) t with
              | Some k =>
                  let? (rhs, s2) := p f (sub_mode l) s1 in
                  p f (MLoop l (EBin k lhs rhs)) s2
              | None => Ok (lhs, s)
              end
          | None => Ok (lhs, s)
          end
      | MUnop =>
          let? (b, s1) := eat TTilde s in
          if b then (let? (e, s2) := p f MUnop s1 in Ok (EUn UNot e, s2)) else
          let? (b, s1) := eat TMinus s in
          if b then (let? (e, s2) := p f MUnop s1 in Ok (EUn UNeg e, s2)) else
          let? (_, s1) := eat TPlus s in      (* "Eat unary `+` if exists." *)
          p f MPow s1
      | MPow =>
          let? (b, s1) := p f MPrimary s in
          let? (q, s2) := eat TDoubleStar s1 in
          if q then (let? (r, s3) := p f MUnop s2 in Ok (EBin BPow b r, s3)) else Ok (b, s2)
      | MPrimary =>
          let? o := next s in
          match o with
          | Some (TLParen, s1) =>
              let? (e, s2) := p f MExpr s1 in
              let? s3 := expect TRParen s2 in
              Ok (e, s3)
          | Some (TInteger i, s1) => Ok (EInt i, s1)
          | Some (TFloat b, s1) => Ok (EFloat b, s1)
          | Some (TIdent n, s1) =>
              match const_of_name n with
              | Some b => Ok (EFloat b, s1)                       (* next_float: PI, E *)
              | None =>
                  let? (q, s2) := eat TLParen s1 in
                  if q then
                    match func_of_name fixd n with
                    | None => Panic                               (* "... is not a keyword or function name" *)
                    | Some k =>
                        let? (e, s3) := p f MExpr s2 in
                        let? s4 := expect TRParen s3 in
                        Ok (EUn k e, s4)
                    end
                  else Ok (EIdent n, s2)
              end
          | _ => Panic                                            (* next_ident().unwrap() on None *)
          end
      end
    end.

  (* formula::parse: Parser { lexer }.expr(); the rest of the stream is dropped *)
  Definition parse_with (fuel : nat) (s : St) : outcome expr := omap fst (p fuel MExpr s).
End Parser.

(* ------------------------------------------------------------------- lexer -- *)
Fixpoint strip_prefix (pre s : list Z) : option (list Z) :=
  match pre, s with
  | [], _ => Some s
  | a :: p', b :: s' => if a =? b then strip_prefix p' s' else None
  | _ :: _, [] => None
  end.

(* Lexer::peek_char / next_char: entity decoding of &amp; &lt; &gt; *)
Definition next_char (s : list Z) : option (Z * list Z) :=
  match strip_prefix [38; 97; 109; 112; 59] s with
  | Some r => Some (38, r)
  | None =>
    match strip_prefix [38; 108; 116; 59] s with
    | Some r => Some (60, r)
    | None =>
      match strip_prefix [38; 103; 116; 59] s with
      | Some r => Some (62, r)
      | None => match s with c :: r => Some (c, r) | [] => None end
      end
    end
  end.

(* Lexer::eat_char *)
Definition eat_char (pr : Z -> bool) (s : list Z) : option (list Z) :=
  match next_char s with
  | Some (c, r) => if pr c then Some r else None
  | None => None
  end.

(* `while self.eat_char(pr) {}`; returns the consumed (decoded) characters and the rest *)
Fixpoint take_while (n : nat) (pr : Z -> bool) (s : list Z) : list Z * list Z :=
  match n with
  | O => ([], s)
  | S n' =>
      match next_char s with
      | Some (c, r) => if pr c then (let (a, b) := take_while n' pr r in (c :: a, b)) else ([], s)
      | None => ([], s)
      end
  end.

Definition is_space (c : Z) : bool := (c <=? 32) || (c =? 127) || (c =? 133) || (c =? 160).
Definition is_digit (c : Z) : bool := (48 <=? c) && (c <=? 57).
Definition is_alpha (c : Z) : bool := ((65 <=? c) && (c <=? 90)) || ((97 <=? c) && (c <=? 122)).
Definition is_hex (c : Z) : bool :=
  is_digit c || ((65 <=? c) && (c <=? 70)) || ((97 <=? c) && (c <=? 102)).
Definition is_ident_char (c : Z) : bool := is_alpha c || is_digit c || (c =? 46) || (c =? 95).
Definition is_num_char (c : Z) : bool := is_digit c || (c =? 46).

Definition hex_val (c : Z) : Z :=
  if is_digit c then c - 48 else if 97 <=? c then c - 87 else c - 55.
Definition digits_val (base : Z) (ds : list Z) : Z :=
  fold_left (fun acc d => acc * base + hex_val d) ds 0.
Definition count_dots (s : list Z) : nat := length (filter (Z.eqb 46) s).

Section Lexer.
  Variable fops : float_ops.

  (* Lexer::peek on an empty look-ahead: one token from the byte position, or None at the end *)
  Definition lex1 (s0 : list Z) : outcome (option (token * list Z)) :=
    let s := snd (take_while (length s0) is_space s0) in
    match next_char s with
    | None => Ok None
    | Some (c, r) =>
      let n := length r in
      let tk (t : token) (r' : list Z) : outcome (option (token * list Z)) := Ok (Some (t, r')) in
      if c =? 40 then tk TLParen r
      else if c =? 41 then tk TRParen r
      else if c =? 43 then tk TPlus r
      else if c =? 45 then tk TMinus r
      else if c =? 42 then
        match eat_char (Z.eqb 42) r with Some r' => tk TDoubleStar r' | None => tk TStar r end
      else if c =? 47 then tk TSlash r
      else if c =? 37 then tk TPercent r
      else if c =? 38 then
        match eat_char (Z.eqb 38) r with Some r' => tk TDoubleAnd r' | None => tk TAnd r end
      else if c =? 124 then
        match eat_char (Z.eqb 124) r with Some r' => tk TDoubleOr r' | None => tk TOr r end
      else if c =? 94 then tk TCaret r
      else if c =? 126 then tk TTilde r
      else if c =? 61 then tk TEq r
      else if c =? 58 then tk TColon r
      else if c =? 63 then tk TQuestion r
      else if c =? 60 then
        match eat_char (Z.eqb 62) r with
        | Some r' => tk TNe r'
        | None =>
          match eat_char (Z.eqb 61) r with
          | Some r' => tk TLe r'
          | None => match eat_char (Z.eqb 60) r with Some r' => tk TShl r' | None => tk TLt r end
          end
        end
      else if c =? 62 then
        match eat_char (Z.eqb 61) r with
        | Some r' => tk TGe r'
        | None => match eat_char (Z.eqb 62) r with Some r' => tk TShr r' | None => tk TGt r end
        end
      else if c =? 46 then
        let (ds, r') := take_while n is_digit r in
        match ds with
        | [] => Panic                                   (* f64::from_str(".").unwrap() *)
        | _ => tk (TFloat (f_lit fops (46 :: ds))) r'
        end
      else if is_alpha c then
        let (cs, r') := take_while n is_ident_char r in tk (TIdent (c :: cs)) r'
      else if is_digit c then
        match (if c =? 48 then eat_char (Z.eqb 120) r else None) with
        | Some r1 =>
            let (ds, r') := take_while (length r1) is_hex r1 in
            match ds with
            | [] => Panic                               (* from_str_radix("", 16).unwrap() *)
            | _ => let v := digits_val 16 ds in
                   if v <=? I64_MAX then tk (TInteger v) r' else Panic
            end
        | None =>
            let (cs, r') := take_while n is_num_char r in
            let txt := c :: cs in
            match count_dots txt with
            | O => let v := digits_val 10 txt in
                   if v <=? I64_MAX then tk (TInteger v) r' else Panic
            | S O => tk (TFloat (f_lit fops txt)) r'
            | _ => Panic                                (* f64::from_str("1.2.3").unwrap() *)
            end
        end
      else Panic                                        (* "unexpected character" *)
    end.

  (* all tokens of a source (used only to state lexer facts; the parser lexes lazily) *)
  Fixpoint lex_all (n : nat) (s : list Z) : outcome (list token) :=
    match n with
    | O => Err E_FUEL
    | S n' =>
        let? o := lex1 s in
        match o with
        | None => Ok []
        | Some (t, r) => let? ts := lex_all n' r in Ok (t :: ts)
        end
    end.

  (* formula::parse on source bytes *)
  Definition parse_src (fixd : bool) (fuel : nat) (src : list Z) : outcome expr :=
    parse_with (list Z) lex1 fixd fuel src.
End Lexer.

(* the parser over a token list *)
Definition next_tok (ts : list token) : outcome (option (token * list token)) :=
  Ok (match ts with [] => None | t :: r => Some (t, r) end).
Definition ptok := p (list token) next_tok true.
Definition parse_toks (fuel : nat) (ts : list token) : outcome expr :=
  parse_with (list token) next_tok true fuel ts.

(* -------------------------------------------- correspondence entry point -- *)
(* case `fe`: parse the source, print the AST, evaluate in the environment *)
Definition run_fe (fops : float_ops) (src : list Z) (env : list (ident * expr)) : list Z :=
  let fuel := (20 * (length src + 4))%nat in
  match parse_src fops true fuel src with
  | Ok e =>
      let a := show_expr e in
      0 :: zlen a :: a ++ show_outcome show_res (eval fops true 64 env e)
  | Err c => [1; c]
  | Panic => [2]
  end.
(* an environment entry given as source text *)
Definition env_src (fops : float_ops) (src : list Z) : expr :=
  match parse_src fops true (20 * (length src + 4))%nat src with Ok e => e | _ => EIdent [] end.
