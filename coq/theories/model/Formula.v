(* Model of /repo/genapi/src/formula.rs, evaluation part (property C05):
   Expr, EvaluationResult (as_integer / as_float / as_bool), Expr::eval, eval_binop, eval_unop.

   An f64 is carried as its 64-bit pattern (a Z in [0, 2^64)).  Operations on floats that are
   pure bit manipulation (neg, abs, signum, "!= 0.0") are written out on the pattern; the
   arithmetic ones (+ - * / % powf, comparison, i64 <-> f64 conversion, libm functions,
   trunc/floor/ceil/round, decimal literal conversion) are the fields of a record [float_ops]
   which the model takes as a Section variable: every theorem of P_C05 holds for ALL such records.
   model/FormulaFlocq.v gives the instance used by the correspondence (Flocq binary64 + a per-case
   table for libm results).

   [fixd = true] is the code as it is now; [fixd = false] is the code before the `fix:` commits
   of C05 (integer `% 0` and `-x`/`ABS(x)` at i64::MIN panic; the exponent of an integer `**` is
   truncated to 32 bits).  Overflow checks are on
   (debug build): the code uses overflowing_* / wrapping_* everywhere after the fixes, so nothing
   depends on the flag any more. *)
From Cam Require Import Outcome.

Inductive binop :=
| BAdd | BSub | BMul | BDiv | BRem | BPow | BShl | BShr | BAnd | BOr
| BEq | BNe | BLt | BLe | BGt | BGe | BBitAnd | BBitOr | BXor.

Inductive unop :=
| UNot | UAbs | USgn | UNeg | USin | UCos | UTan | UAsin | UAcos | UAtan
| UExp | ULn | ULg | USqrt | UTrunc | UFloor | UCeil | URound.

Definition ident := list Z.          (* bytes of the identifier *)

Inductive expr :=
| EBin (k : binop) (l r : expr)
| EUn (k : unop) (e : expr)
| EIf (c t f : expr)
| EInt (i : Z)
| EFloat (b : Z)
| EIdent (s : ident).

Inductive res := RInt (i : Z) | RFloat (b : Z).

(* declaration order of BinOpKind / UnOpKind in formula.rs *)
Definition binop_code (k : binop) : Z :=
  match k with
  | BAdd => 0 | BSub => 1 | BMul => 2 | BDiv => 3 | BRem => 4 | BPow => 5 | BShl => 6 | BShr => 7
  | BAnd => 8 | BOr => 9 | BEq => 10 | BNe => 11 | BLt => 12 | BLe => 13 | BGt => 14 | BGe => 15
  | BBitAnd => 16 | BBitOr => 17 | BXor => 18
  end.
Definition unop_code (k : unop) : Z :=
  match k with
  | UNot => 0 | UAbs => 1 | USgn => 2 | UNeg => 3 | USin => 4 | UCos => 5 | UTan => 6 | UAsin => 7
  | UAcos => 8 | UAtan => 9 | UExp => 10 | ULn => 11 | ULg => 12 | USqrt => 13 | UTrunc => 14
  | UFloor => 15 | UCeil => 16 | URound => 17
  end.
Definition all_unops : list unop :=
  [UNot; UAbs; USgn; UNeg; USin; UCos; UTan; UAsin; UAcos; UAtan; UExp; ULn; ULg; USqrt; UTrunc;
   UFloor; UCeil; URound].
Definition all_binops : list binop :=
  [BAdd; BSub; BMul; BDiv; BRem; BPow; BShl; BShr; BAnd; BOr; BEq; BNe; BLt; BLe; BGt; BGe;
   BBitAnd; BBitOr; BXor].

(* error classes (the harness maps GenApiError variants to the same numbers) *)
Definition E_INVALID_NODE : Z := 32.    (* unknown identifier *)
Definition E_INVALID_DATA : Z := 33.    (* integer remainder by zero *)
Definition E_FUEL : Z := 98.            (* model only: reference chain of the environment deeper than the fuel *)

Record float_ops := {
  f_add : Z -> Z -> Z;
  f_sub : Z -> Z -> Z;
  f_mul : Z -> Z -> Z;
  f_div : Z -> Z -> Z;
  f_rem : Z -> Z -> Z;                       (* f64 % f64 (fmod) *)
  f_pow : Z -> Z -> Z;                       (* f64::powf *)
  f_cmp : Z -> Z -> option comparison;       (* partial_cmp: None = unordered *)
  f_of_int : Z -> Z;                         (* i64 as f64 *)
  f_trunc_z : Z -> Z;                        (* integer part of the value (anything beyond +-2^63 for
                                                infinities, 0 for NaN); `f as i64` is its clamp *)
  f_fun : unop -> Z -> Z;                    (* sin cos tan asin acos atan exp ln log10 sqrt trunc floor ceil round *)
  f_lit : list Z -> Z                        (* f64::from_str on a decimal literal (used by the lexer) *)
}.

Definition I64_MIN : Z := - 2 ^ 63.
Definition I64_MAX : Z := 2 ^ 63 - 1.
Definition in_i64 (z : Z) : Prop := I64_MIN <= z <= I64_MAX.
Definition clamp64 (z : Z) : Z := Z.max I64_MIN (Z.min I64_MAX z).

(* bit-pattern level float helpers *)
Definition SIGN_BIT : Z := 2 ^ 63.
Definition F_ONE : Z := 4607182418800017408.         (* 0x3FF0000000000000 *)
Definition F_NEG_ONE : Z := 13830554455654793216.    (* 0xBFF0000000000000 *)
Definition F_NAN : Z := 9221120237041090560.         (* 0x7FF8000000000000 *)
Definition F_INF : Z := 9218868437227405312.         (* 0x7FF0000000000000 *)
Definition fb_is_nan (b : Z) : bool := F_INF <? b mod SIGN_BIT.
Definition fb_neg (b : Z) : Z := if b <? SIGN_BIT then b + SIGN_BIT else b - SIGN_BIT.
Definition fb_abs (b : Z) : Z := b mod SIGN_BIT.
Definition fb_signum (b : Z) : Z :=
  if fb_is_nan b then F_NAN else if b <? SIGN_BIT then F_ONE else F_NEG_ONE.
Definition fb_nonzero (b : Z) : bool := negb (b mod SIGN_BIT =? 0).

(* Integer power, as the loop of formula.rs `wrapping_pow` (and of i64::overflowing_pow, which the
   code used before with the exponent cast to u32): binary exponentiation from the least
   significant exponent bit, every product wrapped to 64 bits. *)
Fixpoint wpow_loop (acc base : Z) (p : positive) : Z :=
  match p with
  | xH => sw 64 (acc * base)
  | xO q => wpow_loop acc (sw 64 (base * base)) q
  | xI q => wpow_loop (sw 64 (acc * base)) (sw 64 (base * base)) q
  end.
Definition pow_wrap (b n : Z) : Z :=
  match n with
  | Zpos p => wpow_loop 1 b p
  | _ => 1
  end.

Fixpoint lookup {A} (s : ident) (env : list (ident * A)) : option A :=
  match env with
  | [] => None
  | (n, v) :: r => if list_eq_dec Z.eq_dec n s then Some v else lookup s r
  end.

Section Eval.
  Variable fops : float_ops.
  Variable fixd : bool.

  Definition is_integer (r : res) : bool := match r with RInt _ => true | RFloat _ => false end.
  Definition as_integer (r : res) : Z :=
    match r with RInt i => i | RFloat b => clamp64 (f_trunc_z fops b) end.
  Definition as_float (r : res) : Z :=
    match r with RInt i => f_of_int fops i | RFloat b => b end.
  Definition as_bool (r : res) : bool :=
    match r with RInt i => negb (i =? 0) | RFloat b => fb_nonzero b end.
  Definition of_bool (b : bool) : res := RInt (if b then 1 else 0).

  (* apply_arithmetic_op!: integer (overflowing_*, wrapped) iff both operands are integers *)
  Definition arith (fi ff : Z -> Z -> Z) (l r : res) : res :=
    if is_integer l && is_integer r then RInt (sw 64 (fi (as_integer l) (as_integer r)))
    else RFloat (ff (as_float l) (as_float r)).

  Definition cmp_test (k : binop) (c : option comparison) : bool :=
    match k, c with
    | BEq, Some Eq => true
    | BNe, Some Eq => false
    | BNe, _ => true
    | BLt, Some Lt => true
    | BLe, Some Lt => true
    | BLe, Some Eq => true
    | BGt, Some Gt => true
    | BGe, Some Gt => true
    | BGe, Some Eq => true
    | _, _ => false
    end.
  (* apply_cmp_op! *)
  Definition compare_res (k : binop) (l r : res) : res :=
    of_bool (cmp_test k (if is_integer l && is_integer r then Some (as_integer l ?= as_integer r)
                         else f_cmp fops (as_float l) (as_float r))).

  (* eval_binop for every operator except && and || (both operands already evaluated) *)
  Definition binop_strict (k : binop) (l r : res) : outcome res :=
    match k with
    | BAdd => Ok (arith Z.add (f_add fops) l r)
    | BSub => Ok (arith Z.sub (f_sub fops) l r)
    | BMul => Ok (arith Z.mul (f_mul fops) l r)
    | BDiv => Ok (RFloat (f_div fops (as_float l) (as_float r)))
    | BRem =>
        if is_integer l && is_integer r && (as_integer r =? 0)
        then (if fixd then Err E_INVALID_DATA else Panic)     (* before the fix: overflowing_rem panics *)
        else Ok (arith Z.rem (f_rem fops) l r)
    | BPow =>
        if is_integer l && is_integer r && (0 <=? as_integer r)
        then Ok (RInt (pow_wrap (as_integer l)
                        (if fixd then as_integer r else as_integer r mod 2 ^ 32)))  (* before the fix: `as u32` *)
        else Ok (RFloat (f_pow fops (as_float l) (as_float r)))
    | BEq | BNe | BLt | BLe | BGt | BGe => Ok (compare_res k l r)
    | BShl => Ok (RInt (sw 64 (Z.shiftl (as_integer l) (as_integer r mod 64))))
    | BShr => Ok (RInt (Z.shiftr (as_integer l) (as_integer r mod 64)))
    | BBitAnd => Ok (RInt (Z.land (as_integer l) (as_integer r)))
    | BBitOr => Ok (RInt (Z.lor (as_integer l) (as_integer r)))
    | BXor => Ok (RInt (Z.lxor (as_integer l) (as_integer r)))
    | BAnd | BOr => Panic                                      (* unreachable!() *)
    end.

  Definition unop_apply (k : unop) (r : res) : outcome res :=
    match k with
    | UNot => Ok (RInt (Z.lnot (as_integer r)))
    | UAbs =>
        match r with
        | RInt i => if fixd then Ok (RInt (sw 64 (Z.abs i))) else omap RInt (chk_s 64 (Z.abs i))
        | RFloat b => Ok (RFloat (fb_abs b))
        end
    | USgn =>
        match r with
        | RInt i => Ok (RInt (Z.sgn i))
        | RFloat b => Ok (RFloat (fb_signum b))
        end
    | UNeg =>
        match r with
        | RInt i => if fixd then Ok (RInt (sw 64 (- i))) else omap RInt (chk_s 64 (- i))
        | RFloat b => Ok (RFloat (fb_neg b))
        end
    | _ => Ok (RFloat (f_fun fops k (as_float r)))
    end.

  (* Expr::eval.  Identifiers are bound to expressions (as in the HashMap<K, V: Borrow<Expr>> of the
     code) which are evaluated in the same environment; only this step consumes fuel. *)
  Fixpoint eval (fuel : nat) (env : list (ident * expr)) : expr -> outcome res :=
    fix ev (e : expr) : outcome res :=
      match e with
      | EBin BAnd l r =>
          let? a := ev l in
          if as_bool a then (let? b := ev r in Ok (of_bool (as_bool b))) else Ok (of_bool false)
      | EBin BOr l r =>
          let? a := ev l in
          if as_bool a then Ok (of_bool true) else (let? b := ev r in Ok (of_bool (as_bool b)))
      | EBin k l r => let? a := ev l in let? b := ev r in binop_strict k a b
      | EUn k x => let? a := ev x in unop_apply k a
      | EIf c t f => let? a := ev c in if as_bool a then ev t else ev f
      | EInt i => Ok (RInt i)
      | EFloat b => Ok (RFloat b)
      | EIdent s =>
          match lookup s env with
          | None => Err E_INVALID_NODE
          | Some e' => match fuel with O => Err E_FUEL | S f => eval f env e' end
          end
      end.
End Eval.

(* canonical printing for the correspondence *)
Definition show_res (r : res) : list Z :=
  match r with
  | RInt i => [0; i]
  | RFloat b => [1; if fb_is_nan b then F_NAN else b]
  end.

Fixpoint show_expr (e : expr) : list Z :=
  match e with
  | EBin k l r => 1 :: binop_code k :: show_expr l ++ show_expr r
  | EUn k x => 2 :: unop_code k :: show_expr x
  | EIf c t f => 3 :: show_expr c ++ show_expr t ++ show_expr f
  | EInt i => [4; i]
  | EFloat b => [5; if fb_is_nan b then F_NAN else b]
  | EIdent s => 6 :: zlen s :: s
  end.
