(* Meaning of the operations that tools/translate_cachepath.py emits for the register caching path of /repo/genapi
   (gen/CachePathSrc.v): RegisterBase::{with_cache_or_read, read_and_cache, write_and_cache} (register_base.rs),
   IPort::{read, write} of PortNode (port.rs), the ValueCtxt forwarders (lib.rs), `impl CacheStore` /
   `impl CacheStoreBuilder` of DefaultCacheStore and CacheSink (store.rs) and RegisterBase::store_invalidators
   (parser/register_base.rs).  No proofs here.  Everything is defined over the primitives of model/Cache.v
   ([cdev_read], [cdev_write], [address], [len_of]), so that the translated paths can be compared with the hand-written
   ones of that file.

   1. std::collections::HashMap<K, V> is an association list [hmap K V] with a key comparison; a key occurs at most
      once after any operation below, iteration order is never used by the translated code.

        hm_new                       HashMap::new(), Default::default()
        hm_get eqb k m               m.get(&k) (and the test of `if let Some(..) = m.get_mut(&k)`)
        hm_insert eqb k v m          m.insert(k, v): the old binding of k is dropped
        hm_upsert eqb k f v0 m       m.entry(k).and_modify(f).or_insert_with(|| v0)
        hm_or_default eqb k d m      m.entry(k).or_default(): k is bound afterwards (to d = Default::default() if it was
                                     not); the `&mut V` it returns is the binding of k
        hm_modify eqb k f m          a write `*p = ..` / `p.push(..)` through the `&mut V` p that get_mut(&k) or
                                     entry(k).or_default() returned: the binding of k becomes f (old binding)
        vec_push l x                 l.push(x)
        key2_eqb                     == on (i64, i64);   NodeId, i64: Z.eqb
        obind                        `?` on an Option inside a function that returns Option

   2. The register paths run in the state [xst U]: the device (model/Cache.v's [dev] with [cdev_read] / [cdev_write]),
      the variables of the value store (what `length(..)` / `address(..)` evaluate, see model/Cache.v) and the cache
      store `cx.cache_store : U` of the ValueCtxt.  [X U A] = such a computation that returns a GenApiResult<A>;
      `?` and `return Err(..)` are [xbind] / [xerr] (the state at the point of failure is kept: the device log and
      the cache operations performed so far are observable after an error).

        x_cx_upd f                   a `&mut self` method of ValueCtxt applied to cx (f = the translated forwarder)
        x_cx_get f                   a `&self` method of ValueCtxt
        x_length self                self.length(device, store, cx): ABSTRACT (C01 / C03): the immediate <Length> or
                                     the current value of the <pLength> variable ([len_of], never fails)
        x_address self               self.address(device, store, cx): ABSTRACT: [address] of model/Cache.v
        x_expect_iport_kind nid      nid.expect_iport_kind(store): ABSTRACT: in the model's domain pPort names a Port
                                     node without <ChunkID>
        x_device_read a buf          device.read_mem(a, buf).map_err(GenApiError::device): reads buf.len() bytes
                                     ([cdev_read]); the result is the new content of buf
        x_device_write a buf         device.write_mem(a, buf).map_err(GenApiError::device) ([cdev_write])
        vec_zeros n                  vec![0; n]
        `x as usize` on an i64       r_cast 64 x (lib/RustInt.v)

   3. Pinned by the translator (ShapeError when the source differs): struct RegisterBase has the fields
      p_port: NodeId, cacheable: CachingMode, p_invalidators: Vec<NodeId>; enum CachingMode has exactly the
      variants WriteThrough, WriteAround, NoCache and derives PartialEq; struct PortNode has chunk_id: Option<..>;
      ValueCtxt<T, U> has the field cache_store: U. *)
From Cam Require Export Outcome RustInt Bytes Mem Cache.

(* ---- HashMap ----------------------------------------------------------------------------------------------------- *)

Definition hmap (K V : Type) : Type := list (K * V).

Definition hm_new {K V : Type} : hmap K V := [].

Fixpoint hm_get {K V : Type} (eqb : K -> K -> bool) (k : K) (m : hmap K V) : option V :=
  match m with
  | [] => None
  | (k', v) :: r => if eqb k k' then Some v else hm_get eqb k r
  end.

Definition hm_remove {K V : Type} (eqb : K -> K -> bool) (k : K) (m : hmap K V) : hmap K V :=
  filter (fun e => negb (eqb k (fst e))) m.

Definition hm_insert {K V : Type} (eqb : K -> K -> bool) (k : K) (v : V) (m : hmap K V) : hmap K V :=
  (k, v) :: hm_remove eqb k m.

Definition hm_upsert {K V : Type} (eqb : K -> K -> bool) (k : K) (f : V -> V) (v0 : V) (m : hmap K V) : hmap K V :=
  match hm_get eqb k m with
  | Some v => hm_insert eqb k (f v) m
  | None => hm_insert eqb k v0 m
  end.

Definition hm_or_default {K V : Type} (eqb : K -> K -> bool) (k : K) (d : V) (m : hmap K V) : hmap K V :=
  match hm_get eqb k m with
  | Some _ => m
  | None => hm_insert eqb k d m
  end.

Definition hm_modify {K V : Type} (eqb : K -> K -> bool) (k : K) (f : V -> V) (m : hmap K V) : hmap K V :=
  match hm_get eqb k m with
  | Some v => hm_insert eqb k (f v) m
  | None => m
  end.

Definition vec_push {A : Type} (l : list A) (x : A) : list A := l ++ [x].

Definition key2_eqb (a b : Z * Z) : bool := (fst a =? fst b) && (snd a =? snd b).

Definition obind {A B : Type} (o : option A) (f : A -> option B) : option B :=
  match o with Some a => f a | None => None end.

(* ---- pinned types ------------------------------------------------------------------------------------------------ *)

Inductive src_CachingMode := CachingMode_WriteThrough | CachingMode_WriteAround | CachingMode_NoCache.

(* derive(PartialEq) *)
Definition CachingMode_eqb (a b : src_CachingMode) : bool :=
  match a, b with
  | CachingMode_WriteThrough, CachingMode_WriteThrough => true
  | CachingMode_WriteAround, CachingMode_WriteAround => true
  | CachingMode_NoCache, CachingMode_NoCache => true
  | _, _ => false
  end.

(* the fields of RegisterBase the translated code reads; [RegisterBase_reg] stands for address_kinds and length,
   which only x_length / x_address look at *)
Record src_RegisterBase := {
  RegisterBase_reg : creg;
  RegisterBase_p_port : Z;
  RegisterBase_cacheable : src_CachingMode;
  RegisterBase_p_invalidators : list Z
}.

(* `self.node_base().id()` and `self.chunk_id.is_some()` of a PortNode *)
Record src_PortNode := { PortNode_id : Z; PortNode_chunk_id_is_some : bool }.

(* model/Cache.v's register description as a RegisterBase: modes other than WT / WA count as NoCache there *)
Definition mode_of (m : Z) : src_CachingMode :=
  if m =? WT then CachingMode_WriteThrough
  else if m =? WA then CachingMode_WriteAround
  else CachingMode_NoCache.

Definition rb_of (y : system) (r : creg) : src_RegisterBase :=
  {| RegisterBase_reg := r; RegisterBase_p_port := y_port y; RegisterBase_cacheable := mode_of (g_mode r);
     RegisterBase_p_invalidators := g_inval r |}.

(* ---- the state of a register path -------------------------------------------------------------------------------- *)

Record xst (U : Type) := { x_dev : dev; x_vars : list Z; x_store : U }.
Arguments x_dev {U} _.
Arguments x_vars {U} _.
Arguments x_store {U} _.

Definition xset_dev {U} (x : xst U) (d : dev) : xst U :=
  {| x_dev := d; x_vars := x_vars x; x_store := x_store x |}.
Definition xset_store {U} (x : xst U) (u : U) : xst U :=
  {| x_dev := x_dev x; x_vars := x_vars x; x_store := u |}.

Definition X (U A : Type) : Type := xst U -> outcome A * xst U.

Definition xret {U A} (a : A) : X U A := fun x => (Ok a, x).
Definition xerr {U A} (e : Z) : X U A := fun x => (Err e, x).
Definition xpanic {U A} : X U A := fun x => (Panic, x).
Definition xlift {U A} (o : outcome A) : X U A := fun x => (o, x).
Definition xbind {U A B} (m : X U A) (f : A -> X U B) : X U B :=
  fun x => match m x with
           | (Ok a, x') => f a x'
           | (Err e, x') => (Err e, x')
           | (Panic, x') => (Panic, x')
           end.

Definition x_cx_upd {U} (f : U -> U) : X U unit := fun x => (Ok tt, xset_store x (f (x_store x))).
Definition x_cx_get {U A} (f : U -> A) : X U A := fun x => (Ok (f (x_store x)), x).

Definition x_length {U} (self : src_RegisterBase) : X U Z :=
  fun x => (Ok (len_of (RegisterBase_reg self) (x_vars x)), x).
Definition x_address {U} (self : src_RegisterBase) : X U Z :=
  fun x => (address (RegisterBase_reg self) (x_vars x), x).
Definition x_expect_iport_kind {U} (nid : Z) : X U src_PortNode :=
  xret {| PortNode_id := nid; PortNode_chunk_id_is_some := false |}.

Definition x_device_read {U} (a : Z) (buf : list Z) : X U (list Z) :=
  fun x => let '(o, d) := cdev_read (x_dev x) a (zlen buf) in (o, xset_dev x d).
Definition x_device_write {U} (a : Z) (buf : list Z) : X U unit :=
  fun x => let '(o, d) := cdev_write (x_dev x) a buf in (o, xset_dev x d).

Definition vec_zeros (n : Z) : list Z := repeat 0 (Z.to_nat n).

(* the state of model/Cache.v is the state of a path over the flat store [cache] *)
Definition to_cst (x : xst cache) : cst := {| c_dev := x_dev x; c_cache := x_store x; c_vars := x_vars x |}.
Definition of_cst (s : cst) : xst cache := {| x_dev := c_dev s; x_vars := c_vars s; x_store := c_cache s |}.
Definition on_cst {A} (m : X cache A) : M A := fun s => let '(o, x) := m (of_cst s) in (o, to_cst x).
