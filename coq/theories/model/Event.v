(* Model of device/src/u3v/protocol/event.rs: EventPacket::parse, EventCcd::parse,
   EventScd::parse (single-event form with event_size = 0, and the multi-event walk
   with checked_sub). *)
From Cam Require Export Outcome Bytes Ack.

Definition EVENT_MAGIC : Z := 0x45563355.
Definition EVENT_COMMAND_ID : Z := 0x0c00.

Record event := { ev_size : Z; ev_id : Z; ev_timestamp : Z; ev_data : list Z }.

(* read_and_seek(cursor, len) *)
Definition read_and_seek (len : Z) (bs : list Z) : outcome (list Z * list Z) :=
  if zlen bs <? len then Err E_BUFFER_IO else Ok (take len bs, drop len bs).

Fixpoint event_loop (fuel : nat) (remained : Z) (bs : list Z) (acc : list event) : outcome (list event) :=
  if remained <=? 0 then Ok (rev acc) else
  match fuel with
  | O => Err (-1)
  | S f =>
    let? (event_size, r1) := rd 2 bs in
    let? (event_id, r2) := rd 2 r1 in
    let? (timestamp, r3) := rd 8 r2 in
    if event_size =? 0 then
      (* remained.checked_sub(12) *)
      if remained <? 12 then Err E_INVALID_PACKET else
      let? (data, r4) := read_and_seek (remained - 12) r3 in
      event_loop f 0 r4 ({| ev_size := event_size; ev_id := event_id; ev_timestamp := timestamp;
                            ev_data := data |} :: acc)
    else
      if event_size <? 12 then Err E_INVALID_PACKET else
      if remained <? event_size then Err E_INVALID_PACKET else
      let? (data, r4) := read_and_seek (event_size - 12) r3 in
      event_loop f (remained - event_size) r4
                 ({| ev_size := event_size; ev_id := event_id; ev_timestamp := timestamp;
                     ev_data := data |} :: acc)
  end.

Definition parse_event (bs : list Z) : outcome (Z * list event) :=
  let? (magic, r1) := rd 4 bs in
  if negb (magic =? EVENT_MAGIC) then Err E_INVALID_PACKET else
  let? (flag, r2) := rd 2 r1 in
  let? (cid, r3) := rd 2 r2 in
  if negb (cid =? EVENT_COMMAND_ID) then Err E_INVALID_PACKET else
  let? (scd_len, r4) := rd 2 r3 in
  let? (rid, r5) := rd 2 r4 in
  let? evs := event_loop (S (Z.to_nat scd_len)) scd_len r5 [] in
  Ok (rid, evs).

Definition show_event (e : event) : list Z :=
  ev_size e :: ev_id e :: ev_timestamp e :: zlen (ev_data e) :: ev_data e.

Definition run_event (bs : list Z) : list Z :=
  match parse_event bs with
  | Err e => [1; e]
  | Panic => [2]
  | Ok (rid, evs) => 0 :: rid :: zlen evs :: flat_map show_event evs
  end.
