(* The meaning tools/translate_formulaops.py gives to the Rust primitives that the evaluator of
   genapi/src/formula.rs calls (gen/FormulaOpsSrc.v is written in terms of these and of lib/RustInt.v).
   No proofs here.

   i64 / u64 / u32 values are their numbers.  An f64 is its 64-bit pattern, as in model/Formula.v, and every
   arithmetic float operation is a CALL INTO THE ORACLE RECORD [float_ops] of model/Formula.v (the theorems hold
   for every such record); only neg / abs / signum / `!= 0.0`, which are pure bit manipulation, are written out
   (they are model/Formula.v's fb_* functions).

   i64::overflowing_* return (wrapped value, overflowed?).  Nothing here panics except the remainder by zero and
   the debug-build `abs` / unary minus. *)
From Cam Require Import Outcome RustInt Formula.

(* ---- i64 ------------------------------------------------------------------------------------------------ *)
Definition i64_overflowing_add (a b : Z) : Z * bool := (sw 64 (a + b), negb (in_s 64 (a + b))).
Definition i64_overflowing_sub (a b : Z) : Z * bool := (sw 64 (a - b), negb (in_s 64 (a - b))).
Definition i64_overflowing_mul (a b : Z) : Z * bool := (sw 64 (a * b), negb (in_s 64 (a * b))).
(* i64::overflowing_rem: panics when the divisor is zero; MIN % -1 is (0, true); otherwise the remainder of the
   truncating division (sign of the dividend) *)
Definition i64_overflowing_rem (a b : Z) : outcome (Z * bool) :=
  if b =? 0 then Panic
  else if (a =? - 2 ^ 63) && (b =? -1) then Ok (0, true)
  else Ok (Z.rem a b, false).
(* overflowing_shl / overflowing_shr take a u32 and shift by (rhs & 63); shr on i64 is arithmetic *)
Definition i64_overflowing_shl (a n : Z) : Z * bool := (sw 64 (a * 2 ^ (n mod 64)), 64 <=? n).
Definition i64_overflowing_shr (a n : Z) : Z * bool := (Z.shiftr a (n mod 64), 64 <=? n).
Definition i64_wrapping_add (a b : Z) : Z := sw 64 (a + b).
Definition i64_wrapping_sub (a b : Z) : Z := sw 64 (a - b).
Definition i64_wrapping_mul (a b : Z) : Z := sw 64 (a * b).
Definition i64_wrapping_neg (a : Z) : Z := sw 64 (- a).
Definition i64_wrapping_abs (a : Z) : Z := sw 64 (Z.abs a).
Definition i64_signum (a : Z) : Z := Z.sgn a.
(* debug build: abs() and neg() of i64::MIN panic *)
Definition i64_abs (a : Z) : outcome Z := chk_s 64 (Z.abs a).
(* `/` and `%` on i64 (debug build): zero divisor and MIN / -1 panic *)
Definition i64_div (a b : Z) : outcome Z :=
  if b =? 0 then Panic else if (a =? - 2 ^ 63) && (b =? -1) then Panic else Ok (Z.quot a b).
Definition i64_rem (a b : Z) : outcome Z :=
  if b =? 0 then Panic else if (a =? - 2 ^ 63) && (b =? -1) then Panic else Ok (Z.rem a b).

(* ---- f64 ------------------------------------------------------------------------------------------------ *)
Section F64.
  Variable fops : float_ops.
  Definition i64_as_f64 (i : Z) : Z := f_of_int fops i.
  (* `f as i64` saturates; NaN gives 0 (f_trunc_z is 0 there) *)
  Definition f64_as_i64 (f : Z) : Z := clamp64 (f_trunc_z fops f).
  Definition f64_add (a b : Z) : Z := f_add fops a b.
  Definition f64_sub (a b : Z) : Z := f_sub fops a b.
  Definition f64_mul (a b : Z) : Z := f_mul fops a b.
  Definition f64_div (a b : Z) : Z := f_div fops a b.
  Definition f64_rem (a b : Z) : Z := f_rem fops a b.
  Definition f64_powf (a b : Z) : Z := f_pow fops a b.
  (* PartialEq / PartialOrd of f64, through partial_cmp (None = unordered) *)
  Definition f64_eq (a b : Z) : bool := match f_cmp fops a b with Some Eq => true | _ => false end.
  Definition f64_ne (a b : Z) : bool := negb (f64_eq a b).
  Definition f64_lt (a b : Z) : bool := match f_cmp fops a b with Some Lt => true | _ => false end.
  Definition f64_le (a b : Z) : bool := match f_cmp fops a b with Some Lt | Some Eq => true | _ => false end.
  Definition f64_gt (a b : Z) : bool := match f_cmp fops a b with Some Gt => true | _ => false end.
  Definition f64_ge (a b : Z) : bool := match f_cmp fops a b with Some Gt | Some Eq => true | _ => false end.
  (* the methods of f64 that the evaluator calls: which field of the oracle each one is *)
  Definition f64_sin := f_fun fops USin.
  Definition f64_cos := f_fun fops UCos.
  Definition f64_tan := f_fun fops UTan.
  Definition f64_asin := f_fun fops UAsin.
  Definition f64_acos := f_fun fops UAcos.
  Definition f64_atan := f_fun fops UAtan.
  Definition f64_exp := f_fun fops UExp.
  Definition f64_ln := f_fun fops ULn.
  Definition f64_log10 := f_fun fops ULg.
  Definition f64_sqrt := f_fun fops USqrt.
  Definition f64_trunc := f_fun fops UTrunc.
  Definition f64_floor := f_fun fops UFloor.
  Definition f64_ceil := f_fun fops UCeil.
  Definition f64_round := f_fun fops URound.
End F64.
(* bit manipulation only *)
Definition f64_neg (f : Z) : Z := fb_neg f.
Definition f64_abs (f : Z) : Z := fb_abs f.
Definition f64_signum (f : Z) : Z := fb_signum f.
(* `f != 0.0` / `f == 0.0`: true / false exactly for the patterns other than +0.0 and -0.0 (a NaN is != anything) *)
Definition f64_ne_zero (f : Z) : bool := fb_nonzero f.
Definition f64_eq_zero (f : Z) : bool := negb (fb_nonzero f).
