(* Meaning of the raw-pointer operations that tools/translate_gentl.py emits for the buffer protocol of the GenTL C API
   (gentl/src/ffi/mod.rs: trait CopyTo and its implementations -> gen/GenTLSrc.v).  No proofs here.

   The two raw pointers every copy_to receives are one machine state [gdst]:

     d_null     `dst.is_null()`
     d_size     the usize cell behind `dst_size` (the GenTL standard requires piSize to be a valid pointer; the code
                dereferences it unconditionally - a NULL piSize is outside this vocabulary)
     d_buf      the caller's buffer behind `dst`, byte by byte (its length is its TRUE capacity; on a little-endian
                machine a `*mut iN` / `*mut uN` destination is the same bytes)

   A translated function is a state transformer [gm A := gdst -> outcome A * gdst]: the state reached is kept when the
   function leaves with an error, so "nothing was written" is a statement about the translated code.  The error class of
   a GenTlError is its C error code (the table `impl From<&GenTlError> for GC_ERROR`, translated into gen/GenTLSrc.v).
   Undefined behaviour (a write through a NULL dst, a write past the end of the caller's buffer, a read past the end of
   the source slice) is Panic: the theorems show the translated code never reaches it when the buffer is at least as
   large as *dst_size says.

     g_is_null                `dst.is_null()`
     g_load_size              `*dst_size`
     g_store_size n           `*dst_size = n`
     g_write_at off bs        the bytes bs stored at dst + off
     g_copy src n             `std::ptr::copy_nonoverlapping(src.as_ptr(), dst, n)`: the first n bytes of src to dst + 0
     g_store_val w x          `*dst = x` for a w-byte integer: its little-endian two's complement bytes at dst + 0
     g_lift o                 a pure computation of lib/RustInt.v (debug build: usize overflow is a panic)
     s_is_ascii s             str::is_ascii *)
From Cam Require Export Outcome RustInt Bytes.

Record gdst := { d_null : bool; d_size : Z; d_buf : list Z }.
Definition d_with_size (s : gdst) (n : Z) : gdst := {| d_null := d_null s; d_size := n; d_buf := d_buf s |}.
Definition d_with_buf (s : gdst) (b : list Z) : gdst := {| d_null := d_null s; d_size := d_size s; d_buf := b |}.

Definition gm (A : Type) : Type := gdst -> outcome A * gdst.
Definition g_ret {A} (a : A) : gm A := fun s => (Ok a, s).
Definition g_err {A} (e : Z) : gm A := fun s => (Err e, s).
Definition g_lift {A} (o : outcome A) : gm A := fun s => (o, s).
Definition g_bind {A B} (x : gm A) (f : A -> gm B) : gm B :=
  fun s => match x s with
           | (Ok a, s') => f a s'
           | (Err e, s') => (Err e, s')
           | (Panic, s') => (Panic, s')
           end.
Notation "'let!' x ':=' e 'in' k" := (g_bind e (fun x => k))
  (at level 200, x pattern, e at level 100, k at level 200, right associativity).

Definition g_is_null : gm bool := fun s => (Ok (d_null s), s).
Definition g_load_size : gm Z := fun s => (Ok (d_size s), s).
Definition g_store_size (n : Z) : gm unit := fun s => (Ok tt, d_with_size s n).

Definition g_write_at (off : Z) (bs : list Z) : gm unit :=
  fun s => if d_null s then (Panic, s)
           else if (0 <=? off) && (off + zlen bs <=? zlen (d_buf s))
                then (Ok tt, d_with_buf s (take off (d_buf s) ++ bs ++ drop (off + zlen bs) (d_buf s)))
                else (Panic, s).

Definition g_copy (src : list Z) (n : Z) : gm unit :=
  fun s => if (0 <=? n) && (n <=? zlen src) then g_write_at 0 (take n src) s else (Panic, s).

Definition g_store_val (w : Z) (x : Z) : gm unit := g_write_at 0 (le_bytes (Z.to_nat w) x).

Definition s_is_ascii (s : list Z) : bool := forallb (fun c => c <? 128) s.
