(* Meaning of the operations that tools/translate_streamparse.py emits for the stream leader / trailer decoders of
   device/src/u3v/protocol/stream.rs, for PayloadBuilder (cameleon/src/u3v/stream_handle.rs) and for the views of
   cameleon/src/payload.rs (gen/StreamParseSrc.v).  No proofs here.

     cur_new bs          `Cursor::new(bs)`: std::io::Cursor<&[u8]>, the data and a position (a u64) that starts at 0;
     cur_read_le n c     `c.read_bytes_le::<T>()` with T an n-byte integer type: impl/src/bytes_io.rs forwards to
                         `T::read_bytes_le(self)`, which is ONE `read_exact` of size_of::<T>() bytes followed by
                         `T::from_le_bytes` (that shape is asserted by the translator).  Cursor::read_exact takes the bytes
                         from the position on, fails with an io::Error (UnexpectedEof) when fewer than n are left, and
                         otherwise advances the position by n.  The io::Error reaches the caller through `?`, which turns
                         it into cameleon_device::u3v::Error::BufferIo (`#[from] std::io::Error`, also asserted): class
                         E_BUFFER_IO.  The cursor after a failed read is never observed (`?` leaves the function);
     sl_read_le n bs     the same call on a `&[u8]` used as a reader (`mut buf: &[u8]`): `read_exact` of the slice takes
                         the first n bytes and leaves the rest;
     sl_from / sl_to / sl_range   `&s[lo..]`, `&s[..hi]`, `&s[lo..hi]`: a panic when the range leaves the slice;
     arr_try_into n bs   `<[u8; n]>::try_from(&[u8])`: fails unless the slice has exactly n elements;
     r_checked_sub       usize::checked_sub;
     r_map_err e x       `x.map_err(|_| <error of class e>)`;
     pixel_try_from c    `PixelFormat::try_from(c)` (device/src/pixel_format.rs: the table gen/PixelTable.v regenerated
                         by tools/translate.py, first matching arm wins; the error is a String, class 0 until map_err
                         replaces it);
     r_loop fuel body s  `loop { .. }` whose body maps the mutated locals s to `Continue s'` (end of the body reached) or
                         `Break r` (`break r`); a Coq function needs a bound on the number of iterations: Err E_FUEL when
                         the fuel is used up (theorems state for which fuel that cannot happen);
     vec_resize bs n v   `Vec::resize(n, v)`: truncates, or pads with v. *)
From Cam Require Export Outcome RustInt Bytes PixelTable.

Definition E_STREAM_INVALID_PAYLOAD : Z := 20.   (* cameleon::StreamError::InvalidPayload *)
Definition E_FUEL : Z := -1.

Record cursor := { c_data : list Z; c_pos : Z }.

Definition cur_new (bs : list Z) : cursor := {| c_data := bs; c_pos := 0 |}.

Definition sl_read_le (n : nat) (bs : list Z) : outcome (Z * list Z) :=
  if (length bs <? n)%nat then Err E_BUFFER_IO else Ok (of_le (firstn n bs), skipn n bs).

Definition cur_read_le (n : nat) (c : cursor) : outcome (Z * cursor) :=
  match sl_read_le n (drop (c_pos c) (c_data c)) with
  | Ok (v, _) => Ok (v, {| c_data := c_data c; c_pos := c_pos c + Z.of_nat n |})
  | Err e => Err e
  | Panic => Panic
  end.

Definition sl_from (bs : list Z) (lo : Z) : outcome (list Z) :=
  if (0 <=? lo) && (lo <=? zlen bs) then Ok (drop lo bs) else Panic.

Definition sl_to (bs : list Z) (hi : Z) : outcome (list Z) :=
  if (0 <=? hi) && (hi <=? zlen bs) then Ok (take hi bs) else Panic.

Definition sl_range (bs : list Z) (lo hi : Z) : outcome (list Z) :=
  if (0 <=? lo) && (lo <=? hi) && (hi <=? zlen bs) then Ok (take (hi - lo) (drop lo bs)) else Panic.

Definition arr_try_into (n : Z) (bs : list Z) : outcome (list Z) :=
  if zlen bs =? n then Ok bs else Err 0.

Definition r_checked_sub (a b : Z) : option Z := if a <? b then None else Some (a - b).

Definition r_map_err {A} (e : Z) (x : outcome A) : outcome A :=
  match x with Err _ => Err e | o => o end.

Fixpoint tbl_lookup (k : Z) (t : list (Z * Z)) : option Z :=
  match t with
  | [] => None
  | (k', v) :: r => if k =? k' then Some v else tbl_lookup k r
  end.

Definition pixel_try_from (c : Z) : outcome Z :=
  match tbl_lookup c code_to_pf with Some p => Ok p | None => Err 0 end.

Inductive ctl (St R : Type) : Type := Continue (s : St) | Break (r : R).
Arguments Continue {St R} s.
Arguments Break {St R} r.

Fixpoint r_loop {St R} (fuel : nat) (body : St -> outcome (ctl St R)) (s : St) : outcome R :=
  match fuel with
  | O => Err E_FUEL
  | S f =>
    match body s with
    | Ok (Continue s') => r_loop f body s'
    | Ok (Break r) => Ok r
    | Err e => Err e
    | Panic => Panic
    end
  end.

Definition vec_resize (bs : list Z) (n v : Z) : list Z :=
  take n bs ++ repeat v (Z.to_nat (n - zlen bs)).
