(* Model of device/src/u3v/device_builder.rs (+ device_info.rs, the descriptor accessors of rusb it uses):
   enumerate_devices, DeviceBuilder::{new, build, find_u3v_iad, find_u3v_iad_in_config_desc, .._in_if_desc,
   .._in_ep_desc, is_u3v_iad}, Iad::from_bytes, DeviceInfoDescriptor::{from_bytes, interpret},
   ControlIfaceInfo::new, ReceiveIfaceInfo::new -- written step by step as the code is, over the descriptor
   tree that libusb hands to rusb and over scripted results of every libusb call.

   [iad_scan] is the code after the "fix:" commit b32619b (two length checks); [iad_scan_v0] is the code as
   found at the pinned commit (bytes[read + 1], bytes[read + 2 ..= read + 7] unchecked -> Panic).

   Every function that talks to libusb returns, next to its outcome, the libusb calls it made, as the flat
   integer log that rust/h_usb prints ([di] is the position of the device in the device list):
     13 get_device_list | 1 d get_device_descriptor | 2 d i get_config_descriptor | 3 d open |
     4 d get_configuration | 5 d v set_configuration | 6 d i get_string_descriptor_ascii | 7 d close.
   Error classes are the numbers printed by rust/h_usb: 0..13 the kinds of LibUsbError (Io, InvalidParam,
   Access, NoDevice, NotFound, Busy, Timeout, Overflow, Pipe, Interrupted, NoMem, NotSupported,
   BadDescriptor, Other), 20 BufferIo, 22 InvalidDevice.

   Contract of libusb that rusb relies on (not cameleon code, kept by the type): an interface has at least
   one alternate setting ([if_first]); bNumEndpoints is the length of the endpoint array. *)
From Cam Require Export Outcome Bytes.

(* ---- the descriptor tree and the scripted libusb answers of one device ------------------------ *)
Record ep := mkEp { ep_addr : Z; ep_attr : Z; ep_extra : list Z }.
Record alt := mkAlt { a_num : Z; a_setting : Z; a_cls : Z; a_sub : Z; a_proto : Z;
                      a_extra : list Z; a_eps : list ep }.
Record iface := mkIf { if_first : alt; if_rest : list alt }.
Definition if_alts (i : iface) : list alt := if_first i :: if_rest i.
Record conf := mkConf { cf_err : Z; cf_value : Z; cf_extra : list Z; cf_ifaces : list iface }.
(* libusb_get_string_descriptor_ascii + String::from_utf8 of rusb: the bytes, or an error code *)
Inductive sres := SBytes (bs : list Z) | SCode (c : Z).
Record dev := mkDev {
  d_dd_err : Z;                         (* result of libusb_get_device_descriptor *)
  d_cls : Z; d_sub : Z; d_proto : Z;    (* bDeviceClass / SubClass / Protocol *)
  d_nconf : Z;                          (* bNumConfigurations *)
  d_confs : list conf;                  (* what libusb_get_config_descriptor(i) answers; beyond: NOT_FOUND *)
  d_open : Z;                           (* result of libusb_open *)
  d_getcfg_code : Z; d_getcfg_val : Z;  (* libusb_get_configuration *)
  d_setcfg : Z;                         (* libusb_set_configuration *)
  d_strs : list (Z * sres)              (* string descriptor table; absent: INVALID_PARAM for 0, PIPE else *)
}.

(* ---- errors ------------------------------------------------------------------------------------ *)
Definition UE_INVALID_PARAM : Z := 1.
Definition UE_NOT_FOUND : Z := 4.
Definition UE_PIPE : Z := 8.
Definition UE_OTHER : Z := 13.
Definition UE_BUFFER_IO : Z := 20.
Definition UE_INVALID_DEVICE : Z := 22.

(* rusb error::from_libusb followed by cameleon's From<rusb::Error> *)
Definition usb_kind (code : Z) : Z :=
  if code =? -1 then 0 else if code =? -2 then 1 else if code =? -3 then 2 else if code =? -4 then 3
  else if code =? -5 then 4 else if code =? -6 then 5 else if code =? -7 then 6 else if code =? -8 then 7
  else if code =? -9 then 8 else if code =? -10 then 9 else if code =? -11 then 10
  else if code =? -12 then 11 else 13.

(* try_unsafe!: 0 is success, every other value an error *)
Definition try_code (code : Z) : outcome unit := if code =? 0 then Ok tt else Err (usb_kind code).

(* ---- outcome + log ------------------------------------------------------------------------------ *)
Definition lout (A : Type) : Type := (outcome A * list Z)%type.
Definition lret {A} (a : A) : lout A := (Ok a, []).
Definition lift {A} (x : outcome A) : lout A := (x, []).
Definition call {A} (ev : list Z) (r : outcome A) : lout A := (r, ev).
Definition lbind {A B} (x : lout A) (f : A -> lout B) : lout B :=
  match fst x with
  | Ok a => let r := f a in (fst r, snd x ++ snd r)
  | Err e => (Err e, snd x)
  | Panic => (Panic, snd x)
  end.
Notation "'let!' x ':=' e 'in' k" := (lbind e (fun x => k))
  (at level 200, x pattern, e at level 100, k at level 200, right associativity).

(* ---- Iad::from_bytes ---------------------------------------------------------------------------- *)
Record iad := mkIad { i_len : Z; i_type : Z; i_first : Z; i_count : Z;
                      i_cls : Z; i_sub : Z; i_proto : Z; i_func : Z }.

Definition IAD_DESC_TYPE : Z := 0x0B.

(* bytes[read + k] with the suffix bytes[read ..] in hand; out of range = the slice index panic *)
Definition idx (bs : list Z) (k : nat) : outcome Z :=
  match nth_error bs k with Some b => Ok b | None => Panic end.

Definition iad_fields (l : Z) (bs : list Z) : outcome (option iad) :=
  let? t := idx bs 1 in
  let? a := idx bs 2 in let? b := idx bs 3 in let? c := idx bs 4 in
  let? d := idx bs 5 in let? e := idx bs 6 in let? g := idx bs 7 in
  Ok (Some (mkIad l t a b c d e g)).

(* One turn of the while loop per unit of fuel; [bs] is bytes[read ..] ("read < len" = non-empty; a [read]
   beyond the end is the empty suffix).  Every turn that continues advances by desc_length >= 1, so
   [length bs] turns are enough: [iad_from_bytes]. *)
Fixpoint iad_scan (fuel : nat) (bs : list Z) : outcome (option iad) :=
  match fuel with
  | O => Ok None
  | S f =>
    match bs with
    | [] => Ok None
    | l :: _ =>
      if l =? 0 then Ok None
      else if l =? 1 then iad_scan f (skipn 1 bs)
      else if (length bs <? 2)%nat then Ok None                (* b32619b: the header is cut short *)
      else
        let? t := idx bs 1 in
        if negb (t =? IAD_DESC_TYPE) then iad_scan f (skipn (Z.to_nat l) bs)
        else if (length bs <? 8)%nat then Ok None              (* b32619b: the IAD is cut short *)
        else iad_fields l bs
    end
  end.
Definition iad_from_bytes (bs : list Z) : outcome (option iad) := iad_scan (length bs) bs.

(* the pinned code *)
Fixpoint iad_scan_v0 (fuel : nat) (bs : list Z) : outcome (option iad) :=
  match fuel with
  | O => Ok None
  | S f =>
    match bs with
    | [] => Ok None
    | l :: _ =>
      if l =? 0 then Ok None
      else if l =? 1 then iad_scan_v0 f (skipn 1 bs)
      else
        let? t := idx bs 1 in
        if negb (t =? IAD_DESC_TYPE) then iad_scan_v0 f (skipn (Z.to_nat l) bs)
        else iad_fields l bs
    end
  end.
Definition iad_from_bytes_v0 (bs : list Z) : outcome (option iad) := iad_scan_v0 (length bs) bs.

Definition is_u3v_iad (i : iad) : bool :=
  (i_cls i =? 0xEF) && (i_sub i =? 0x05) && (i_proto i =? 0x00).

(* "if let Some(iad) = Iad::from_bytes(x) { if is_u3v_iad(&iad) { return Some(iad) } }" *)
Definition u3v_iad_in (from_bytes : list Z -> outcome (option iad)) (x : list Z) : outcome (option iad) :=
  let? o := from_bytes x in
  Ok (match o with Some i => if is_u3v_iad i then Some i else None | None => None end).

Section Search.
  Variable from_bytes : list Z -> outcome (option iad).

  (* find_u3v_iad_in_ep_desc: extra() is None for an empty extra *)
  Definition find_in_ep (e : ep) : outcome (option iad) :=
    match ep_extra e with
    | [] => Ok None
    | x => u3v_iad_in from_bytes x
    end.

  Fixpoint find_in_eps (es : list ep) : outcome (option iad) :=
    match es with
    | [] => Ok None
    | e :: r => let? o := find_in_ep e in
                match o with Some i => Ok (Some i) | None => find_in_eps r end
    end.

  (* find_u3v_iad_in_if_desc *)
  Definition find_in_alt (a : alt) : outcome (option iad) :=
    let? o := u3v_iad_in from_bytes (a_extra a) in
    match o with Some i => Ok (Some i) | None => find_in_eps (a_eps a) end.

  Fixpoint find_in_alts (xs : list alt) : outcome (option iad) :=
    match xs with
    | [] => Ok None
    | a :: r => let? o := find_in_alt a in
                match o with Some i => Ok (Some i) | None => find_in_alts r end
    end.

  Fixpoint find_in_ifaces (xs : list iface) : outcome (option iad) :=
    match xs with
    | [] => Ok None
    | i :: r => let? o := find_in_alts (if_alts i) in
                match o with Some x => Ok (Some x) | None => find_in_ifaces r end
    end.

  (* find_u3v_iad_in_config_desc *)
  Definition find_in_config (c : conf) : outcome (option iad) :=
    let? o := u3v_iad_in from_bytes (cf_extra c) in
    match o with Some i => Ok (Some i) | None => find_in_ifaces (cf_ifaces c) end.
End Search.

(* ---- DeviceInfoDescriptor ------------------------------------------------------------------------ *)
Record idesc := mkIdesc {
  id_len : Z; id_type : Z; id_subtype : Z;
  id_gencp_major : Z; id_gencp_minor : Z; id_u3v_major : Z; id_u3v_minor : Z;
  id_guid : Z; id_vendor : Z; id_model : Z; id_family : Z; id_version : Z;
  id_manufacturer : Z; id_serial : Z; id_user : Z; id_speed : Z }.

(* bytes.read_bytes_le::<uN>() on a &[u8] cursor *)
Definition rdu (n : nat) (bs : list Z) : outcome (Z * list Z) :=
  if (length bs <? n)%nat then Err UE_BUFFER_IO else Ok (of_le (firstn n bs), skipn n bs).

Definition MINIMUM_DESC_LENGTH : Z := 20.

Definition info_from_bytes (bs : list Z) : outcome idesc :=
  if (zlen bs <? MINIMUM_DESC_LENGTH) then Err UE_INVALID_DEVICE else
  let? (len, b) := rdu 1 bs in
  let? (ty, b) := rdu 1 b in
  let? (st, b) := rdu 1 b in
  if (len <? MINIMUM_DESC_LENGTH) || negb (ty =? 0x24) || negb (st =? 0x1) then Err UE_INVALID_DEVICE else
  let? (gmin, b) := rdu 2 b in
  let? (gmaj, b) := rdu 2 b in
  let? (umin, b) := rdu 2 b in
  let? (umaj, b) := rdu 2 b in
  let? (guid, b) := rdu 1 b in
  let? (vendor, b) := rdu 1 b in
  let? (model, b) := rdu 1 b in
  let? (family, b) := rdu 1 b in
  let? (version, b) := rdu 1 b in
  let? (manuf, b) := rdu 1 b in
  let? (serial, b) := rdu 1 b in
  let? (user, b) := rdu 1 b in
  let? (speed, _) := rdu 1 b in
  Ok (mkIdesc len ty st gmaj gmin umaj umin guid vendor model family version manuf serial user speed).

(* what DeviceInfo holds: versions (major, minor, patch = 0), strings as bytes, speed 0 Low .. 4 SuperSpeedPlus *)
Record dinfo := mkDinfo {
  di_gencp : Z * Z; di_u3v : Z * Z;
  di_guid : list Z; di_vendor : list Z; di_model : list Z; di_family : option (list Z);
  di_version : list Z; di_manufacturer : list Z; di_serial : list Z; di_user : option (list Z);
  di_speed : Z }.

Fixpoint lookup_str (i : Z) (t : list (Z * sres)) : option sres :=
  match t with
  | [] => None
  | (k, v) :: r => if i =? k then Some v else lookup_str i r
  end.

(* handle.read_string_descriptor_ascii(idx) *)
Definition read_string (di : Z) (d : dev) (i : Z) : lout (list Z) :=
  call [6; di; i]
    (match lookup_str i (d_strs d) with
     | Some (SBytes bs) => Ok bs
     | Some (SCode c) => Err (usb_kind c)
     | None => Err (if i =? 0 then UE_INVALID_PARAM else UE_PIPE)
     end).

Definition read_opt_string (di : Z) (d : dev) (i : Z) : lout (option (list Z)) :=
  if i =? 0 then lret None else let! s := read_string di d i in lret (Some s).

Definition speed_bit (m k : Z) : bool := Z.land (Z.shiftr m k) 1 =? 1.
Definition speed_of (m : Z) : outcome Z :=
  if speed_bit m 4 then Ok 4
  else if speed_bit m 3 then Ok 3
  else if speed_bit m 2 then Ok 2
  else if speed_bit m 1 then Ok 1
  else if Z.land m 1 =? 1 then Ok 0
  else Err UE_INVALID_DEVICE.

Definition interpret (di : Z) (d : dev) (x : idesc) : lout dinfo :=
  let! guid := read_string di d (id_guid x) in
  let! vendor := read_string di d (id_vendor x) in
  let! model := read_string di d (id_model x) in
  let! family := read_opt_string di d (id_family x) in
  let! version := read_string di d (id_version x) in
  let! manuf := read_string di d (id_manufacturer x) in
  let! serial := read_string di d (id_serial x) in
  let! user := read_opt_string di d (id_user x) in
  let! speed := lift (speed_of (id_speed x)) in
  lret (mkDinfo (id_gencp_major x, id_gencp_minor x) (id_u3v_major x, id_u3v_minor x)
                guid vendor model family version manuf serial user speed).

(* ---- interface classification -------------------------------------------------------------------- *)
Definition ep_is_in (e : ep) : bool := negb (Z.land (ep_addr e) 0x80 =? 0).   (* direction() *)
Definition ep_is_out (e : ep) : bool := Z.land (ep_addr e) 0x80 =? 0.
Definition ep_is_bulk (e : ep) : bool := Z.land (ep_attr e) 3 =? 2.             (* transfer_type() *)

Definition is_u3v_class (a : alt) : bool := (a_cls a =? 0xEF) && (a_sub a =? 0x05).

(* ControlIfaceInfo::new -> (iface_number, bulk_in_ep, bulk_out_ep) *)
Definition control_iface_info (i : iface) : outcome (Z * Z * Z) :=
  let a := if_first i in                   (* iface.descriptors().next(): Some by the libusb contract *)
  if negb (is_u3v_class a) || negb (a_proto a =? 0x00) then Err UE_INVALID_DEVICE else
  if negb (length (a_eps a) =? 2)%nat then Err UE_INVALID_DEVICE else
  match find ep_is_in (a_eps a) with
  | None => Err UE_INVALID_DEVICE
  | Some ein =>
    match find ep_is_out (a_eps a) with
    | None => Err UE_INVALID_DEVICE
    | Some eout =>
      if negb (ep_is_bulk ein) || negb (ep_is_bulk eout) then Err UE_INVALID_DEVICE
      else Ok (a_num a, ep_addr ein, ep_addr eout)
    end
  end.

Inductive rkind := REvent | RStream.

(* ReceiveIfaceInfo::new: the loop over the alternate settings; [num] = iface.number() *)
Fixpoint recv_info_alts (num : Z) (xs : list alt) : outcome (option ((Z * Z) * rkind)) :=
  match xs with
  | [] => Ok None
  | a :: r =>
    if negb (a_setting a =? 0) then recv_info_alts num r
    else if negb (is_u3v_class a) then Ok None
    else
      match (if a_proto a =? 0x01 then Some REvent else if a_proto a =? 0x02 then Some RStream else None) with
      | None => Ok None
      | Some k =>
        if negb (length (a_eps a) =? 1)%nat then Ok None
        else match a_eps a with
             | [] => Panic                                      (* .next().unwrap() *)
             | e :: _ => if negb (ep_is_bulk e) || negb (ep_is_in e) then Ok None
                         else Ok (Some ((num, ep_addr e), k))
             end
      end
  end.
Definition recv_info (i : iface) : outcome (option ((Z * Z) * rkind)) :=
  recv_info_alts (a_num (if_first i)) (if_alts i).

(* interfaces.filter_map(ReceiveIfaceInfo::new).collect() *)
Fixpoint recv_infos (xs : list iface) : outcome (list ((Z * Z) * rkind)) :=
  match xs with
  | [] => Ok []
  | i :: r => let? o := recv_info i in
              let? rest := recv_infos r in
              Ok (match o with Some x => x :: rest | None => rest end)
  end.

(* the "len() > 2" check and the two pop()s: (event, stream) *)
Definition classify (rs : list ((Z * Z) * rkind)) : outcome (option (Z * Z) * option (Z * Z)) :=
  if (2 <? length rs)%nat then Err UE_INVALID_DEVICE else
  match rev rs with
  | [] => Ok (None, None)
  | (x, REvent) :: rest =>
    match rest with
    | (y, RStream) :: _ => Ok (Some x, Some y)
    | [] => Ok (Some x, None)
    | _ :: _ => Err UE_INVALID_DEVICE
    end
  | (x, RStream) :: rest =>
    match rest with
    | (y, REvent) :: _ => Ok (Some y, Some x)
    | [] => Ok (None, Some x)
    | _ :: _ => Err UE_INVALID_DEVICE
    end
  end.

(* interfaces().skip_while(|iface| iface.number() != first_interface) *)
Fixpoint skip_to (first : Z) (xs : list iface) : list iface :=
  match xs with
  | [] => []
  | i :: r => if negb (a_num (if_first i) =? first) then skip_to first r else xs
  end.

(* ---- DeviceBuilder ----------------------------------------------------------------------------- *)
Record devres := mkDevres {
  r_info : dinfo;
  r_ctrl : Z * Z * Z;            (* iface_number, bulk_in_ep, bulk_out_ep *)
  r_event : option (Z * Z);      (* iface_number, bulk_in_ep *)
  r_stream : option (Z * Z) }.

Section Builder.
  Variable from_bytes : list Z -> outcome (option iad).
  Variable di : Z.
  Variable d : dev.

  Definition config_descriptor (i : Z) : lout conf :=
    call [2; di; i]
      (match nth_error (d_confs d) (Z.to_nat i) with
       | None => Err UE_NOT_FOUND
       | Some c => if cf_err c =? 0 then Ok c else Err (usb_kind (cf_err c))
       end).

  (* for config_index in i .. i + k *)
  Fixpoint find_u3v_iad_from (k : nat) (i : Z) : lout (option (iad * conf)) :=
    match k with
    | O => lret None
    | S k' =>
      let! c := config_descriptor i in
      let! o := lift (find_in_config from_bytes c) in
      match o with
      | Some x => lret (Some (x, c))
      | None => find_u3v_iad_from k' (i + 1)
      end
    end.

  (* DeviceBuilder::new *)
  Definition builder_new : lout (option (iad * conf)) :=
    let! _ := call [1; di] (try_code (d_dd_err d)) in
    if (d_cls d =? 0xEF) && (d_sub d =? 0x02) && (d_proto d =? 0x01)
    then find_u3v_iad_from (Z.to_nat (d_nconf d)) 0
    else lret None.

  (* DeviceBuilder::build after the device was opened *)
  Definition build_opened (x : iad) (c : conf) : lout devres :=
    let! active := call [4; di] (let? _ := try_code (d_getcfg_code d) in Ok (d_getcfg_val d mod 256)) in
    let! _ := (if negb (active =? cf_value c)
               then call [5; di; cf_value c] (try_code (d_setcfg d)) else lret tt) in
    match skip_to (i_first x) (cf_ifaces c) with
    | [] => lift (Err UE_INVALID_DEVICE)
    | ctrl :: others =>
      let! ci := lift (control_iface_info ctrl) in
      let! idsc := lift (info_from_bytes (a_extra (if_first ctrl))) in
      let! info := interpret di d idsc in
      let! rs := lift (recv_infos others) in
      let! es := lift (classify rs) in
      lret (mkDevres info ci (fst es) (snd es))
    end.

  (* DeviceBuilder::build: the handle is closed (dropped) on every way out *)
  Definition build (x : iad) (c : conf) : lout devres :=
    let! _ := call [3; di] (try_code (d_open d)) in
    let r := build_opened x c in
    (fst r, snd r ++ [7; di]).

  (* one turn of the two filter_maps of enumerate_devices: None = the device is left out *)
  Definition enum_device : lout (option devres) :=
    let n := builder_new in
    match fst n with
    | Panic => (Panic, snd n)
    | Err _ => (Ok None, snd n)
    | Ok None => (Ok None, snd n)
    | Ok (Some (x, c)) =>
      let b := build x c in
      match fst b with
      | Panic => (Panic, snd n ++ snd b)
      | Err _ => (Ok None, snd n ++ snd b)
      | Ok r => (Ok (Some r), snd n ++ snd b)
      end
    end.
End Builder.

(* enumerate_devices over the device list from position [di] on: (position, device) of every device kept *)
Fixpoint enum_from (fb : list Z -> outcome (option iad)) (di : Z) (ds : list dev) : lout (list (Z * devres)) :=
  match ds with
  | [] => lret []
  | d :: r =>
    let! o := enum_device fb di d in
    let! rest := enum_from fb (di + 1) r in
    lret (match o with Some x => (di, x) :: rest | None => rest end)
  end.

Definition enumerate_with (fb : list Z -> outcome (option iad)) (list_code : Z) (ds : list dev)
  : lout (list (Z * devres)) :=
  let! _ := call [13] (if list_code <? 0 then Err (usb_kind list_code) else Ok tt) in
  enum_from fb 0 ds.

Definition enumerate_devices := enumerate_with iad_from_bytes.
Definition enumerate_devices_v0 := enumerate_with iad_from_bytes_v0.

(* ---- printing, as rust/h_usb prints ---------------------------------------------------------------- *)
Definition show_str (s : list Z) : list Z := zlen s :: s.
Definition show_ostr (s : option (list Z)) : list Z :=
  match s with None => [0] | Some s => 1 :: show_str s end.
Definition show_recv (r : option (Z * Z)) : list Z :=
  match r with None => [0] | Some (i, e) => [1; i; e] end.
Definition show_dev (x : Z * devres) : list Z :=
  let i := r_info (snd x) in
  [fst x; fst (di_gencp i); snd (di_gencp i); 0; fst (di_u3v i); snd (di_u3v i); 0]
  ++ show_str (di_guid i) ++ show_str (di_vendor i) ++ show_str (di_model i) ++ show_ostr (di_family i)
  ++ show_str (di_version i) ++ show_str (di_manufacturer i) ++ show_str (di_serial i) ++ show_ostr (di_user i)
  ++ [di_speed i]
  ++ (let '(n, a, b) := r_ctrl (snd x) in [n; a; b])
  ++ show_recv (r_event (snd x)) ++ show_recv (r_stream (snd x)).

Definition show_enum (r : lout (list (Z * devres))) : list Z :=
  match fst r with
  | Panic => [2]
  | Err e => [1; e; -7] ++ snd r
  | Ok l => [0; zlen l] ++ flat_map show_dev l ++ [-7] ++ snd r
  end.

Definition run_enum (list_code : Z) (ds : list dev) : list Z := show_enum (enumerate_devices list_code ds).
Definition run_enum_v0 (list_code : Z) (ds : list dev) : list Z := show_enum (enumerate_devices_v0 list_code ds).
