(* Model of register caching in /repo/genapi: DefaultCacheStore / CacheSink (store.rs),
   RegisterBase::{with_cache_or_read, read_and_cache, write_and_cache, address}
   (register_base.rs), the value / set_value / IRegister::read / IRegister::write paths of
   IntReg, MaskedIntReg (and StructReg entries), FloatReg, StringReg, Register, the Integer
   node (with <Value> = a variable in the value store, or with <pValue>), the Command node
   (execute, is_done), Port::write, ValueCtxt::clear_cache.

   A register system is a list of nodes; a node id is its index.  The address of a register
   is <Address> plus, for every <pIndex Offset=o>V</pIndex>, o * (value of the variable V)
   (RegPIndex::value, AddressKind::value, RegisterBase::address), computed with i64
   overflow checks (debug build).  The length is either immediate (<Length>) or the value of an
   Integer node with <Value> referenced by <pLength> (RegisterBase::length ->
   ImmOrPNode::value -> IInteger::value of the node = the variable of the value store; the
   same kind of variable <pIndex> refers to).  It is evaluated wherever the code evaluates it:
   with_cache_or_read: length, then address; IRegister::read: address, then length;
   write_and_cache: invalidate_cache_by, length, buffer check, address; IntReg / FloatReg
   set_value: invalidate_cache_by, length, encode, write_and_cache; MaskedIntReg: length again
   after the register value for the bit positions; StringReg::set_value: max_length = length
   first.  Cache keys are (node, address, CURRENT length).

   [on] says whether the context was built with DefaultCacheStore (true) or with
   .no_cache() = CacheSink (false): with CacheSink, cache() stores nothing, get_cache()
   finds nothing, invalidations and clear() do nothing - in the model the cache then stays
   empty, so only [c_put] looks at [on].

   [ver] selects the code version: [pinned] is the code before the three "fix:" commits of
   this property, [cur] the code after them:
     fix_wa  : write_and_cache drops the node's own entries when the register is WriteAround;
     fix_raw : write_and_cache starts with invalidate_cache_by(nid), so that IRegister::write
               invalidates the registers that declare the written one as pInvalidator;
     fix_own : write_and_cache of a WriteThrough register drops the node's own blocks
               (invalidate_cache_of(nid)) before it stores the written one, so that a block
               cached under another key of the same node - the same address under another
               length, a neighbouring selector position closer than the length - is not
               served after the write.

   The device: memory image at [base, base+|mem|); accesses outside fail (reads and writes
   alike, every time).  Scripted transient rejections apply to WRITE accesses only and are
   counted in write accesses (d_count counts writes; [dev_reject d k] = the k-th next write
   fails): a cached read that hits performs no access, so a transient failure of a read can
   never be observed identically with and without a cache, whereas both runs issue exactly
   the same writes.  Every access (also a failing one) is logged.

   Domain of the model (what the generator produces): AccessMode RW, no pIsAvailable /
   pIsImplemented / pIsLocked, pIndex and pLength nodes are Integer nodes with <Value>,
   <pValue> / command targets are integer-valued nodes; anything else yields the distinct
   error 92.  GUARD on lengths: the model describes lengths >= 0 (immediate or current value
   of the length variable); for a negative length the code computes `length as usize` >= 2^63
   (`vec![0; length as usize]` panics with "capacity overflow", buffer comparisons fail) - there
   the model is not a description of the code: it answers the distinct error 92 where the length
   reaches the cache layer (or the encoder's InvalidBuffer before that).  The generator keeps
   every length variable inside 0..=16 (a huge positive length would make the code allocate
   that many bytes). *)
From Cam Require Export Outcome Bytes Mem BitField RegCodec.

Record ver := { fix_wa : bool; fix_raw : bool; fix_own : bool }.
Definition pinned : ver := {| fix_wa := false; fix_raw := false; fix_own := false |}.
Definition cur : ver := {| fix_wa := true; fix_raw := true; fix_own := true |}.

(* caching modes *)
Definition WT : Z := 0.      (* WriteThrough *)
Definition WA : Z := 1.      (* WriteAround *)
Definition NC : Z := 2.      (* NoCache *)

Inductive rlen := LImm (l : Z) | LVar (slot : Z).

(* g_kind: 0 IntReg, 1 FloatReg, 2 StringReg, 3 Register, 4 MaskedIntReg / StructEntry *)
Record creg := {
  g_kind : Z; g_sign : Z; g_endian : Z; g_lsb : Z; g_msb : Z;
  g_base : Z;                      (* <Address> *)
  g_index : list (Z * Z);          (* <pIndex Offset=o>variable slot</pIndex>, in document order *)
  g_len : rlen;                    (* <Length>l</Length> or <pLength>variable slot</pLength> *)
  g_mode : Z;
  g_inval : list Z                 (* <pInvalidator> node ids *)
}.

Inductive cnode :=
| NReg (r : creg)
| NVar (slot : Z)                  (* Integer with <Value>: a variable of the value store *)
| NInt (t : Z)                     (* Integer with <pValue> *)
| NCmd (t : Z) (cv : Z).           (* Command with <pValue> and <CommandValue> *)

Record system := { y_nodes : list cnode; y_port : Z }.

Definition node_at (y : system) (n : Z) : option cnode :=
  if n <? 0 then None else nth_error (y_nodes y) (Z.to_nat n).

Definition key := (Z * Z * Z)%type.          (* node, address, length *)
Definition key_node (k : key) : Z := fst (fst k).
Definition key_addr (k : key) : Z := snd (fst k).
Definition key_len (k : key) : Z := snd k.

Definition key_eqb (k1 k2 : key) : bool :=
  (key_node k1 =? key_node k2) && (key_addr k1 =? key_addr k2) && (key_len k1 =? key_len k2).

Definition cache := list (key * list Z).

Record cst := { c_dev : dev; c_cache : cache; c_vars : list Z }.

Definition set_dev (s : cst) (d : dev) : cst :=
  {| c_dev := d; c_cache := c_cache s; c_vars := c_vars s |}.
Definition set_cache (s : cst) (c : cache) : cst :=
  {| c_dev := c_dev s; c_cache := c; c_vars := c_vars s |}.
Definition set_vars (s : cst) (v : list Z) : cst :=
  {| c_dev := c_dev s; c_cache := c_cache s; c_vars := v |}.

(* ---- DefaultCacheStore --------------------------------------------------------------------- *)

Fixpoint c_find (k : key) (c : cache) : option (list Z) :=
  match c with
  | [] => None
  | (k', bs) :: r => if key_eqb k k' then Some bs else c_find k r
  end.

Definition c_remove (k : key) (c : cache) : cache :=
  filter (fun e => negb (key_eqb k (fst e))) c.

(* CacheStore::cache *)
Definition c_put (on : bool) (k : key) (bs : list Z) (c : cache) : cache :=
  if on then (k, bs) :: c_remove k c else c.

Definition invals_of (y : system) (m : Z) : list Z :=
  match node_at y m with Some (NReg r) => g_inval r | _ => [] end.

(* CacheStore::invalidate_by: every register that names [n] as pInvalidator loses its entries *)
Definition c_inval_by (y : system) (n : Z) (c : cache) : cache :=
  filter (fun e => negb (zmem n (invals_of y (key_node (fst e))))) c.

(* CacheStore::invalidate_of *)
Definition c_inval_of (n : Z) (c : cache) : cache :=
  filter (fun e => negb (key_node (fst e) =? n)) c.

(* ---- device ---------------------------------------------------------------------------------- *)

Definition in_image (d : dev) (a n : Z) : bool :=
  negb ((a - d_base d <? 0) || (zlen (d_mem d) <? a - d_base d + n)).

Definition cdev_read (d : dev) (a n : Z) : outcome (list Z) * dev :=
  let d' := {| d_base := d_base d; d_mem := d_mem d; d_log := RdAcc a n :: d_log d;
               d_count := d_count d; d_rej := d_rej d |} in
  if in_image d a n then (Ok (take n (drop (a - d_base d) (d_mem d))), d') else (Err E_DEVICE, d').

Definition cdev_write (d : dev) (a : Z) (bs : list Z) : outcome unit * dev :=
  let ok := negb (zmem (d_count d) (d_rej d)) && in_image d a (zlen bs) in
  ((if ok then Ok tt else Err E_DEVICE),
   {| d_base := d_base d;
      d_mem := if ok then splice (a - d_base d) bs (d_mem d) else d_mem d;
      d_log := WrAcc a bs :: d_log d; d_count := d_count d + 1; d_rej := d_rej d |}).

(* ---- state monad with early exit ------------------------------------------------------------ *)

Definition M (A : Type) : Type := cst -> outcome A * cst.

Definition mret {A} (x : A) : M A := fun s => (Ok x, s).
Definition mlift {A} (x : outcome A) : M A := fun s => (x, s).
Definition mbind {A B} (m : M A) (f : A -> M B) : M B :=
  fun s => match m s with
           | (Ok a, s') => f a s'
           | (Err e, s') => (Err e, s')
           | (Panic, s') => (Panic, s')
           end.

Notation "'let!' x ':=' m 'in' k" := (mbind m (fun x => k))
  (at level 200, x pattern, m at level 100, k at level 200, right associativity).

Definition E_UNSUP : Z := 92.
Definition E_FUEL : Z := 93.

(* primitives *)
Definition m_inval_by (y : system) (n : Z) : M unit :=
  fun s => (Ok tt, set_cache s (c_inval_by y n (c_cache s))).
Definition m_inval_of (n : Z) : M unit :=
  fun s => (Ok tt, set_cache s (c_inval_of n (c_cache s))).
Definition m_clear : M unit := fun s => (Ok tt, set_cache s []).
Definition m_put (on : bool) (k : key) (bs : list Z) : M unit :=
  fun s => (Ok tt, set_cache s (c_put on k bs (c_cache s))).
Definition m_var_get (slot : Z) : M Z :=
  fun s => (Ok (nth (Z.to_nat slot) (c_vars s) 0), s).

Fixpoint list_set (i : nat) (v : Z) (l : list Z) : list Z :=
  match l, i with
  | [], _ => []
  | _ :: r, O => v :: r
  | x :: r, S j => x :: list_set j v r
  end.
Definition m_var_put (slot v : Z) : M unit :=
  fun s => (Ok tt, set_vars s (list_set (Z.to_nat slot) v (c_vars s))).

Definition m_dev_write (a : Z) (bs : list Z) : M unit :=
  fun s => let '(o, d) := cdev_write (c_dev s) a bs in (o, set_dev s d).

(* ---- RegisterBase ---------------------------------------------------------------------------- *)

(* RegisterBase::address: sum of the address kinds, i64 overflow checks *)
Fixpoint addr_index (ix : list (Z * Z)) (vars : list Z) (acc : Z) : outcome Z :=
  match ix with
  | [] => Ok acc
  | (slot, off) :: r =>
    let? p := chk_s 64 (nth (Z.to_nat slot) vars 0 * off) in
    let? acc' := chk_s 64 (acc + p) in
    addr_index r vars acc'
  end.

Definition address (r : creg) (vars : list Z) : outcome Z := addr_index (g_index r) vars (g_base r).

Definition m_address (r : creg) : M Z := fun s => (address r (c_vars s), s).

(* RegisterBase::length: the immediate, or the current value of the length variable *)
Definition len_of (r : creg) (vars : list Z) : Z :=
  match g_len r with LImm l => l | LVar slot => nth (Z.to_nat slot) vars 0 end.

Definition m_length (r : creg) : M Z := fun s => (Ok (len_of r (c_vars s)), s).

(* cacheable != CachingMode::NoCache (modes other than the three of the enum count as NoCache) *)
Definition cacheable (r : creg) : bool := (g_mode r =? WT) || (g_mode r =? WA).

(* the device read of read_and_cache followed by cx.cache_data unless NoCache *)
Definition m_read_and_cache (on : bool) (n : Z) (r : creg) (a l : Z) : M (list Z) :=
  fun s =>
    let '(o, d) := cdev_read (c_dev s) a l in
    match o with
    | Ok bs => (Ok bs, set_cache (set_dev s d)
                          (if cacheable r then c_put on (n, a, l) bs (c_cache s) else c_cache s))
    | Err e => (Err e, set_dev s d)
    | Panic => (Panic, set_dev s d)
    end.

(* RegisterBase::with_cache_or_read (the closure f is applied by the caller): length, address,
   get_cache(nid, address, length), else read_and_cache *)
Definition m_cached_bytes (on : bool) (n : Z) (r : creg) : M (list Z) :=
  let! l := m_length r in
  if l <? 0 then mlift (Err E_UNSUP) else
  let! a := m_address r in
  fun s =>
    match c_find (n, a, l) (c_cache s) with
    | Some bs => (Ok bs, s)
    | None => m_read_and_cache on n r a l s
    end.

(* IRegister::read with a caller buffer of [blen] bytes: address, length, read_and_cache *)
Definition m_raw_read (on : bool) (n : Z) (r : creg) (blen : Z) : M (list Z) :=
  let! a := m_address r in
  let! l := m_length r in
  if l <? 0 then mlift (Err E_UNSUP) else
  if negb (blen =? l) then mlift (Err E_INVALID_BUFFER) else
  m_read_and_cache on n r a l.

(* RegisterBase::write_and_cache, with Port::write inlined *)
Definition m_write_and_cache (on : bool) (v : ver) (y : system) (n : Z) (r : creg) (buf : list Z) : M unit :=
  let! _ := (if fix_raw v then m_inval_by y n else mret tt) in
  let! l := m_length r in
  if l <? 0 then mlift (Err E_UNSUP) else
  if negb (zlen buf =? l) then mlift (Err E_INVALID_BUFFER) else
  let! a := m_address r in
  let! _ := m_inval_by y (y_port y) in                       (* Port::write *)
  let! _ := m_dev_write a buf in
  if g_mode r =? WT then
    let! _ := (if fix_own v then m_inval_of n else mret tt) in
    m_put on (n, a, l) buf
  else if (g_mode r =? WA) && fix_wa v then m_inval_of n
  else mret tt.

(* ---- register nodes -------------------------------------------------------------------------- *)

Definition rcfg (r : creg) (l : Z) : regcfg := {| r_addr := g_base r; r_len := l; r_endian := g_endian r |}.
Definition ncfg (r : creg) : nodecfg :=
  {| n_kind := g_kind r; n_sign := g_sign r; n_lsb := g_lsb r; n_msb := g_msb r |}.

(* IntRegNode::value *)
Definition m_intreg_value (on : bool) (n : Z) (r : creg) : M Z :=
  let! bs := m_cached_bytes on n r in mlift (int_from_slice bs (g_endian r) (g_sign r)).

(* IntRegNode::set_value *)
Definition m_intreg_set (on : bool) (v : ver) (y : system) (n : Z) (r : creg) (x : Z) : M unit :=
  let! _ := m_inval_by y n in
  let! l := m_length r in
  let! buf := mlift (bytes_from_int x l (g_endian r) (g_sign r)) in
  m_write_and_cache on v y n r buf.

(* MaskedIntRegNode::value *)
Definition m_masked_value (on : bool) (n : Z) (r : creg) : M Z :=
  let! reg := m_intreg_value on n r in
  let! len := m_length r in
  mlift (let? (l, m) := norm_field (rcfg r len) (ncfg r) in Ok (bm_apply l m (g_sign r) reg)).

(* MaskedIntRegNode::set_value: read-modify-write *)
Definition m_masked_set (on : bool) (v : ver) (y : system) (n : Z) (r : creg) (x : Z) : M unit :=
  let! _ := m_inval_by y n in
  let! old := m_intreg_value on n r in
  let! len := m_length r in
  let! nv := mlift (let? (l, m) := norm_field (rcfg r len) (ncfg r) in bm_masked l m (g_sign r) old x) in
  let! buf := mlift (bytes_from_int nv len (g_endian r) (g_sign r)) in
  m_write_and_cache on v y n r buf.

(* FloatRegNode *)
Definition m_float_value (on : bool) (n : Z) (r : creg) : M Z :=
  let! bs := m_cached_bytes on n r in mlift (float_from_slice bs (g_endian r)).
Definition m_float_set (on : bool) (v : ver) (y : system) (n : Z) (r : creg) (bits : Z) : M unit :=
  let! _ := m_inval_by y n in
  let! l := m_length r in
  let! buf := mlift (bytes_from_float bits l (g_endian r)) in
  m_write_and_cache on v y n r buf.

(* StringRegNode (value: the bytes up to the first NUL) *)
Definition m_string_value (on : bool) (n : Z) (r : creg) : M (list Z) :=
  let! bs := m_cached_bytes on n r in mret (until_nul bs).
Definition m_string_set (on : bool) (v : ver) (y : system) (n : Z) (r : creg) (s : list Z) : M unit :=
  let! l := m_length r in                                    (* max_length *)
  if negb (is_ascii s) || has_nul s then mlift (Err E_INVALID_DATA)
  else if l <? zlen s then mlift (Err E_INVALID_DATA)
  else
    let! _ := m_inval_by y n in
    m_write_and_cache on v y n r (s ++ repeat 0 (Z.to_nat (l - zlen s))).

(* ---- integer-valued nodes (IValue<i64> for NodeId) ------------------------------------------ *)

Fixpoint m_ival (fuel : nat) (on : bool) (y : system) (n : Z) : M Z :=
  match fuel with
  | O => mlift (Err E_FUEL)
  | S f =>
    match node_at y n with
    | Some (NReg r) =>
      if g_kind r =? 0 then m_intreg_value on n r
      else if g_kind r =? 4 then m_masked_value on n r
      else mlift (Err E_UNSUP)
    | Some (NVar slot) => m_var_get slot
    | Some (NInt t) => m_ival f on y t
    | Some (NCmd _ _) => mlift (Err E_INVALID_NODE)
    | None => mlift (Err E_UNSUP)
    end
  end.

Fixpoint m_iset (fuel : nat) (on : bool) (v : ver) (y : system) (n x : Z) : M unit :=
  match fuel with
  | O => mlift (Err E_FUEL)
  | S f =>
    match node_at y n with
    | Some (NReg r) =>
      if g_kind r =? 0 then m_intreg_set on v y n r x
      else if g_kind r =? 4 then m_masked_set on v y n r x
      else mlift (Err E_UNSUP)
    | Some (NVar slot) => let! _ := m_inval_by y n in m_var_put slot x
    | Some (NInt t) => let! _ := m_inval_by y n in m_iset f on v y t x
    | Some (NCmd _ _) => mlift (Err E_NOT_WRITABLE)
    | None => mlift (Err E_UNSUP)
    end
  end.

Definition fuel_of (y : system) : nat := S (length (y_nodes y)).

(* ---- operations of a history ----------------------------------------------------------------- *)

Inductive cop :=
| OpValue (n : Z)                 (* value() through the node's IInteger / IFloat / IString interface *)
| OpSet (n : Z) (args : list Z)   (* set_value: [v] for integers, [bits] for floats, the bytes for strings *)
| OpRawRead (n : Z) (blen : Z)    (* IRegister::read into a buffer of blen bytes *)
| OpRawWrite (n : Z) (bs : list Z)(* IRegister::write *)
| OpExec (n : Z)                  (* ICommand::execute *)
| OpDone (n : Z)                  (* ICommand::is_done *)
| OpClear                         (* ValueCtxt::clear_cache *)
| OpReject (k : Z).               (* the k-th next device write fails *)

(* selecting = setting the selector variable *)
Definition OpSelect (n v : Z) : cop := OpSet n [v].

Definition E_NO_NODE : Z := 91.

Definition pr_unit (m : M unit) : cst -> list Z * cst := fun s => let '(o, s') := m s in (sh_unit o, s').
Definition pr_z (m : M Z) : cst -> list Z * cst := fun s => let '(o, s') := m s in (sh_z o, s').
Definition pr_bytes (m : M (list Z)) : cst -> list Z * cst := fun s => let '(o, s') := m s in (sh_bytes o, s').
Definition pr_str (m : M (list Z)) : cst -> list Z * cst := fun s => let '(o, s') := m s in (sh_str o, s').
Definition pr_const (l : list Z) : cst -> list Z * cst := fun s => (lpz l, s).

Definition step (on : bool) (v : ver) (y : system) (op : cop) : cst -> list Z * cst :=
  match op with
  | OpValue n =>
    match node_at y n with
    | None => pr_const [1; E_NO_NODE]
    | Some (NReg r) =>
      if (g_kind r =? 0) || (g_kind r =? 4) then pr_z (m_ival (fuel_of y) on y n)
      else if g_kind r =? 1 then pr_z (let! b := m_float_value on n r in mret (canon_nan b))
      else if g_kind r =? 2 then pr_str (m_string_value on n r)
      else pr_const [1; E_NO_IFACE]
    | Some (NCmd _ _) => pr_const [1; E_NO_IFACE]
    | Some _ => pr_z (m_ival (fuel_of y) on y n)
    end
  | OpSet n args =>
    match node_at y n with
    | None => pr_const [1; E_NO_NODE]
    | Some (NReg r) =>
      if (g_kind r =? 0) || (g_kind r =? 4) then
        match args with [x] => pr_unit (m_iset (fuel_of y) on v y n x) | _ => pr_const [1; E_UNSUP] end
      else if g_kind r =? 1 then
        match args with [x] => pr_unit (m_float_set on v y n r x) | _ => pr_const [1; E_UNSUP] end
      else if g_kind r =? 2 then pr_unit (m_string_set on v y n r args)
      else pr_const [1; E_NO_IFACE]
    | Some (NCmd _ _) => pr_const [1; E_NO_IFACE]
    | Some _ =>
      match args with [x] => pr_unit (m_iset (fuel_of y) on v y n x) | _ => pr_const [1; E_UNSUP] end
    end
  | OpRawRead n blen =>
    match node_at y n with
    | None => pr_const [1; E_NO_NODE]
    | Some (NReg r) => pr_bytes (m_raw_read on n r blen)
    | Some _ => pr_const [1; E_NO_IFACE]
    end
  | OpRawWrite n bs =>
    match node_at y n with
    | None => pr_const [1; E_NO_NODE]
    | Some (NReg r) => pr_unit (m_write_and_cache on v y n r bs)
    | Some _ => pr_const [1; E_NO_IFACE]
    end
  | OpExec n =>
    match node_at y n with
    | None => pr_const [1; E_NO_NODE]
    | Some (NCmd t cv) => pr_unit (let! _ := m_inval_by y n in m_iset (fuel_of y) on v y t cv)
    | Some _ => pr_const [1; E_NO_IFACE]
    end
  | OpDone n =>
    match node_at y n with
    | None => pr_const [1; E_NO_NODE]
    | Some (NCmd t cv) =>
      pr_z (let! _ := m_inval_of t in let! x := m_ival (fuel_of y) on y t in mret (if cv =? x then 0 else 1))
    | Some _ => pr_const [1; E_NO_IFACE]
    end
  | OpClear => fun s => (lpz [0], set_cache s [])
  | OpReject k => fun s => (lpz [0], set_dev s (dev_reject (c_dev s) k))
  end.

Fixpoint run_ops (on : bool) (v : ver) (y : system) (h : list cop) (s : cst) : list Z * cst :=
  match h with
  | [] => ([], s)
  | op :: rest =>
    let '(o, s1) := step on v y op s in
    let '(os, s2) := run_ops on v y rest s1 in
    (o ++ os, s2)
  end.

Definition init (base : Z) (image vars rej : list Z) : cst :=
  {| c_dev := {| d_base := base; d_mem := image; d_log := []; d_count := 0; d_rej := rej |};
     c_cache := []; c_vars := vars |}.

(* what a run shows: the per-operation results, the access log, the final image *)
Definition run (on : bool) (v : ver) (y : system) (base : Z) (image vars rej : list Z) (h : list cop)
  : list Z * cst := run_ops on v y h (init base image vars rej).

Definition outputs (x : list Z * cst) : list Z := fst x.
Definition final_mem (x : list Z * cst) : list Z := d_mem (c_dev (snd x)).
Definition access_log (x : list Z * cst) : list access := d_log (c_dev (snd x)).   (* newest first *)

Definition run_show (on : bool) (v : ver) (y : system) (base : Z) (image vars rej : list Z) (h : list cop)
  : list Z := let x := run on v y base image vars rej h in outputs x ++ show_dev (c_dev (snd x)).

(* both runs of one case, separated by -9 *)
Definition run_both (v : ver) (y : system) (base : Z) (image vars : list Z) (h : list cop) : list Z :=
  run_show true v y base image vars [] h ++ (-9) :: run_show false v y base image vars [] h.
