(* Model of what #[register_map] (impl/macros/src/register_map.rs) does for a
   `BitField<ty, LSB = .., MSB = ..>` register, as Gallina functions of the macro parameters
   (bits in {8,16,32,64}, signedness, declared LSB/MSB, endianness of the map).

   Two stages, as in the macro:
   * expansion time (inside the proc-macro, usize / i128 arithmetic, overflow checks on: a panic of
     the attribute is a compile error = [None]): BitField::{lsb,msb,verify,min,max};
   * run time (the generated functions mask(), parse(), masked_int(), write(), at type `ty`, debug
     build: arithmetic overflow and over-long shifts panic).

   A value of type `ty` is its mathematical integer (signed representative for iN).  The bit
   operations of Z on those representatives are the machine operations (infinite two's complement);
   `>>` on a signed value is the arithmetic shift = Z.shiftr, on an unsigned value the logical one =
   Z.shiftr as well.

   [W] is the width of the integer type used for min/max inside the macro: 64 at the pinned commit,
   128 after "fix: compute bit-field min/max in i128".  [sign_mask_fix] selects T::MIN (fixed code)
   or T::MAX (pinned code) in mask() for lsb = bits-1. *)
From Cam Require Export Outcome Bytes.

Inductive endian := LE | BE.

Definition ME_INVALID_DATA : Z := 43.     (* MemoryError::InvalidRegisterData *)

(* ---- the type `ty` ------------------------------------------------------------------------ *)
Definition t_min (bits : Z) (signed : bool) : Z := if signed then - 2 ^ (bits - 1) else 0.
Definition t_max (bits : Z) (signed : bool) : Z := if signed then 2 ^ (bits - 1) - 1 else 2 ^ bits - 1.
Definition t_cast (bits : Z) (signed : bool) (z : Z) : Z := if signed then sw bits z else wrapu bits z.
Definition t_in (bits : Z) (signed : bool) (z : Z) : bool := (t_min bits signed <=? z) && (z <=? t_max bits signed).
(* checked + / - / neg *)
Definition t_chk (bits : Z) (signed : bool) (z : Z) : outcome Z := if t_in bits signed z then Ok z else Panic.
(* x << k : panics only when k >= bits; bits shifted out are lost *)
Definition t_shl (bits : Z) (signed : bool) (x k : Z) : outcome Z :=
  if (0 <=? k) && (k <? bits) then Ok (t_cast bits signed (x * 2 ^ k)) else Panic.
Definition t_shr (bits : Z) (x k : Z) : outcome Z :=
  if (0 <=? k) && (k <? bits) then Ok (Z.shiftr x k) else Panic.
Definition t_not (bits : Z) (signed : bool) (x : Z) : Z := if signed then Z.lnot x else 2 ^ bits - 1 - x.

(* ---- expansion time ------------------------------------------------------------------------ *)
(* BitField::lsb / msb : usize arithmetic `len - raw - 1` for BE *)
Definition mt_pos (bits : Z) (e : endian) (raw : Z) : option Z :=
  match e with
  | LE => Some raw
  | BE => if 0 <=? bits - raw - 1 then Some (bits - raw - 1) else None
  end.

Definition mt_chk (W z : Z) : option Z := if in_s W z then Some z else None.
Definition mt_shl (W x k : Z) : option Z := if (0 <=? k) && (k <? W) then Some (sw W (x * 2 ^ k)) else None.

(* BitField::min : if signed { let value = 1 << (msb - lsb); -value } else { 0 } *)
Definition mt_min (W : Z) (signed : bool) (lsb msb : Z) : option Z :=
  if signed then
    match mt_shl W 1 (msb - lsb) with
    | Some v => mt_chk W (- v)
    | None => None
    end
  else Some 0.

(* BitField::max : if signed { (1 << (msb - lsb)) - 1 } else { (1 << (msb - lsb + 1)) - 1 } *)
Definition mt_max (W : Z) (signed : bool) (lsb msb : Z) : option Z :=
  match mt_shl W 1 (if signed then msb - lsb else msb - lsb + 1) with
  | Some v => mt_chk W (v - 1)
  | None => None
  end.

(* what the expansion fixes for the generated code: normalised positions and `#min as #ty`, `#max as #ty` *)
Record bfcode := { c_bits : Z; c_signed : bool; c_lsb : Z; c_msb : Z; c_min : Z; c_max : Z }.

Definition expand_bf (W : Z) (bits : Z) (signed : bool) (e : endian) (rawlsb rawmsb : Z) : option bfcode :=
  match mt_pos bits e rawlsb, mt_pos bits e rawmsb with
  | Some lsb, Some msb =>
    (* BitField::verify *)
    if (msb <? lsb) || (bits <=? msb) then None
    else
      match mt_min W signed lsb msb, mt_max W signed lsb msb with
      | Some mn, Some mx =>
        Some {| c_bits := bits; c_signed := signed; c_lsb := lsb; c_msb := msb;
                c_min := t_cast bits signed mn; c_max := t_cast bits signed mx |}
      | _, _ => None
      end
  | _, _ => None
  end.

(* ---- run time: generated functions ----------------------------------------------------------- *)
Section Gen.
Variable sign_mask_fix : bool.
Variable c : bfcode.
Let bits := c_bits c.
Let sg := c_signed c.
Let lsb := c_lsb c.
Let msb := c_msb c.

(* fn mask() -> ty *)
Definition gen_mask : outcome Z :=
  if sg then
    let? mask1 :=
      if bits - 1 =? msb then Ok (-1)
      else if bits - 2 =? msb then Ok (t_max bits sg)
      else (let? a := t_shl bits sg 1 (msb + 1) in t_chk bits sg (a - 1)) in
    let? mask2 :=
      if bits - 1 =? lsb then Ok (if sign_mask_fix then t_min bits sg else t_max bits sg)
      else (let? a := t_shl bits sg 1 lsb in let? b := t_chk bits sg (a - 1) in Ok (t_not bits sg b)) in
    Ok (Z.land mask1 mask2)
  else
    let? mask1 :=
      if bits - 1 =? msb then Ok (t_max bits sg)
      else (let? a := t_shl bits sg 1 (msb + 1) in t_chk bits sg (a - 1)) in
    let? a := t_shl bits sg 1 lsb in
    let? b := t_chk bits sg (a - 1) in
    Ok (Z.land mask1 (t_not bits sg b)).

(* the body of parse() after the register value [v : ty] has been read *)
Definition gen_parse (v : Z) : outcome Z :=
  let? m := gen_mask in
  let value := Z.land v m in
  let? value := t_shr bits value lsb in
  if sg then
    let? one := t_shl bits sg 1 (msb - lsb) in
    if negb (Z.land one value =? 0) then
      let? m' := gen_mask in
      let? ms := t_shr bits m' lsb in
      Ok (Z.lor value (Z.lxor (-1) ms))
    else Ok value
  else Ok value.

(* fn masked_int(data: ty) -> MemoryResult<ty> *)
Definition gen_masked_int (data : Z) : outcome Z :=
  if (data <? c_min c) || (c_max c <? data) then Err ME_INVALID_DATA
  else
    let? d := t_shl bits sg data lsb in
    let? m := gen_mask in
    Ok (Z.land d m).

(* the new register value computed by write(): (original & !mask) | masked_int(data) *)
Definition gen_new_value (orig data : Z) : outcome Z :=
  let? d := gen_masked_int data in
  let? m := gen_mask in
  Ok (Z.lor (Z.land orig (t_not bits sg m)) d).
End Gen.

(* ---- scalars <-> bytes (impl/src/bytes_io.rs) -------------------------------------------------- *)
Definition eorder (e : endian) (bs : list Z) : list Z := match e with LE => bs | BE => rev bs end.

Definition t_of_bytes (bits : Z) (signed : bool) (e : endian) (bs : list Z) : Z :=
  let p := of_le (eorder e bs) in if signed then sw bits p else p.

Definition t_to_bytes (bits : Z) (e : endian) (v : Z) : list Z :=
  eorder e (le_bytes (Z.to_nat (bits / 8)) (wrapu bits v)).

(* data.read_bytes_xx::<ty>() : read_exact of size_of::<ty>() bytes from the front of the slice *)
Definition read_scalar (bits : Z) (signed : bool) (e : endian) (data : list Z) : outcome Z :=
  if zlen data <? bits / 8 then Err ME_INVALID_DATA
  else Ok (t_of_bytes bits signed e (take (bits / 8) data)).

(* slice.write_bytes_xx(v) : io::Write for &mut [u8] copies as much as fits to the front, Ok(n) *)
Definition write_front (img region : list Z) : list Z :=
  let n := Z.min (zlen img) (zlen region) in take n img ++ drop n region.

(* Register::write generated for a BitField, on the register's own bytes [region] *)
Definition gen_write (fix_ : bool) (c : bfcode) (e : endian) (data : Z) (region : list Z) : outcome (list Z) :=
  let? d := gen_masked_int fix_ c data in
  let? orig := read_scalar (c_bits c) (c_signed c) e region in
  let? m := gen_mask fix_ c in
  let nv := Z.lor (Z.land orig (t_not (c_bits c) (c_signed c) m)) d in
  Ok (write_front (t_to_bytes (c_bits c) e nv) region).

(* Register::read generated for a BitField *)
Definition gen_read (fix_ : bool) (c : bfcode) (e : endian) (region : list Z) : outcome Z :=
  let? v := read_scalar (c_bits c) (c_signed c) e region in
  gen_parse fix_ c v.
