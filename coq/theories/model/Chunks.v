(* Model of device/src/u3v/protocol/cmd.rs: ReadMem::chunks / ReadMemChunks::next,
   WriteMem::chunks / WriteMemChunks::next, ReadMem::maximum_read_length.
   Integers are unbounded Z; usize/u64/u16 arithmetic is written with the
   debug-build overflow rule (Panic). *)
From Cam Require Export Outcome Bytes.


Definition ACK_HEADER_LENGTH : Z := 12.   (* 4 + 8 *)
Definition CMD_HEADER_LEN : Z := 12.      (* header_len() = 4 + CommandCcd::len() *)
Definition WRITE_HEADER_LEN : Z := 20.    (* header_len() + 8 *)

(* ---- read side ------------------------------------------------------ *)

Record rstate := { r_addr : Z; r_len : Z; r_max : Z }.

(* ReadMem::chunks(&self, ack_len) *)
Definition read_chunks_init (addr len ack_len : Z) : outcome rstate :=
  if ack_len <=? ACK_HEADER_LENGTH then Err E_INVALID_PACKET
  else Ok {| r_addr := addr; r_len := len; r_max := ack_len - ACK_HEADER_LENGTH |}.

(* ReadMemChunks::next: None is [Ok None]. *)
Definition read_next (s : rstate) : outcome (option ((Z * Z) * rstate)) :=
  if r_len s =? 0 then Ok None
  else if r_max s <? r_len s then
    (* next_item = ReadMem::new(address, max as u16); read_length -= max as u16;
       address += max as u64 *)
    let item := (r_addr s, wrapu 16 (r_max s)) in
    let? len' := chk_u 16 (r_len s - wrapu 16 (r_max s)) in
    let? addr' := chk_u 64 (r_addr s + r_max s) in
    Ok (Some (item, {| r_addr := addr'; r_len := len'; r_max := r_max s |}))
  else
    Ok (Some ((r_addr s, r_len s), {| r_addr := r_addr s; r_len := 0; r_max := r_max s |})).

Fixpoint read_collect (fuel : nat) (s : rstate) : outcome (list (Z * Z)) :=
  match fuel with
  | O => Err (-1)                                   (* out of fuel *)
  | S f =>
    let? o := read_next s in
    match o with
    | None => Ok []
    | Some (item, s') => let? r := read_collect f s' in Ok (item :: r)
    end
  end.

Definition read_chunks (addr len ack_len : Z) : outcome (list (Z * Z)) :=
  let? s := read_chunks_init addr len ack_len in
  read_collect (S (Z.to_nat len)) s.

(* ReadMem::maximum_read_length(maximum_ack_len) -> u16 (usize subtraction, debug) *)
Definition maximum_read_length (maximum_ack_len : Z) : outcome Z :=
  let? d := chk_u 64 (maximum_ack_len - ACK_HEADER_LENGTH) in
  Ok (if d <? 2 ^ 16 then d else 65535).

(* ---- write side ----------------------------------------------------- *)

(* into_scd_len *)
Definition into_scd_len (len : Z) : outcome Z :=
  if len <? 2 ^ 16 then Ok len else Err E_INVALID_PACKET.

(* WriteMem::new: returns (address, data) when both lengths fit u16. *)
Definition write_mem_new (addr : Z) (data : list Z) : outcome (Z * list Z) :=
  let? _ := into_scd_len (zlen data) in
  let? _ := into_scd_len (zlen data + 8) in
  Ok (addr, data).

Definition unwrap {A} (x : outcome A) : outcome A :=
  match x with Err _ => Panic | o => o end.

Record wstate := { w_addr : Z; w_data : list Z; w_idx : Z; w_max : Z }.

Definition write_chunks_init (addr : Z) (data : list Z) (cmd_len : Z) : outcome wstate :=
  if cmd_len <=? WRITE_HEADER_LEN then Err E_INVALID_PACKET
  else Ok {| w_addr := addr; w_data := data; w_idx := 0; w_max := cmd_len - WRITE_HEADER_LEN |}.

Definition write_next (s : wstate) : outcome (option ((Z * list Z) * wstate)) :=
  if w_idx s =? zlen (w_data s) then Ok None
  else if w_idx s + w_max s <? zlen (w_data s) then
    let? item := unwrap (write_mem_new (w_addr s) (take (w_max s) (drop (w_idx s) (w_data s)))) in
    let? addr' := chk_u 64 (w_addr s + w_max s) in
    Ok (Some (item, {| w_addr := addr'; w_data := w_data s;
                       w_idx := w_idx s + w_max s; w_max := w_max s |}))
  else
    let? item := unwrap (write_mem_new (w_addr s) (drop (w_idx s) (w_data s))) in
    Ok (Some (item, {| w_addr := w_addr s; w_data := w_data s;
                       w_idx := zlen (w_data s); w_max := w_max s |})).

Fixpoint write_collect (fuel : nat) (s : wstate) : outcome (list (Z * list Z)) :=
  match fuel with
  | O => Err (-1)
  | S f =>
    let? o := write_next s in
    match o with
    | None => Ok []
    | Some (item, s') => let? r := write_collect f s' in Ok (item :: r)
    end
  end.

(* WriteMem::new(addr, data)?.chunks(cmd_len)?.collect() *)
Definition write_chunks (addr : Z) (data : list Z) (cmd_len : Z) : outcome (list (Z * list Z)) :=
  let? w := write_mem_new addr data in
  let? s := write_chunks_init (fst w) (snd w) cmd_len in
  write_collect (S (length data)) s.

(* ---- drivers used by the correspondence ------------------------------ *)

Definition show_pairs (l : list (Z * Z)) : list Z :=
  flat_map (fun p => [fst p; snd p]) l.

(* case: read a len budget *)
Definition run_c10_read (a n b : Z) : list Z :=
  show_outcome show_pairs (read_chunks a n b).

(* write data is (seed + i) mod 256 for i < n, so cases stay small *)
Fixpoint pat_from (k : nat) (x : Z) : list Z :=
  match k with O => [] | S k' => (x mod 256) :: pat_from k' (x + 1) end.
Definition pat_data (seed n : Z) : list Z := pat_from (Z.to_nat n) seed.

Definition show_wchunks (l : list (Z * list Z)) : list Z :=
  flat_map (fun p => fst p :: zlen (snd p) :: (match snd p with [] => -1 | b :: _ => b end)
                     :: [last (snd p) (-1)]) l.

Definition run_c10_write (a n seed b : Z) : list Z :=
  show_outcome show_wchunks (write_chunks a (pat_data seed n) b).

Definition run_c10_maxread (m : Z) : list Z :=
  show_outcome (fun z => [z]) (maximum_read_length m).
