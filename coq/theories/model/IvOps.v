(* Operation vocabulary of tools/translate_ivalue.py (gen/IValueSrc.v) - hand-written, no proofs.

   The translated code is the value-dispatch layer of the GenApi node interpreter: genapi/src/ivalue.rs (trait IValue
   with every implementation), the provided methods of trait ValueStore (store.rs), the I*Kind::maybe_from tables
   (interface.rs) with NodeId::as_*_kind / expect_*_kind (store.rs), and the value paths of IntegerNode / FloatNode /
   BooleanNode / EnumerationNode / CommandNode.  Its computations run in the state monad [M] of model/Graph.v (value
   store + recording device).  What the translated code does NOT contain is given its meaning here, in terms of the
   primitives of model/Graph.v:

   * [ivenv]: the float oracle, the node store, the continuation [ie_call] for a request the code sends to ANOTHER
     node through an interface kind (IIntegerKind::value .. - `ambassador` delegates it to the node's own
     implementation; Graph.v's open recursion: the proofs instantiate it with [run fuel]), and [ie_entry], the
     EnumEntry node behind a NodeId (Graph.v inlines the entries into the enumeration);
   * a NodeId / IntegerId / FloatId / StringId is a [nat] (position in the node store / the value store), an i64 a Z,
     an f64 its bit pattern, a String its bytes, ValueData is [vslot] (Integer = VI, Float = VF, Str = VS; Boolean has
     no counterpart and is refused by the translator where it would matter);
   * `x as f64` / `x as i64` are the oracle's conversions ([i2f] / [f2i] of Graph.v);
   * the cache forwarders `cx.invalidate_cache_by` / `cx.invalidate_cache_of` do nothing: Graph.v is the model of a
     store built with no_cache() (CacheSink, whose methods are translated - as identities - in gen/CachePathSrc.v);
     the cached behaviour is C04's. *)
From Cam Require Import Outcome Bytes Mem BitField RegCodec Formula Graph.

Record ivenv := {
  ie_fops : float_ops;
  ie_nodes : list node;
  ie_call : req -> M ans;
  ie_entry : nat -> option eentry
}.

(* `?` on an Option inside a function that returns Option *)
Definition iv_obind {A B} (o : option A) (k : A -> option B) : option B :=
  match o with Some a => k a | None => None end.

(* Result::map *)
Definition iv_map {A B} (m : M A) (f : A -> B) : M B := let! a := m in mret (f a).
(* Option::unwrap / Result::unwrap *)
Definition iv_unwrap {A} (o : option A) : M A := match o with Some a => mret a | None => mpanic end.
Definition iv_unwrap_result {A} (m : M A) : M A :=
  fun s => match m s with (Ok a, s') => (Ok a, s') | (_, s') => (Panic, s') end.
(* Option::ok_or_else(|| error) *)
Definition iv_ok_or {A} (o : option A) (e : Z) : M A := match o with Some a => mret a | None => merr e end.

(* `for x in l { body }` where the body is a sequence of `..?;` statements *)
Definition iv_for {A} (l : list A) (body : A -> M unit) : M unit := mfold body l.

(* `l.iter().map(f).any(g)`: lazily, in order, stops at the first element for which g holds *)
Fixpoint iv_iter_map_any {A B} (l : list A) (f : A -> M B) (g : B -> bool) : M bool :=
  match l with
  | [] => mret false
  | x :: r => let! y := f x in if g y then mret true else iv_iter_map_any r f g
  end.

(* `a? && b`: b (with its own `?`s) is evaluated only if a is true *)
Definition iv_and (a b : M bool) : M bool := let! x := a in if x then b else mret false.

Section Ops.
  Variable E : ivenv.

  Definition iv_f64_as_i64 (b : Z) : Z := f2i (ie_fops E) b.
  Definition iv_i64_as_f64 (z : Z) : Z := i2f (ie_fops E) z.

  (* cx.value_store.<provided method>(id): the method is a function of the store's `value_opt` *)
  Definition iv_value_store_ {A} (f : (nat -> option vslot) -> A) : M A :=
    fun s => (Ok (f (fun id => nth_error (s_vals s) id)), s).
  (* cx.value_store_mut().update(id, value.into()); (the old value it returns is dropped) *)
  Definition iv_update_ (vid : nat) (x : vslot) : M unit := vid_set vid x.

  (* store.node_opt(id) as far as the kind tables look at it: the variant of the node *)
  Definition iv_node_opt (n : nat) : option body :=
    match nth_error (ie_nodes E) n with Some nd => Some (nd_body nd) | None => None end.

  (* the methods of the interface kinds (delegated to the node the kind refers to) *)
  Definition iv_IInteger_value (n : nat) : M Z := let! a := ie_call E (QIntValue n) in as_z a.
  Definition iv_IInteger_set_value (n : nat) (v : Z) : M unit := let! a := ie_call E (QIntSet n v) in as_u a.
  Definition iv_IInteger_is_readable (n : nat) : M bool := let! a := ie_call E (QReadable n) in as_b a.
  Definition iv_IFloat_value (n : nat) : M Z := let! a := ie_call E (QFltValue n) in as_z a.
  Definition iv_IFloat_set_value (n : nat) (v : Z) : M unit := let! a := ie_call E (QFltSet n v) in as_u a.
  Definition iv_IFloat_is_readable (n : nat) : M bool := let! a := ie_call E (QReadable n) in as_b a.
  Definition iv_IEnumeration_current_value (n : nat) : M Z := let! a := ie_call E (QEnumValue n) in as_z a.
  Definition iv_IEnumeration_set_entry_by_value (n : nat) (v : Z) : M unit := let! a := ie_call E (QEnumSet n v) in as_u a.
  Definition iv_IEnumeration_is_readable (n : nat) : M bool := let! a := ie_call E (QReadable n) in as_b a.
  Definition iv_IBoolean_value (n : nat) : M bool := let! a := ie_call E (QBoolValue n) in as_b a.
  Definition iv_IBoolean_set_value (n : nat) (v : bool) : M unit := let! a := ie_call E (QBoolSet n v) in as_u a.
  Definition iv_IBoolean_is_readable (n : nat) : M bool := let! a := ie_call E (QReadable n) in as_b a.
  Definition iv_IString_value (n : nat) : M (list Z) := let! a := ie_call E (QStrValue n) in as_l a.
  Definition iv_IString_set_value (n : nat) (v : list Z) : M unit := let! a := ie_call E (QStrSet n v) in as_u a.
  Definition iv_IString_is_readable (n : nat) : M bool := let! a := ie_call E (QReadable n) in as_b a.

  (* nid.expect_enum_entry(store) *)
  Definition iv_expect_enum_entry (n : nat) : M eentry :=
    match ie_entry E n with Some e => mret e | None => merr Mem.E_INVALID_NODE end.

End Ops.

(* these do not depend on the environment; the translator passes it uniformly *)
Definition iv_value_store (E : ivenv) {A} (f : (nat -> option vslot) -> A) : M A := iv_value_store_ f.
Definition iv_update (E : ivenv) (vid : nat) (x : vslot) : M unit := iv_update_ vid x.
(* cx.invalidate_cache_by(nid) / cx.invalidate_cache_of(nid) over CacheSink *)
Definition iv_cx_invalidate_cache_by (E : ivenv) (n : nat) : M unit := mret tt.
Definition iv_cx_invalidate_cache_of (E : ivenv) (n : nat) : M unit := mret tt.
