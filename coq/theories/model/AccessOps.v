(* Operation vocabulary of tools/translate_access.py (no proofs). *)
From Cam Require Export Outcome Access.

(* `opt.map_or(Ok(dflt), |nid| f(nid))` *)
Definition src_map_or (r : option nat) (dflt : bool) (f : nat -> outcome bool) : outcome bool :=
  match r with
  | None => Ok dflt
  | Some n => f n
  end.

Definition amode_eqb (a b : amode) : bool :=
  match a, b with RO, RO | WO, WO | RW, RW => true | _, _ => false end.

(* `matches!(m, A | B ...)` *)
Definition mode_in (l : list amode) (m : amode) : bool := existsb (amode_eqb m) l.
