(* Model of PayloadBuilder::build (cameleon/src/u3v/stream_handle.rs) and of the
   Payload views image() / payload() / into_vec() (cameleon/src/payload.rs), with
   Rust's panic-on-out-of-range slicing rule. *)
From Cam Require Export Outcome Bytes Ack Stream.

Definition E_INVALID_PAYLOAD : Z := 20.

Record image_info := {
  ii_width : Z; ii_height : Z; ii_xoff : Z; ii_yoff : Z; ii_pf : Z; ii_image_size : Z
}.

Record payload := {
  p_id : Z; p_type : Z; p_info : option image_info; p_buf : list Z; p_valid : Z; p_timestamp : Z
}.

Definition stream_err {A} (x : outcome A) : outcome A :=
  match x with Err _ => Err E_INVALID_PAYLOAD | o => o end.

(* backwards chunk walk; returns the data size of the first chunk (the image).
   &buf[off..off+4] panics when it leaves the buffer. *)
Fixpoint chunk_walk (fuel : nat) (buf : list Z) (off : Z) : outcome Z :=
  match fuel with
  | O => Err (-1)
  | S f =>
    if off <? 4 then Err E_INVALID_PAYLOAD else
    let off1 := off - 4 in
    if zlen buf <? off1 + 4 then Panic else
    let data_size := of_be (take 4 (drop off1 buf)) in
    if off1 <? data_size + 4 then Err E_INVALID_PAYLOAD else
    let off2 := off1 - (data_size + 4) in
    if off2 =? 0 then Ok data_size else chunk_walk f buf off2
  end.

Definition build (l : leader) (t : trailer) (buf : list Z) (read_size : Z) : outcome payload :=
  if negb (t_status t =? 0) then Err E_INVALID_PAYLOAD else
  if read_size <? t_valid t then Err E_INVALID_PAYLOAD else
  if l_type l =? 0 then
    let? il := stream_err (parse_image_leader (l_raw l)) in
    let? h := stream_err (parse_image_trailer (t_raw t)) in
    Ok {| p_id := l_block_id l; p_type := 0;
          p_info := Some {| ii_width := il_width il; ii_height := h; ii_xoff := il_xoff il;
                            ii_yoff := il_yoff il; ii_pf := il_pf il; ii_image_size := t_valid t |};
          p_buf := buf; p_valid := t_valid t; p_timestamp := il_timestamp il |}
  else if l_type l =? 1 then
    let? il := stream_err (parse_image_leader (l_raw l)) in
    let? hc := stream_err (parse_ext_trailer (t_raw t)) in
    let? isz := chunk_walk (S (Z.to_nat (t_valid t / 8))) buf (t_valid t) in
    Ok {| p_id := l_block_id l; p_type := 1;
          p_info := Some {| ii_width := il_width il; ii_height := fst hc; ii_xoff := il_xoff il;
                            ii_yoff := il_yoff il; ii_pf := il_pf il; ii_image_size := isz |};
          p_buf := buf; p_valid := t_valid t; p_timestamp := il_timestamp il |}
  else
    let? ts := stream_err (parse_chunk_leader (l_raw l)) in
    let? _ := stream_err (parse_chunk_trailer (t_raw t)) in
    Ok {| p_id := l_block_id l; p_type := 2; p_info := None; p_buf := buf; p_valid := t_valid t;
          p_timestamp := ts |}.

(* &self.payload[..n] *)
Definition slice_to (buf : list Z) (n : Z) : outcome (list Z) :=
  if zlen buf <? n then Panic else Ok (take n buf).

Definition view_image (p : payload) : outcome (option (list Z)) :=
  match p_info p with
  | None => Ok None
  | Some ii => omap Some (slice_to (p_buf p) (ii_image_size ii))
  end.

Definition view_payload (p : payload) : outcome (list Z) := slice_to (p_buf p) (p_valid p).
