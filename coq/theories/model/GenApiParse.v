(* Model of the GenApi XML parser, genapi/src/parser/*.rs (after the "fix:" commits 70ffa75 and fb880c0).

   XML text -> tree is roxmltree's job and is taken as given: a document is a tree
   [xml := Elem tag attrs children | Text chars | Comment chars]; strings are lists of Unicode scalar
   values.  On trees the model follows the code step by step:
     - xml.rs: the child cursor ([peek] skips non-element nodes, [parse_if], [parse_while], [next_if],
       [next_text]), attribute lookup, [TextView::view] ([text_of]; the pinned version is [text_view_v0]);
     - elem_type.rs: convert_to_int / convert_to_uint / convert_to_bool, f64 special forms, the ImmOrPNode
       sniffing on the first character, the enumerated texts ([match_text_view!] -> unreachable!() = Panic),
       ValueKind / PValue / PIndex / ValueIndexed / AddressKind / RegPIndex / BitMask / NamedValue;
     - node_base.rs, register_base.rs and the node kinds; struct_reg.rs with the merge_impl! rules
       ([into_masked_int_regs]; [fixed = false] is the pinned code before 70ffa75); group.rs; mod.rs ([parse_doc]).
   Abstractions (see notes/C17.md): NodeId = the node's name (string_interner is a bijection between names
   and ids); a value id = the value stored under it (ValueStoreBuilder::store returns a fresh id each time);
   an ordinary decimal float literal is kept as its text (str::parse::<f64> is Rust's); a formula is kept as
   its text (formula::parse is property C05); char::is_alphabetic is exact on ASCII and false elsewhere.
   Panics ([unwrap] on None / Err, [unreachable!], [todo!], [debug_assert!]) are [Panic]. *)
From Cam Require Export Outcome.
From Coq Require Import String Ascii.
Open Scope Z_scope.

Definition str := list Z.

Fixpoint s2l (s : string) : str :=
  match s with
  | EmptyString => []
  | String a r => Z.of_N (N_of_ascii a) :: s2l r
  end.

Fixpoint str_eqb (a b : str) : bool :=
  match a, b with
  | [], [] => true
  | x :: a', y :: b' => (x =? y) && str_eqb a' b'
  | _, _ => false
  end.

Definition mem_str (s : str) (l : list str) : bool := existsb (str_eqb s) l.

Definition T_Node : str := Eval vm_compute in s2l "Node".
Definition T_Category : str := Eval vm_compute in s2l "Category".
Definition T_Integer : str := Eval vm_compute in s2l "Integer".
Definition T_IntReg : str := Eval vm_compute in s2l "IntReg".
Definition T_MaskedIntReg : str := Eval vm_compute in s2l "MaskedIntReg".
Definition T_Boolean : str := Eval vm_compute in s2l "Boolean".
Definition T_Command : str := Eval vm_compute in s2l "Command".
Definition T_Enumeration : str := Eval vm_compute in s2l "Enumeration".
Definition T_EnumEntry : str := Eval vm_compute in s2l "EnumEntry".
Definition T_Float : str := Eval vm_compute in s2l "Float".
Definition T_FloatReg : str := Eval vm_compute in s2l "FloatReg".
Definition T_String : str := Eval vm_compute in s2l "String".
Definition T_StringReg : str := Eval vm_compute in s2l "StringReg".
Definition T_Register : str := Eval vm_compute in s2l "Register".
Definition T_Converter : str := Eval vm_compute in s2l "Converter".
Definition T_IntConverter : str := Eval vm_compute in s2l "IntConverter".
Definition T_SwissKnife : str := Eval vm_compute in s2l "SwissKnife".
Definition T_IntSwissKnife : str := Eval vm_compute in s2l "IntSwissKnife".
Definition T_Port : str := Eval vm_compute in s2l "Port".
Definition T_ConfRom : str := Eval vm_compute in s2l "ConfRom".
Definition T_TextDesc : str := Eval vm_compute in s2l "TextDesc".
Definition T_IntKey : str := Eval vm_compute in s2l "IntKey".
Definition T_AdvFeatureLock : str := Eval vm_compute in s2l "AdvFeatureLock".
Definition T_SmartFeature : str := Eval vm_compute in s2l "SmartFeature".
Definition T_StructReg : str := Eval vm_compute in s2l "StructReg".
Definition T_StructEntry : str := Eval vm_compute in s2l "StructEntry".
Definition T_Group : str := Eval vm_compute in s2l "Group".
Definition T_pInvalidator : str := Eval vm_compute in s2l "pInvalidator".
Definition T_pSelected : str := Eval vm_compute in s2l "pSelected".
Definition T_pFeature : str := Eval vm_compute in s2l "pFeature".
Definition T_pVariable : str := Eval vm_compute in s2l "pVariable".
Definition T_pIsImplemented : str := Eval vm_compute in s2l "pIsImplemented".
Definition T_pIsAvailable : str := Eval vm_compute in s2l "pIsAvailable".
Definition T_pIsLocked : str := Eval vm_compute in s2l "pIsLocked".
Definition T_pBlockPolling : str := Eval vm_compute in s2l "pBlockPolling".
Definition T_pError : str := Eval vm_compute in s2l "pError".
Definition T_pAlias : str := Eval vm_compute in s2l "pAlias".
Definition T_pCastAlias : str := Eval vm_compute in s2l "pCastAlias".
Definition T_Streamable : str := Eval vm_compute in s2l "Streamable".
Definition T_PollingTime : str := Eval vm_compute in s2l "PollingTime".
Definition T_OnValue : str := Eval vm_compute in s2l "OnValue".
Definition T_OffValue : str := Eval vm_compute in s2l "OffValue".
Definition T_NumericValue : str := Eval vm_compute in s2l "NumericValue".
Definition T_IsSelfClearing : str := Eval vm_compute in s2l "IsSelfClearing".
Definition T_Min : str := Eval vm_compute in s2l "Min".
Definition T_pMin : str := Eval vm_compute in s2l "pMin".
Definition T_Max : str := Eval vm_compute in s2l "Max".
Definition T_pMax : str := Eval vm_compute in s2l "pMax".
Definition T_Inc : str := Eval vm_compute in s2l "Inc".
Definition T_pInc : str := Eval vm_compute in s2l "pInc".
Definition T_Constant : str := Eval vm_compute in s2l "Constant".
Definition T_Expression : str := Eval vm_compute in s2l "Expression".
Definition T_Sign : str := Eval vm_compute in s2l "Sign".
Definition T_Unit : str := Eval vm_compute in s2l "Unit".
Definition T_Representation : str := Eval vm_compute in s2l "Representation".
Definition T_DisplayNotation : str := Eval vm_compute in s2l "DisplayNotation".
Definition T_DisplayPrecision : str := Eval vm_compute in s2l "DisplayPrecision".
Definition T_Endianess : str := Eval vm_compute in s2l "Endianess".
Definition T_Extension : str := Eval vm_compute in s2l "Extension".
Definition T_Description : str := Eval vm_compute in s2l "Description".
Definition T_DisplayName : str := Eval vm_compute in s2l "DisplayName".
Definition T_Visibility : str := Eval vm_compute in s2l "Visibility".
Definition T_DocuURL : str := Eval vm_compute in s2l "DocuURL".
Definition T_IsDeprecated : str := Eval vm_compute in s2l "IsDeprecated".
Definition T_EventID : str := Eval vm_compute in s2l "EventID".
Definition T_ImposedAccessMode : str := Eval vm_compute in s2l "ImposedAccessMode".
Definition T_Address : str := Eval vm_compute in s2l "Address".
Definition T_pAddress : str := Eval vm_compute in s2l "pAddress".
Definition T_Index : str := Eval vm_compute in s2l "Index".
Definition T_pIndex : str := Eval vm_compute in s2l "pIndex".
Definition T_AccessMode : str := Eval vm_compute in s2l "AccessMode".
Definition T_Cachable : str := Eval vm_compute in s2l "Cachable".
Definition T_Value : str := Eval vm_compute in s2l "Value".
Definition T_pValue : str := Eval vm_compute in s2l "pValue".
Definition T_pValueCopy : str := Eval vm_compute in s2l "pValueCopy".
Definition T_ValueIndexed : str := Eval vm_compute in s2l "ValueIndexed".
Definition T_pValueIndexed : str := Eval vm_compute in s2l "pValueIndexed".
Definition T_Bit : str := Eval vm_compute in s2l "Bit".
Definition T_Slope : str := Eval vm_compute in s2l "Slope".
Definition T_IsLinear : str := Eval vm_compute in s2l "IsLinear".
Definition T_ChunkID : str := Eval vm_compute in s2l "ChunkID".
Definition T_pChunkID : str := Eval vm_compute in s2l "pChunkID".
Definition T_SwapEndianess : str := Eval vm_compute in s2l "SwapEndianess".
Definition T_CacheChunkData : str := Eval vm_compute in s2l "CacheChunkData".
Definition T_Name : str := Eval vm_compute in s2l "Name".
Definition T_NameSpace : str := Eval vm_compute in s2l "NameSpace".
Definition T_MergePriority : str := Eval vm_compute in s2l "MergePriority".
Definition T_ExposeStatic : str := Eval vm_compute in s2l "ExposeStatic".
Definition T_RegisterDescription : str := Eval vm_compute in s2l "RegisterDescription".
Definition T_ModelName : str := Eval vm_compute in s2l "ModelName".
Definition T_VendorName : str := Eval vm_compute in s2l "VendorName".
Definition T_ToolTip : str := Eval vm_compute in s2l "ToolTip".
Definition T_StandardNameSpace : str := Eval vm_compute in s2l "StandardNameSpace".
Definition T_SchemaMajorVersion : str := Eval vm_compute in s2l "SchemaMajorVersion".
Definition T_SchemaMinorVersion : str := Eval vm_compute in s2l "SchemaMinorVersion".
Definition T_SchemaSubMinorVersion : str := Eval vm_compute in s2l "SchemaSubMinorVersion".
Definition T_MajorVersion : str := Eval vm_compute in s2l "MajorVersion".
Definition T_MinorVersion : str := Eval vm_compute in s2l "MinorVersion".
Definition T_SubMinorVersion : str := Eval vm_compute in s2l "SubMinorVersion".
Definition T_ProductGuid : str := Eval vm_compute in s2l "ProductGuid".
Definition T_VersionGuid : str := Eval vm_compute in s2l "VersionGuid".
Definition T_Offset : str := Eval vm_compute in s2l "Offset".
Definition T_pOffset : str := Eval vm_compute in s2l "pOffset".
Definition T_Length : str := Eval vm_compute in s2l "Length".
Definition T_pLength : str := Eval vm_compute in s2l "pLength".
Definition T_pPort : str := Eval vm_compute in s2l "pPort".
Definition T_LSB : str := Eval vm_compute in s2l "LSB".
Definition T_MSB : str := Eval vm_compute in s2l "MSB".
Definition T_ValueDefault : str := Eval vm_compute in s2l "ValueDefault".
Definition T_pValueDefault : str := Eval vm_compute in s2l "pValueDefault".
Definition T_CommandValue : str := Eval vm_compute in s2l "CommandValue".
Definition T_pCommandValue : str := Eval vm_compute in s2l "pCommandValue".
Definition T_Formula : str := Eval vm_compute in s2l "Formula".
Definition T_FormulaTo : str := Eval vm_compute in s2l "FormulaTo".
Definition T_FormulaFrom : str := Eval vm_compute in s2l "FormulaFrom".
Definition L_Standard : str := Eval vm_compute in s2l "Standard".
Definition L_Custom : str := Eval vm_compute in s2l "Custom".
Definition L_Beginner : str := Eval vm_compute in s2l "Beginner".
Definition L_Expert : str := Eval vm_compute in s2l "Expert".
Definition L_Guru : str := Eval vm_compute in s2l "Guru".
Definition L_Invisible : str := Eval vm_compute in s2l "Invisible".
Definition L_RO : str := Eval vm_compute in s2l "RO".
Definition L_WO : str := Eval vm_compute in s2l "WO".
Definition L_RW : str := Eval vm_compute in s2l "RW".
Definition L_Linear : str := Eval vm_compute in s2l "Linear".
Definition L_Logarithmic : str := Eval vm_compute in s2l "Logarithmic".
Definition L_PureNumber : str := Eval vm_compute in s2l "PureNumber".
Definition L_HexNumber : str := Eval vm_compute in s2l "HexNumber".
Definition L_IPV4Address : str := Eval vm_compute in s2l "IPV4Address".
Definition L_MACAddress : str := Eval vm_compute in s2l "MACAddress".
Definition L_Increasing : str := Eval vm_compute in s2l "Increasing".
Definition L_Decreasing : str := Eval vm_compute in s2l "Decreasing".
Definition L_Varying : str := Eval vm_compute in s2l "Varying".
Definition L_Automatic : str := Eval vm_compute in s2l "Automatic".
Definition L_Fixed : str := Eval vm_compute in s2l "Fixed".
Definition L_Scientific : str := Eval vm_compute in s2l "Scientific".
Definition L_None : str := Eval vm_compute in s2l "None".
Definition L_IIDC : str := Eval vm_compute in s2l "IIDC".
Definition L_GEV : str := Eval vm_compute in s2l "GEV".
Definition L_CL : str := Eval vm_compute in s2l "CL".
Definition L_USB : str := Eval vm_compute in s2l "USB".
Definition L_WriteThrough : str := Eval vm_compute in s2l "WriteThrough".
Definition L_WriteAround : str := Eval vm_compute in s2l "WriteAround".
Definition L_NoCache : str := Eval vm_compute in s2l "NoCache".
Definition L_Yes : str := Eval vm_compute in s2l "Yes".
Definition L_No : str := Eval vm_compute in s2l "No".
Definition L_true : str := Eval vm_compute in s2l "true".
Definition L_false : str := Eval vm_compute in s2l "false".
Definition L_LittleEndian : str := Eval vm_compute in s2l "LittleEndian".
Definition L_BigEndian : str := Eval vm_compute in s2l "BigEndian".
Definition L_Signed : str := Eval vm_compute in s2l "Signed".
Definition L_Unsigned : str := Eval vm_compute in s2l "Unsigned".
Definition L_INF : str := Eval vm_compute in s2l "INF".
Definition L_NaN : str := Eval vm_compute in s2l "NaN".
Definition L_Boolean : str := T_Boolean.
Definition L_NegINF : str := Eval vm_compute in s2l "-INF".
Definition L_1 : str := Eval vm_compute in s2l "1".
Definition L_0 : str := Eval vm_compute in s2l "0".
Definition L_m1 : str := Eval vm_compute in s2l "-1".

(* ------------------------------------------------------------------------------------------------ *)
(* trees and the child cursor (xml.rs)                                                               *)

Inductive xml :=
| Elem (tag : str) (attrs : list (str * str)) (children : list xml)
| Text (s : str)
| Comment (s : str).

(* peek: the next element child (non-element nodes are skipped) and what follows it *)
Fixpoint peek (c : list xml) : option (str * list (str * str) * list xml * list xml) :=
  match c with
  | [] => None
  | Elem t a ch :: r => Some (t, a, ch, r)
  | _ :: r => peek r
  end.

Fixpoint attribute_of (name : str) (attrs : list (str * str)) : option str :=
  match attrs with
  | [] => None
  | (k, v) :: r => if str_eqb k name then Some v else attribute_of name r
  end.

(* TextView::view after fb880c0: the concatenation of the text children *)
Fixpoint text_of (ch : list xml) : str :=
  match ch with
  | [] => []
  | Text s :: r => s ++ text_of r
  | _ :: r => text_of r
  end.

(* TextView::view as pinned: first_child().unwrap(); a single child answers with roxmltree's Node::text
   (text of a text node, text of a comment, first text child of an element) *)
Definition text_view_v0 (ch : list xml) : outcome str :=
  match ch with
  | [] => Panic
  | [Text s] => Ok s
  | [Comment s] => Ok s
  | [Elem _ _ (Text s :: _)] => Ok s
  | [Elem _ _ _] => Panic
  | _ => Ok (text_of ch)
  end.

(* a parser working on the cursor of one element: remaining children in, value and remaining children out *)
Definition P (A : Type) : Type := list xml -> outcome (A * list xml).

Definition ret {A} (a : A) : P A := fun c => Ok (a, c).
Definition fail {A} : P A := fun _ => Panic.
Definition bindP {A B} (p : P A) (f : A -> P B) : P B :=
  fun c => match p c with
           | Ok (a, c') => f a c'
           | Err e => Err e
           | Panic => Panic
           end.
Notation "'let!' x ':=' p 'in' q" := (bindP p (fun x => q))
  (at level 200, x pattern, p at level 100, q at level 200, right associativity).
Definition lift {A} (x : outcome A) : P A :=
  fun c => match x with Ok a => Ok (a, c) | Err e => Err e | Panic => Panic end.
Definition mapP {A B} (f : A -> B) (p : P A) : P B := let! a := p in ret (f a).

Definition E_FUEL : Z := 99.

(* Node::parse_if *)
Definition parse_if {A} (tag : str) (p : P A) : P (option A) :=
  fun c => match peek c with
           | Some (t, _, _, _) => if str_eqb t tag then mapP Some p c else Ok (None, c)
           | None => Ok (None, c)
           end.

(* Option::or_else between two parse_if *)
Definition or_else {A} (p q : P (option A)) : P (option A) :=
  let! x := p in match x with Some a => ret (Some a) | None => q end.

(* while let Some(x) = step { push } ; every successful step consumes at least one child, so the number of
   children bounds the number of iterations (fuel) *)
Fixpoint loop_f {A} (fuel : nat) (step : P (option A)) : P (list A) :=
  match fuel with
  | O => fun _ => Err E_FUEL
  | S f => let! x := step in
           match x with
           | Some a => let! r := loop_f f step in ret (a :: r)
           | None => ret []
           end
  end.
Definition loop {A} (step : P (option A)) : P (list A) := fun c => loop_f (S (List.length c)) step c.

(* Node::parse_while *)
Definition parse_while {A} (tag : str) (p : P A) : P (list A) := loop (parse_if tag p).

(* Node::next / next_if : the element itself (attributes and children) *)
Definition next_elem : P (option (str * list (str * str) * list xml)) :=
  fun c => match peek c with
           | Some (t, a, ch, r) => Ok (Some (t, a, ch), r)
           | None => Ok (None, c)
           end.
Definition next_if (tag : str) : P (option (list (str * str) * list xml)) :=
  fun c => match peek c with
           | Some (t, a, ch, r) => if str_eqb t tag then Ok (Some (a, ch), r) else Ok (None, c)
           | None => Ok (None, c)
           end.
(* node.next_text().unwrap() *)
Definition next_text : P str :=
  fun c => match peek c with
           | Some (_, _, ch, r) => Ok (text_of ch, r)
           | None => Panic
           end.
(* node.peek().unwrap() : text / attribute of the next element without consuming it *)
Definition peek_text : P str :=
  fun c => match peek c with Some (_, _, ch, _) => Ok (text_of ch, c) | None => Panic end.
Definition peek_attr (name : str) : P (option str) :=
  fun c => match peek c with Some (_, a, _, _) => Ok (attribute_of name a, c) | None => Panic end.
Definition peek_tag : P str :=
  fun c => match peek c with Some (t, _, _, _) => Ok (t, c) | None => Panic end.

(* ------------------------------------------------------------------------------------------------ *)
(* literal conversion (elem_type.rs)                                                                 *)

Definition is_alpha (c : Z) : bool := ((65 <=? c) && (c <=? 90)) || ((97 <=? c) && (c <=? 122)).

(* char::to_digit *)
Definition char_digit (radix c : Z) : option Z :=
  let d := if (48 <=? c) && (c <=? 57) then c - 48
           else if (97 <=? c) && (c <=? 122) then c - 87
           else if (65 <=? c) && (c <=? 90) then c - 55
           else 99 in
  if d <? radix then Some d else None.

Fixpoint digits_acc (radix : Z) (cs : str) (acc : Z) : option Z :=
  match cs with
  | [] => Some acc
  | c :: r => match char_digit radix c with
              | Some d => digits_acc radix r (acc * radix + d)
              | None => None
              end
  end.

Definition I64_MIN : Z := -9223372036854775808.
Definition I64_MAX : Z := 9223372036854775807.
Definition U64_MAX : Z := 18446744073709551615.

(* {i64,u64}::from_str_radix(..).unwrap(): optional '+' (and '-' for the signed type), at least one digit,
   the value inside the type *)
Definition from_str_radix (signed : bool) (radix : Z) (s : str) : outcome Z :=
  let '(neg, ds) := match s with
                    | 43 :: r => (false, r)
                    | 45 :: r => if signed then (true, r) else (false, s)
                    | _ => (false, s)
                    end in
  match ds with
  | [] => Panic
  | _ => match digits_acc radix ds 0 with
         | None => Panic
         | Some v => let z := if neg then - v else v in
                     if signed then (if (I64_MIN <=? z) && (z <=? I64_MAX) then Ok z else Panic)
                     else (if z <=? U64_MAX then Ok z else Panic)
         end
  end.

Definition has_hex_prefix (s : str) : option str :=
  match s with
  | 48 :: 120 :: r => Some r
  | 48 :: 88 :: r => Some r
  | _ => None
  end.

Definition convert_to_int (s : str) : outcome Z :=
  match has_hex_prefix s with
  | Some r => from_str_radix true 16 r
  | None => from_str_radix true 10 s
  end.
Definition convert_to_uint (s : str) : outcome Z :=
  match has_hex_prefix s with
  | Some r => from_str_radix false 16 r
  | None => from_str_radix false 10 s
  end.

Definition convert_to_bool_opt (s : str) : option bool :=
  if str_eqb s L_Yes || str_eqb s L_true then Some true
  else if str_eqb s L_No || str_eqb s L_false then Some false
  else None.
Definition convert_to_bool (s : str) : outcome bool :=
  match convert_to_bool_opt s with Some b => Ok b | None => Panic end.

(* printers (used by the renderer) *)
Definition digit_char (up : bool) (d : Z) : Z :=
  if d <? 10 then 48 + d else (if up then 55 else 87) + d.
Fixpoint to_digits (fuel : nat) (b n : Z) : list Z :=
  match fuel with
  | O => []
  | S f => if n <? b then [n] else to_digits f b (n / b) ++ [n mod b]
  end.
Definition print_nat (up : bool) (b n : Z) : str :=
  map (digit_char up) (to_digits (S (Z.to_nat (Z.log2 n))) b n).
Definition print_dec (z : Z) : str := if z <? 0 then 45 :: print_nat false 10 (- z) else print_nat false 10 z.

(* a float as the parser produces it: the two special forms, or the text handed to str::parse::<f64>
   ("NaN" included), or (defaults only) a bit pattern *)
Inductive fval := FvInf | FvNegInf | FvText (t : str) | FvBits (b : Z).

Definition convert_to_f64 (s : str) : fval :=
  if str_eqb s L_INF then FvInf else if str_eqb s L_NegINF then FvNegInf else FvText s.

(* ---- leaf parsers: one element, its text ---- *)
Definition p_string : P str := next_text.
Definition p_nodeid : P str := next_text.
Definition p_bool : P bool := let! t := next_text in lift (convert_to_bool t).
Definition p_i64 : P Z := let! t := next_text in lift (convert_to_int t).
Definition p_u64 : P Z := let! t := next_text in lift (convert_to_uint t).
Definition p_hex64 : P Z := let! t := next_text in lift (from_str_radix false 16 t).
Definition p_f64 : P fval := let! t := next_text in ret (convert_to_f64 t).

Fixpoint assoc_str {A} (s : str) (tbl : list (str * A)) : option A :=
  match tbl with
  | [] => None
  | (k, v) :: r => if str_eqb s k then Some v else assoc_str s r
  end.
(* match_text_view! : unreachable!() when no arm matches *)
Definition p_enum {A} (tbl : list (str * A)) : P A :=
  let! t := next_text in match assoc_str t tbl with Some v => ret v | None => fail end.
Definition attr_enum {A} (tbl : list (str * A)) (s : str) : outcome A :=
  match assoc_str s tbl with Some v => Ok v | None => Panic end.

Inductive imm (A : Type) := Imm (a : A) | PNode (n : str).
Arguments Imm {A} a.
Arguments PNode {A} n.
Definition imm_map {A B} (f : A -> B) (x : imm A) : imm B :=
  match x with Imm a => Imm (f a) | PNode n => PNode n end.

(* ImmOrPNode<i64>::parse : text.chars().next().unwrap().is_alphabetic() *)
Definition p_imm_i64 : P (imm Z) :=
  let! t := peek_text in
  match t with
  | [] => fail
  | c :: _ => if is_alpha c then mapP PNode p_nodeid else mapP Imm p_i64
  end.
(* ImmOrPNode<f64>::parse *)
Definition p_imm_f64 : P (imm fval) :=
  let! t := peek_text in
  if str_eqb t L_INF || str_eqb t L_NegINF || str_eqb t L_NaN then mapP Imm p_f64
  else match t with
       | [] => fail
       | c :: _ => if is_alpha c then mapP PNode p_nodeid else mapP Imm p_f64
       end.
(* ImmOrPNode<bool>::parse *)
Definition p_imm_bool : P (imm bool) :=
  let! t := peek_text in
  match convert_to_bool_opt t with
  | Some _ => mapP Imm p_bool
  | None => mapP PNode p_nodeid
  end.
