(* Model of the GenApi XML parser, genapi/src/parser/*.rs (after the "fix:" commits 70ffa75 and fb880c0).

   XML text -> tree is roxmltree's job and is taken as given: a document is a tree
   [xml := Elem tag attrs children | Text chars | Comment chars | PI target data]; strings are lists of Unicode scalar
   values.  On trees the model follows the code step by step:
     - xml.rs: the child cursor ([peek] skips non-element nodes, [parse_if], [parse_while], [next_if],
       [next_text]), attribute lookup, [TextView::view] ([text_of]; the pinned version is [text_view_v0]);
     - elem_type.rs: convert_to_int / convert_to_uint / convert_to_bool, f64 special forms, the ImmOrPNode
       sniffing on the first character, the enumerated texts ([match_text_view!] -> unreachable!() = Panic),
       ValueKind / PValue / PIndex / ValueIndexed / AddressKind / RegPIndex / BitMask / NamedValue;
       every node kind of mod.rs incl. Converter / IntConverter / SwissKnife / IntSwissKnife (formula and
       expression texts are opaque strings at this level: formula::parse is property C05);
     - node_base.rs, register_base.rs and the node kinds; struct_reg.rs with the merge_impl! rules
       ([into_masked_int_regs]; [fixed = false] is the pinned code before 70ffa75); group.rs; mod.rs ([parse_doc]).
   Abstractions (see notes/C17.md): NodeId = the node's name (string_interner is a bijection between names
   and ids); a value id = the value stored under it (ValueStoreBuilder::store returns a fresh id each time);
   an ordinary decimal float literal is kept as its text (str::parse::<f64> is Rust's); a formula is kept as
   its text (formula::parse is property C05); char::is_alphabetic is exact on ASCII and false elsewhere.
   Panics ([unwrap] on None / Err, [unreachable!], [todo!], [debug_assert!]) are [Panic]. *)
From Cam Require Export Outcome.
From Coq Require Import String Ascii.
Open Scope Z_scope.

Definition str := list Z.

Fixpoint s2l (s : string) : str :=
  match s with
  | EmptyString => []
  | String a r => Z.of_N (N_of_ascii a) :: s2l r
  end.

Fixpoint str_eqb (a b : str) : bool :=
  match a, b with
  | [], [] => true
  | x :: a', y :: b' => (x =? y) && str_eqb a' b'
  | _, _ => false
  end.

Definition mem_str (s : str) (l : list str) : bool := existsb (str_eqb s) l.

Definition T_Node : str := Eval vm_compute in s2l "Node".
Definition T_Category : str := Eval vm_compute in s2l "Category".
Definition T_Integer : str := Eval vm_compute in s2l "Integer".
Definition T_IntReg : str := Eval vm_compute in s2l "IntReg".
Definition T_MaskedIntReg : str := Eval vm_compute in s2l "MaskedIntReg".
Definition T_Boolean : str := Eval vm_compute in s2l "Boolean".
Definition T_Command : str := Eval vm_compute in s2l "Command".
Definition T_Enumeration : str := Eval vm_compute in s2l "Enumeration".
Definition T_EnumEntry : str := Eval vm_compute in s2l "EnumEntry".
Definition T_Float : str := Eval vm_compute in s2l "Float".
Definition T_FloatReg : str := Eval vm_compute in s2l "FloatReg".
Definition T_String : str := Eval vm_compute in s2l "String".
Definition T_StringReg : str := Eval vm_compute in s2l "StringReg".
Definition T_Register : str := Eval vm_compute in s2l "Register".
Definition T_Converter : str := Eval vm_compute in s2l "Converter".
Definition T_IntConverter : str := Eval vm_compute in s2l "IntConverter".
Definition T_SwissKnife : str := Eval vm_compute in s2l "SwissKnife".
Definition T_IntSwissKnife : str := Eval vm_compute in s2l "IntSwissKnife".
Definition T_Port : str := Eval vm_compute in s2l "Port".
Definition T_ConfRom : str := Eval vm_compute in s2l "ConfRom".
Definition T_TextDesc : str := Eval vm_compute in s2l "TextDesc".
Definition T_IntKey : str := Eval vm_compute in s2l "IntKey".
Definition T_AdvFeatureLock : str := Eval vm_compute in s2l "AdvFeatureLock".
Definition T_SmartFeature : str := Eval vm_compute in s2l "SmartFeature".
Definition T_StructReg : str := Eval vm_compute in s2l "StructReg".
Definition T_StructEntry : str := Eval vm_compute in s2l "StructEntry".
Definition T_Group : str := Eval vm_compute in s2l "Group".
Definition T_pInvalidator : str := Eval vm_compute in s2l "pInvalidator".
Definition T_pSelected : str := Eval vm_compute in s2l "pSelected".
Definition T_pFeature : str := Eval vm_compute in s2l "pFeature".
Definition T_pVariable : str := Eval vm_compute in s2l "pVariable".
Definition T_pIsImplemented : str := Eval vm_compute in s2l "pIsImplemented".
Definition T_pIsAvailable : str := Eval vm_compute in s2l "pIsAvailable".
Definition T_pIsLocked : str := Eval vm_compute in s2l "pIsLocked".
Definition T_pBlockPolling : str := Eval vm_compute in s2l "pBlockPolling".
Definition T_pError : str := Eval vm_compute in s2l "pError".
Definition T_pAlias : str := Eval vm_compute in s2l "pAlias".
Definition T_pCastAlias : str := Eval vm_compute in s2l "pCastAlias".
Definition T_Streamable : str := Eval vm_compute in s2l "Streamable".
Definition T_PollingTime : str := Eval vm_compute in s2l "PollingTime".
Definition T_OnValue : str := Eval vm_compute in s2l "OnValue".
Definition T_OffValue : str := Eval vm_compute in s2l "OffValue".
Definition T_NumericValue : str := Eval vm_compute in s2l "NumericValue".
Definition T_IsSelfClearing : str := Eval vm_compute in s2l "IsSelfClearing".
Definition T_Min : str := Eval vm_compute in s2l "Min".
Definition T_pMin : str := Eval vm_compute in s2l "pMin".
Definition T_Max : str := Eval vm_compute in s2l "Max".
Definition T_pMax : str := Eval vm_compute in s2l "pMax".
Definition T_Inc : str := Eval vm_compute in s2l "Inc".
Definition T_pInc : str := Eval vm_compute in s2l "pInc".
Definition T_Constant : str := Eval vm_compute in s2l "Constant".
Definition T_Expression : str := Eval vm_compute in s2l "Expression".
Definition T_Sign : str := Eval vm_compute in s2l "Sign".
Definition T_Unit : str := Eval vm_compute in s2l "Unit".
Definition T_Representation : str := Eval vm_compute in s2l "Representation".
Definition T_DisplayNotation : str := Eval vm_compute in s2l "DisplayNotation".
Definition T_DisplayPrecision : str := Eval vm_compute in s2l "DisplayPrecision".
Definition T_Endianess : str := Eval vm_compute in s2l "Endianess".
Definition T_Extension : str := Eval vm_compute in s2l "Extension".
Definition T_Description : str := Eval vm_compute in s2l "Description".
Definition T_DisplayName : str := Eval vm_compute in s2l "DisplayName".
Definition T_Visibility : str := Eval vm_compute in s2l "Visibility".
Definition T_DocuURL : str := Eval vm_compute in s2l "DocuURL".
Definition T_IsDeprecated : str := Eval vm_compute in s2l "IsDeprecated".
Definition T_EventID : str := Eval vm_compute in s2l "EventID".
Definition T_ImposedAccessMode : str := Eval vm_compute in s2l "ImposedAccessMode".
Definition T_Address : str := Eval vm_compute in s2l "Address".
Definition T_pAddress : str := Eval vm_compute in s2l "pAddress".
Definition T_Index : str := Eval vm_compute in s2l "Index".
Definition T_pIndex : str := Eval vm_compute in s2l "pIndex".
Definition T_AccessMode : str := Eval vm_compute in s2l "AccessMode".
Definition T_Cachable : str := Eval vm_compute in s2l "Cachable".
Definition T_Value : str := Eval vm_compute in s2l "Value".
Definition T_pValue : str := Eval vm_compute in s2l "pValue".
Definition T_pValueCopy : str := Eval vm_compute in s2l "pValueCopy".
Definition T_ValueIndexed : str := Eval vm_compute in s2l "ValueIndexed".
Definition T_pValueIndexed : str := Eval vm_compute in s2l "pValueIndexed".
Definition T_Bit : str := Eval vm_compute in s2l "Bit".
Definition T_Slope : str := Eval vm_compute in s2l "Slope".
Definition T_IsLinear : str := Eval vm_compute in s2l "IsLinear".
Definition T_ChunkID : str := Eval vm_compute in s2l "ChunkID".
Definition T_pChunkID : str := Eval vm_compute in s2l "pChunkID".
Definition T_SwapEndianess : str := Eval vm_compute in s2l "SwapEndianess".
Definition T_CacheChunkData : str := Eval vm_compute in s2l "CacheChunkData".
Definition T_Name : str := Eval vm_compute in s2l "Name".
Definition T_NameSpace : str := Eval vm_compute in s2l "NameSpace".
Definition T_MergePriority : str := Eval vm_compute in s2l "MergePriority".
Definition T_ExposeStatic : str := Eval vm_compute in s2l "ExposeStatic".
Definition T_RegisterDescription : str := Eval vm_compute in s2l "RegisterDescription".
Definition T_ModelName : str := Eval vm_compute in s2l "ModelName".
Definition T_VendorName : str := Eval vm_compute in s2l "VendorName".
Definition T_ToolTip : str := Eval vm_compute in s2l "ToolTip".
Definition T_StandardNameSpace : str := Eval vm_compute in s2l "StandardNameSpace".
Definition T_SchemaMajorVersion : str := Eval vm_compute in s2l "SchemaMajorVersion".
Definition T_SchemaMinorVersion : str := Eval vm_compute in s2l "SchemaMinorVersion".
Definition T_SchemaSubMinorVersion : str := Eval vm_compute in s2l "SchemaSubMinorVersion".
Definition T_MajorVersion : str := Eval vm_compute in s2l "MajorVersion".
Definition T_MinorVersion : str := Eval vm_compute in s2l "MinorVersion".
Definition T_SubMinorVersion : str := Eval vm_compute in s2l "SubMinorVersion".
Definition T_ProductGuid : str := Eval vm_compute in s2l "ProductGuid".
Definition T_VersionGuid : str := Eval vm_compute in s2l "VersionGuid".
Definition T_Offset : str := Eval vm_compute in s2l "Offset".
Definition T_pOffset : str := Eval vm_compute in s2l "pOffset".
Definition T_Length : str := Eval vm_compute in s2l "Length".
Definition T_pLength : str := Eval vm_compute in s2l "pLength".
Definition T_pPort : str := Eval vm_compute in s2l "pPort".
Definition T_LSB : str := Eval vm_compute in s2l "LSB".
Definition T_MSB : str := Eval vm_compute in s2l "MSB".
Definition T_ValueDefault : str := Eval vm_compute in s2l "ValueDefault".
Definition T_pValueDefault : str := Eval vm_compute in s2l "pValueDefault".
Definition T_CommandValue : str := Eval vm_compute in s2l "CommandValue".
Definition T_pCommandValue : str := Eval vm_compute in s2l "pCommandValue".
Definition T_Formula : str := Eval vm_compute in s2l "Formula".
Definition T_FormulaTo : str := Eval vm_compute in s2l "FormulaTo".
Definition T_FormulaFrom : str := Eval vm_compute in s2l "FormulaFrom".
Definition L_Standard : str := Eval vm_compute in s2l "Standard".
Definition L_Custom : str := Eval vm_compute in s2l "Custom".
Definition L_Beginner : str := Eval vm_compute in s2l "Beginner".
Definition L_Expert : str := Eval vm_compute in s2l "Expert".
Definition L_Guru : str := Eval vm_compute in s2l "Guru".
Definition L_Invisible : str := Eval vm_compute in s2l "Invisible".
Definition L_RO : str := Eval vm_compute in s2l "RO".
Definition L_WO : str := Eval vm_compute in s2l "WO".
Definition L_RW : str := Eval vm_compute in s2l "RW".
Definition L_Linear : str := Eval vm_compute in s2l "Linear".
Definition L_Logarithmic : str := Eval vm_compute in s2l "Logarithmic".
Definition L_PureNumber : str := Eval vm_compute in s2l "PureNumber".
Definition L_HexNumber : str := Eval vm_compute in s2l "HexNumber".
Definition L_IPV4Address : str := Eval vm_compute in s2l "IPV4Address".
Definition L_MACAddress : str := Eval vm_compute in s2l "MACAddress".
Definition L_Increasing : str := Eval vm_compute in s2l "Increasing".
Definition L_Decreasing : str := Eval vm_compute in s2l "Decreasing".
Definition L_Varying : str := Eval vm_compute in s2l "Varying".
Definition L_Automatic : str := Eval vm_compute in s2l "Automatic".
Definition L_Fixed : str := Eval vm_compute in s2l "Fixed".
Definition L_Scientific : str := Eval vm_compute in s2l "Scientific".
Definition L_None : str := Eval vm_compute in s2l "None".
Definition L_IIDC : str := Eval vm_compute in s2l "IIDC".
Definition L_GEV : str := Eval vm_compute in s2l "GEV".
Definition L_CL : str := Eval vm_compute in s2l "CL".
Definition L_USB : str := Eval vm_compute in s2l "USB".
Definition L_WriteThrough : str := Eval vm_compute in s2l "WriteThrough".
Definition L_WriteAround : str := Eval vm_compute in s2l "WriteAround".
Definition L_NoCache : str := Eval vm_compute in s2l "NoCache".
Definition L_Yes : str := Eval vm_compute in s2l "Yes".
Definition L_No : str := Eval vm_compute in s2l "No".
Definition L_true : str := Eval vm_compute in s2l "true".
Definition L_false : str := Eval vm_compute in s2l "false".
Definition L_LittleEndian : str := Eval vm_compute in s2l "LittleEndian".
Definition L_BigEndian : str := Eval vm_compute in s2l "BigEndian".
Definition L_Signed : str := Eval vm_compute in s2l "Signed".
Definition L_Unsigned : str := Eval vm_compute in s2l "Unsigned".
Definition L_INF : str := Eval vm_compute in s2l "INF".
Definition L_NaN : str := Eval vm_compute in s2l "NaN".
Definition L_Boolean : str := T_Boolean.
Definition L_NegINF : str := Eval vm_compute in s2l "-INF".
Definition L_1 : str := Eval vm_compute in s2l "1".
Definition L_0 : str := Eval vm_compute in s2l "0".
Definition L_m1 : str := Eval vm_compute in s2l "-1".

(* ------------------------------------------------------------------------------------------------ *)
(* trees and the child cursor (xml.rs)                                                               *)

Inductive xml :=
| Elem (tag : str) (attrs : list (str * str)) (children : list xml)
| Text (s : str)
| Comment (s : str)
| PI (target data : str).        (* processing instruction: like a comment, neither element nor text *)

(* peek: the next element child (non-element nodes are skipped) and what follows it *)
Fixpoint peek (c : list xml) : option (str * list (str * str) * list xml * list xml) :=
  match c with
  | [] => None
  | Elem t a ch :: r => Some (t, a, ch, r)
  | _ :: r => peek r
  end.

Fixpoint attribute_of (name : str) (attrs : list (str * str)) : option str :=
  match attrs with
  | [] => None
  | (k, v) :: r => if str_eqb k name then Some v else attribute_of name r
  end.

(* TextView::view after fb880c0: the concatenation of the text children *)
Fixpoint text_of (ch : list xml) : str :=
  match ch with
  | [] => []
  | Text s :: r => s ++ text_of r
  | _ :: r => text_of r
  end.

(* TextView::view as pinned: first_child().unwrap(); a single child answers with roxmltree's Node::text
   (text of a text node, text of a comment, first text child of an element) *)
Definition text_view_v0 (ch : list xml) : outcome str :=
  match ch with
  | [] => Panic
  | [Text s] => Ok s
  | [Comment s] => Ok s
  | [PI _ _] => Panic
  | [Elem _ _ (Text s :: _)] => Ok s
  | [Elem _ _ _] => Panic
  | _ => Ok (text_of ch)
  end.

(* a parser working on the cursor of one element: remaining children in, value and remaining children out *)
Definition P (A : Type) : Type := list xml -> outcome (A * list xml).

Definition ret {A} (a : A) : P A := fun c => Ok (a, c).
Definition fail {A} : P A := fun _ => Panic.
Definition bindP {A B} (p : P A) (f : A -> P B) : P B :=
  fun c => match p c with
           | Ok (a, c') => f a c'
           | Err e => Err e
           | Panic => Panic
           end.
Notation "'let!' x ':=' p 'in' q" := (bindP p (fun x => q))
  (at level 200, x pattern, p at level 100, q at level 200, right associativity).
Definition lift {A} (x : outcome A) : P A :=
  fun c => match x with Ok a => Ok (a, c) | Err e => Err e | Panic => Panic end.
Definition mapP {A B} (f : A -> B) (p : P A) : P B := let! a := p in ret (f a).

Definition E_FUEL : Z := 99.

(* Node::parse_if *)
Definition parse_if {A} (tag : str) (p : P A) : P (option A) :=
  fun c => match peek c with
           | Some (t, _, _, _) => if str_eqb t tag then mapP Some p c else Ok (None, c)
           | None => Ok (None, c)
           end.

(* Option::or_else between two parse_if *)
Definition or_else {A} (p q : P (option A)) : P (option A) :=
  let! x := p in match x with Some a => ret (Some a) | None => q end.

(* while let Some(x) = step { push } ; every successful step consumes at least one child, so the number of
   children bounds the number of iterations (fuel) *)
Fixpoint loop_f {A} (fuel : nat) (step : P (option A)) : P (list A) :=
  match fuel with
  | O => fun _ => Err E_FUEL
  | S f => let! x := step in
           match x with
           | Some a => let! r := loop_f f step in ret (a :: r)
           | None => ret []
           end
  end.
Definition loop {A} (step : P (option A)) : P (list A) := fun c => loop_f (S (List.length c)) step c.

(* Node::parse_while *)
Definition parse_while {A} (tag : str) (p : P A) : P (list A) := loop (parse_if tag p).

(* Node::next / next_if : the element itself (attributes and children) *)
Definition next_elem : P (option (str * list (str * str) * list xml)) :=
  fun c => match peek c with
           | Some (t, a, ch, r) => Ok (Some (t, a, ch), r)
           | None => Ok (None, c)
           end.
Definition next_if (tag : str) : P (option (list (str * str) * list xml)) :=
  fun c => match peek c with
           | Some (t, a, ch, r) => if str_eqb t tag then Ok (Some (a, ch), r) else Ok (None, c)
           | None => Ok (None, c)
           end.
(* node.next_text().unwrap() *)
Definition next_text : P str :=
  fun c => match peek c with
           | Some (_, _, ch, r) => Ok (text_of ch, r)
           | None => Panic
           end.
(* node.peek().unwrap() : text / attribute of the next element without consuming it *)
Definition peek_text : P str :=
  fun c => match peek c with Some (_, _, ch, _) => Ok (text_of ch, c) | None => Panic end.
Definition peek_attr (name : str) : P (option str) :=
  fun c => match peek c with Some (_, a, _, _) => Ok (attribute_of name a, c) | None => Panic end.
Definition peek_tag : P str :=
  fun c => match peek c with Some (t, _, _, _) => Ok (t, c) | None => Panic end.

(* ------------------------------------------------------------------------------------------------ *)
(* literal conversion (elem_type.rs)                                                                 *)

Definition is_alpha (c : Z) : bool := ((65 <=? c) && (c <=? 90)) || ((97 <=? c) && (c <=? 122)).

(* char::to_digit *)
Definition char_digit (radix c : Z) : option Z :=
  let d := if (48 <=? c) && (c <=? 57) then c - 48
           else if (97 <=? c) && (c <=? 122) then c - 87
           else if (65 <=? c) && (c <=? 90) then c - 55
           else 99 in
  if d <? radix then Some d else None.

Fixpoint digits_acc (radix : Z) (cs : str) (acc : Z) : option Z :=
  match cs with
  | [] => Some acc
  | c :: r => match char_digit radix c with
              | Some d => digits_acc radix r (acc * radix + d)
              | None => None
              end
  end.

Definition I64_MIN : Z := -9223372036854775808.
Definition I64_MAX : Z := 9223372036854775807.
Definition U64_MAX : Z := 18446744073709551615.

(* {i64,u64}::from_str_radix(..).unwrap(): optional '+' (and '-' for the signed type), at least one digit,
   the value inside the type *)
Definition from_str_radix (signed : bool) (radix : Z) (s : str) : outcome Z :=
  let '(neg, ds) := match s with
                    | c :: r => if c =? 43 then (false, r)
                                else if (c =? 45) && signed then (true, r) else (false, s)
                    | [] => (false, s)
                    end in
  match ds with
  | [] => Panic
  | _ => match digits_acc radix ds 0 with
         | None => Panic
         | Some v => let z := if neg then - v else v in
                     if signed then (if (I64_MIN <=? z) && (z <=? I64_MAX) then Ok z else Panic)
                     else (if z <=? U64_MAX then Ok z else Panic)
         end
  end.

Definition has_hex_prefix (s : str) : option str :=
  match s with
  | c1 :: c2 :: r => if (c1 =? 48) && ((c2 =? 120) || (c2 =? 88)) then Some r else None
  | _ => None
  end.

Definition convert_to_int (s : str) : outcome Z :=
  match has_hex_prefix s with
  | Some r => from_str_radix true 16 r
  | None => from_str_radix true 10 s
  end.
Definition convert_to_uint (s : str) : outcome Z :=
  match has_hex_prefix s with
  | Some r => from_str_radix false 16 r
  | None => from_str_radix false 10 s
  end.

Definition convert_to_bool_opt (s : str) : option bool :=
  if str_eqb s L_Yes || str_eqb s L_true then Some true
  else if str_eqb s L_No || str_eqb s L_false then Some false
  else None.
Definition convert_to_bool (s : str) : outcome bool :=
  match convert_to_bool_opt s with Some b => Ok b | None => Panic end.

(* printers (used by the renderer) *)
Definition digit_char (up : bool) (d : Z) : Z :=
  if d <? 10 then 48 + d else (if up then 55 else 87) + d.
Fixpoint to_digits (fuel : nat) (b n : Z) : list Z :=
  match fuel with
  | O => []
  | S f => if n <? b then [n] else to_digits f b (n / b) ++ [n mod b]
  end.
Definition print_nat (up : bool) (b n : Z) : str :=
  map (digit_char up) (to_digits (S (Z.to_nat (Z.log2 n))) b n).
Definition print_dec (z : Z) : str := if z <? 0 then 45 :: print_nat false 10 (- z) else print_nat false 10 z.

(* a float as the parser produces it: the two special forms, or the text handed to str::parse::<f64>
   ("NaN" included), or (defaults only) a bit pattern *)
Inductive fval := FvInf | FvNegInf | FvText (t : str) | FvBits (b : Z).

Definition convert_to_f64 (s : str) : fval :=
  if str_eqb s L_INF then FvInf else if str_eqb s L_NegINF then FvNegInf else FvText s.

(* ---- leaf parsers: one element, its text ---- *)
Definition p_string : P str := next_text.
Definition p_nodeid : P str := next_text.
Definition p_bool : P bool := let! t := next_text in lift (convert_to_bool t).
Definition p_i64 : P Z := let! t := next_text in lift (convert_to_int t).
Definition p_u64 : P Z := let! t := next_text in lift (convert_to_uint t).
Definition p_hex64 : P Z := let! t := next_text in lift (from_str_radix false 16 t).
Definition p_f64 : P fval := let! t := next_text in ret (convert_to_f64 t).

Fixpoint assoc_str {A} (s : str) (tbl : list (str * A)) : option A :=
  match tbl with
  | [] => None
  | (k, v) :: r => if str_eqb s k then Some v else assoc_str s r
  end.
(* match_text_view! : unreachable!() when no arm matches *)
Definition p_enum {A} (tbl : list (str * A)) : P A :=
  let! t := next_text in match assoc_str t tbl with Some v => ret v | None => fail end.
Definition attr_enum {A} (tbl : list (str * A)) (s : str) : outcome A :=
  match assoc_str s tbl with Some v => Ok v | None => Panic end.

Inductive imm (A : Type) := Imm (a : A) | PNode (n : str).
Arguments Imm {A} a.
Arguments PNode {A} n.
Definition imm_map {A B} (f : A -> B) (x : imm A) : imm B :=
  match x with Imm a => Imm (f a) | PNode n => PNode n end.

(* ImmOrPNode<i64>::parse : text.chars().next().unwrap().is_alphabetic() *)
Definition p_imm_i64 : P (imm Z) :=
  let! t := peek_text in
  match t with
  | [] => fail
  | c :: _ => if is_alpha c then mapP PNode p_nodeid else mapP Imm p_i64
  end.
(* ImmOrPNode<f64>::parse *)
Definition p_imm_f64 : P (imm fval) :=
  let! t := peek_text in
  if str_eqb t L_INF || str_eqb t L_NegINF || str_eqb t L_NaN then mapP Imm p_f64
  else match t with
       | [] => fail
       | c :: _ => if is_alpha c then mapP PNode p_nodeid else mapP Imm p_f64
       end.
(* ImmOrPNode<bool>::parse *)
Definition p_imm_bool : P (imm bool) :=
  let! t := peek_text in
  match convert_to_bool_opt t with
  | Some _ => mapP Imm p_bool
  | None => mapP PNode p_nodeid
  end.

(* ------------------------------------------------------------------------------------------------ *)
(* enumerated element texts                                                                          *)

Inductive namespace := NsStandard | NsCustom.
Definition namespace_tbl : list (str * namespace) := [(L_Standard, NsStandard); (L_Custom, NsCustom)].
Definition namespace_name (x : namespace) : str := match x with NsStandard => L_Standard | NsCustom => L_Custom end.
Definition namespace_ord (x : namespace) : Z := match x with NsStandard => 0 | NsCustom => 1 end.

Inductive mergeprio := MpHigh | MpMid | MpLow.
Definition mergeprio_tbl : list (str * mergeprio) := [(L_1, MpHigh); (L_0, MpMid); (L_m1, MpLow)].
Definition mergeprio_name (x : mergeprio) : str := match x with MpHigh => L_1 | MpMid => L_0 | MpLow => L_m1 end.
Definition mergeprio_ord (x : mergeprio) : Z := match x with MpHigh => 0 | MpMid => 1 | MpLow => 2 end.

Inductive vis := VBeginner | VExpert | VGuru | VInvisible.
Definition vis_tbl : list (str * vis) := [(L_Beginner, VBeginner); (L_Expert, VExpert); (L_Guru, VGuru); (L_Invisible, VInvisible)].
Definition vis_name (x : vis) : str := match x with VBeginner => L_Beginner | VExpert => L_Expert | VGuru => L_Guru | VInvisible => L_Invisible end.
Definition vis_ord (x : vis) : Z := match x with VBeginner => 0 | VExpert => 1 | VGuru => 2 | VInvisible => 3 end.

Inductive access := AmRO | AmWO | AmRW.
Definition access_tbl : list (str * access) := [(L_RO, AmRO); (L_WO, AmWO); (L_RW, AmRW)].
Definition access_name (x : access) : str := match x with AmRO => L_RO | AmWO => L_WO | AmRW => L_RW end.
Definition access_ord (x : access) : Z := match x with AmRO => 0 | AmWO => 1 | AmRW => 2 end.

Inductive caching := CmWriteThrough | CmWriteAround | CmNoCache.
Definition caching_tbl : list (str * caching) := [(L_WriteThrough, CmWriteThrough); (L_WriteAround, CmWriteAround); (L_NoCache, CmNoCache)].
Definition caching_name (x : caching) : str := match x with CmWriteThrough => L_WriteThrough | CmWriteAround => L_WriteAround | CmNoCache => L_NoCache end.
Definition caching_ord (x : caching) : Z := match x with CmWriteThrough => 0 | CmWriteAround => 1 | CmNoCache => 2 end.

Inductive irep := IrLinear | IrLogarithmic | IrBoolean | IrPureNumber | IrHexNumber | IrIpV4Address | IrMacAddress.
Definition irep_tbl : list (str * irep) := [(L_Linear, IrLinear); (L_Logarithmic, IrLogarithmic); (L_Boolean, IrBoolean); (L_PureNumber, IrPureNumber); (L_HexNumber, IrHexNumber); (L_IPV4Address, IrIpV4Address); (L_MACAddress, IrMacAddress)].
Definition irep_name (x : irep) : str := match x with IrLinear => L_Linear | IrLogarithmic => L_Logarithmic | IrBoolean => L_Boolean | IrPureNumber => L_PureNumber | IrHexNumber => L_HexNumber | IrIpV4Address => L_IPV4Address | IrMacAddress => L_MACAddress end.
Definition irep_ord (x : irep) : Z := match x with IrLinear => 0 | IrLogarithmic => 1 | IrBoolean => 2 | IrPureNumber => 3 | IrHexNumber => 4 | IrIpV4Address => 5 | IrMacAddress => 6 end.

Inductive frep := FrLinear | FrLogarithmic | FrPureNumber.
Definition frep_tbl : list (str * frep) := [(L_Linear, FrLinear); (L_Logarithmic, FrLogarithmic); (L_PureNumber, FrPureNumber)].
Definition frep_name (x : frep) : str := match x with FrLinear => L_Linear | FrLogarithmic => L_Logarithmic | FrPureNumber => L_PureNumber end.
Definition frep_ord (x : frep) : Z := match x with FrLinear => 0 | FrLogarithmic => 1 | FrPureNumber => 2 end.

Inductive slope := SlIncreasing | SlDecreasing | SlVarying | SlAutomatic.
Definition slope_tbl : list (str * slope) := [(L_Increasing, SlIncreasing); (L_Decreasing, SlDecreasing); (L_Varying, SlVarying); (L_Automatic, SlAutomatic)].
Definition slope_name (x : slope) : str := match x with SlIncreasing => L_Increasing | SlDecreasing => L_Decreasing | SlVarying => L_Varying | SlAutomatic => L_Automatic end.
Definition slope_ord (x : slope) : Z := match x with SlIncreasing => 0 | SlDecreasing => 1 | SlVarying => 2 | SlAutomatic => 3 end.

Inductive dnot := DnAutomatic | DnFixed | DnScientific.
Definition dnot_tbl : list (str * dnot) := [(L_Automatic, DnAutomatic); (L_Fixed, DnFixed); (L_Scientific, DnScientific)].
Definition dnot_name (x : dnot) : str := match x with DnAutomatic => L_Automatic | DnFixed => L_Fixed | DnScientific => L_Scientific end.
Definition dnot_ord (x : dnot) : Z := match x with DnAutomatic => 0 | DnFixed => 1 | DnScientific => 2 end.

Inductive stdns := SnNone | SnIIDC | SnGEV | SnCL | SnUSB.
Definition stdns_tbl : list (str * stdns) := [(L_None, SnNone); (L_IIDC, SnIIDC); (L_GEV, SnGEV); (L_CL, SnCL); (L_USB, SnUSB)].
Definition stdns_name (x : stdns) : str := match x with SnNone => L_None | SnIIDC => L_IIDC | SnGEV => L_GEV | SnCL => L_CL | SnUSB => L_USB end.
Definition stdns_ord (x : stdns) : Z := match x with SnNone => 0 | SnIIDC => 1 | SnGEV => 2 | SnCL => 3 | SnUSB => 4 end.

Inductive endian := EnLE | EnBE.
Definition endian_tbl : list (str * endian) := [(L_LittleEndian, EnLE); (L_BigEndian, EnBE)].
Definition endian_name (x : endian) : str := match x with EnLE => L_LittleEndian | EnBE => L_BigEndian end.
Definition endian_ord (x : endian) : Z := match x with EnLE => 0 | EnBE => 1 end.

Inductive sign := SgSigned | SgUnsigned.
Definition sign_tbl : list (str * sign) := [(L_Signed, SgSigned); (L_Unsigned, SgUnsigned)].
Definition sign_name (x : sign) : str := match x with SgSigned => L_Signed | SgUnsigned => L_Unsigned end.
Definition sign_ord (x : sign) : Z := match x with SgSigned => 0 | SgUnsigned => 1 end.

(* ------------------------------------------------------------------------------------------------ *)
(* node models.  One family of records serves as the declared node ([Src]: optional elements are options,
   numbers carry their written form) and as what the parser builds ([Par]: defaults filled in).            *)

Inductive mode := Src | Par.
Definition D (m : mode) (A : Type) : Type := match m with Src => option A | Par => A end.
Definition U (m : mode) (A : Type) : Type := match m with Src => unit | Par => A end.

Inductive iform := FmDec | FmHex (px_up dig_up : bool).
Record ilit := IL { il_form : iform; il_val : Z }.      (* decimal, 0x.. or 0X.. *)
Record hlit := HL { hl_up : bool; hl_val : Z }.          (* bare hexadecimal (EventID, ChunkID) *)
Record blit := BL { bl_yesno : bool; bl_val : bool }.    (* Yes/No or true/false *)
Definition I (m : mode) : Type := match m with Src => ilit | Par => Z end.
Definition H (m : mode) : Type := match m with Src => hlit | Par => Z end.
Definition B (m : mode) : Type := match m with Src => blit | Par => bool end.
Definition X (m : mode) : Type := match m with Src => option (list xml) | Par => unit end.

Record attr (m : mode) := mkAttr {
  a_name : str; a_ns : D m namespace; a_mp : D m mergeprio; a_es : option (B m) }.
Arguments a_name {m}. Arguments a_ns {m}. Arguments a_mp {m}. Arguments a_es {m}.

Record eb (m : mode) := mkEb {
  eb_ext : X m;
  eb_tooltip : option str; eb_description : option str; eb_display_name : option str;
  eb_vis : D m vis; eb_docu_url : option str; eb_deprecated : D m (B m); eb_event : option (H m);
  eb_impl : option str; eb_avail : option str; eb_locked : option str; eb_block : option str;
  eb_imposed : D m access; eb_errors : list str; eb_alias : option str; eb_cast : option str;
  eb_invs : list str }.
Arguments eb_ext {m}. Arguments eb_tooltip {m}. Arguments eb_description {m}. Arguments eb_display_name {m}.
Arguments eb_vis {m}. Arguments eb_docu_url {m}. Arguments eb_deprecated {m}. Arguments eb_event {m}.
Arguments eb_impl {m}. Arguments eb_avail {m}. Arguments eb_locked {m}. Arguments eb_block {m}.
Arguments eb_imposed {m}. Arguments eb_errors {m}. Arguments eb_alias {m}. Arguments eb_cast {m}.
Arguments eb_invs {m}.

Inductive svkind (L : Type) :=
| SvValue (v : L)
| SvPValue (before : list str) (pv : str) (after : list str)
| SvPIndex (pi : str) (ixs : list (ilit * imm L)) (dflt : imm L).
Arguments SvValue {L}. Arguments SvPValue {L}. Arguments SvPIndex {L}.
Inductive vkind (L : Type) :=
| VkValue (v : L)
| VkPValue (pv : str) (copies : list str)
| VkPIndex (pi : str) (ixs : list (Z * imm L)) (dflt : imm L).
Arguments VkValue {L}. Arguments VkPValue {L}. Arguments VkPIndex {L}.
Definition VK (m : mode) (L L' : Type) : Type := match m with Src => svkind L | Par => vkind L' end.

Inductive bitmask (L : Type) := BmBit (b : L) | BmRange (lsb msb : L).
Arguments BmBit {L}. Arguments BmRange {L}.

Record iswiss (m : mode) := mkIswiss {
  sk_attr : attr m; sk_eb : eb m; sk_streamable : D m (B m);
  sk_vars : list (str * str); sk_consts : list (str * I m); sk_exprs : list (str * str);
  sk_formula : str; sk_unit : option str; sk_repr : D m irep }.
Arguments sk_attr {m}. Arguments sk_eb {m}. Arguments sk_streamable {m}. Arguments sk_vars {m}.
Arguments sk_consts {m}. Arguments sk_exprs {m}. Arguments sk_formula {m}. Arguments sk_unit {m}.
Arguments sk_repr {m}.

(* SwissKnifeNode, IntConverterNode, ConverterNode (formulas and expressions kept as text) *)
Record fswiss (m : mode) := mkFswiss {
  fk_attr : attr m; fk_eb : eb m; fk_streamable : D m (B m);
  fk_vars : list (str * str); fk_consts : list (str * fval); fk_exprs : list (str * str);
  fk_formula : str; fk_unit : option str; fk_repr : D m frep; fk_dnot : D m dnot; fk_dprec : D m (I m) }.
Arguments fk_attr {m}. Arguments fk_eb {m}. Arguments fk_streamable {m}. Arguments fk_vars {m}.
Arguments fk_consts {m}. Arguments fk_exprs {m}. Arguments fk_formula {m}. Arguments fk_unit {m}.
Arguments fk_repr {m}. Arguments fk_dnot {m}. Arguments fk_dprec {m}.

Record iconv (m : mode) := mkIconv {
  ic_attr : attr m; ic_eb : eb m; ic_streamable : D m (B m);
  ic_vars : list (str * str); ic_consts : list (str * I m); ic_exprs : list (str * str);
  ic_to : str; ic_from : str; ic_pvalue : str; ic_unit : option str; ic_repr : D m irep; ic_slope : D m slope }.
Arguments ic_attr {m}. Arguments ic_eb {m}. Arguments ic_streamable {m}. Arguments ic_vars {m}.
Arguments ic_consts {m}. Arguments ic_exprs {m}. Arguments ic_to {m}. Arguments ic_from {m}.
Arguments ic_pvalue {m}. Arguments ic_unit {m}. Arguments ic_repr {m}. Arguments ic_slope {m}.

Record fconv (m : mode) := mkFconv {
  fc_attr : attr m; fc_eb : eb m; fc_streamable : D m (B m);
  fc_vars : list (str * str); fc_consts : list (str * fval); fc_exprs : list (str * str);
  fc_to : str; fc_from : str; fc_pvalue : str; fc_unit : option str; fc_repr : D m frep; fc_dnot : D m dnot;
  fc_dprec : D m (I m); fc_slope : D m slope; fc_linear : D m (B m) }.
Arguments fc_attr {m}. Arguments fc_eb {m}. Arguments fc_streamable {m}. Arguments fc_vars {m}.
Arguments fc_consts {m}. Arguments fc_exprs {m}. Arguments fc_to {m}. Arguments fc_from {m}.
Arguments fc_pvalue {m}. Arguments fc_unit {m}. Arguments fc_repr {m}. Arguments fc_dnot {m}.
Arguments fc_dprec {m}. Arguments fc_slope {m}. Arguments fc_linear {m}.

Inductive saddr := SaAddr (a : imm ilit) | SaSwiss (k : iswiss Src) | SaPIndex (off : option (imm ilit)) (pi : str).
Inductive addr := AAddr (a : imm Z) | ASwiss (name : str) | APIndex (off : option (imm Z)) (pi : str).
Definition AK (m : mode) : Type := match m with Src => saddr | Par => addr end.

Record rb (m : mode) := mkRb {
  rb_eb : eb m; rb_streamable : D m (B m); rb_addrs : list (AK m); rb_length : imm (I m);
  rb_access : D m access; rb_port : str; rb_cache : D m caching; rb_polling : option (I m);
  rb_invs : list str }.
Arguments rb_eb {m}. Arguments rb_streamable {m}. Arguments rb_addrs {m}. Arguments rb_length {m}.
Arguments rb_access {m}. Arguments rb_port {m}. Arguments rb_cache {m}. Arguments rb_polling {m}.
Arguments rb_invs {m}.

Record plain (m : mode) := mkPlain { pl_attr : attr m; pl_eb : eb m }.
Arguments pl_attr {m}. Arguments pl_eb {m}.
Record category (m : mode) := mkCategory { ca_attr : attr m; ca_eb : eb m; ca_features : list str }.
Arguments ca_attr {m}. Arguments ca_eb {m}. Arguments ca_features {m}.

Record integer (m : mode) := mkInteger {
  i_attr : attr m; i_eb : eb m; i_streamable : D m (B m); i_value : VK m ilit Z;
  i_min : D m (imm (I m)); i_max : D m (imm (I m)); i_inc : D m (imm (I m));
  i_unit : option str; i_repr : D m irep; i_selected : list str }.
Arguments i_attr {m}. Arguments i_eb {m}. Arguments i_streamable {m}. Arguments i_value {m}.
Arguments i_min {m}. Arguments i_max {m}. Arguments i_inc {m}. Arguments i_unit {m}. Arguments i_repr {m}.
Arguments i_selected {m}.

Record intreg (m : mode) := mkIntreg {
  ir_attr : attr m; ir_rb : rb m; ir_sign : D m sign; ir_endian : D m endian; ir_unit : option str;
  ir_repr : D m irep; ir_selected : list str }.
Arguments ir_attr {m}. Arguments ir_rb {m}. Arguments ir_sign {m}. Arguments ir_endian {m}.
Arguments ir_unit {m}. Arguments ir_repr {m}. Arguments ir_selected {m}.

Record maskedreg (m : mode) := mkMasked {
  mr_attr : attr m; mr_rb : rb m; mr_mask : bitmask (I m); mr_sign : D m sign; mr_endian : D m endian;
  mr_unit : option str; mr_repr : D m irep; mr_selected : list str }.
Arguments mr_attr {m}. Arguments mr_rb {m}. Arguments mr_mask {m}. Arguments mr_sign {m}.
Arguments mr_endian {m}. Arguments mr_unit {m}. Arguments mr_repr {m}. Arguments mr_selected {m}.

(* StructEntryNode; in [Src] the entry's own pInvalidator list is [eb_invs (se_eb e)] (that is where the
   elements stand in the document), in [Par] it is [se_invs] (moved out of the element base by the parser) *)
Record sentry (m : mode) := mkSentry {
  se_attr : attr m; se_eb : eb m; se_invs : U m (list str); se_access : D m access; se_cache : D m caching;
  se_polling : option (I m); se_streamable : D m (B m); se_mask : bitmask (I m); se_sign : D m sign;
  se_unit : option str; se_repr : D m irep; se_selected : list str }.
Arguments se_attr {m}. Arguments se_eb {m}. Arguments se_invs {m}. Arguments se_access {m}.
Arguments se_cache {m}. Arguments se_polling {m}. Arguments se_streamable {m}. Arguments se_mask {m}.
Arguments se_sign {m}. Arguments se_unit {m}. Arguments se_repr {m}. Arguments se_selected {m}.

Record structreg (m : mode) := mkStruct { st_rb : rb m; st_endian : D m endian; st_entries : list (sentry m) }.
Arguments st_rb {m}. Arguments st_endian {m}. Arguments st_entries {m}.

Definition BV (m : mode) : Type := match m with Src => imm blit | Par => imm Z end.
Record boolean (m : mode) := mkBoolean {
  b_attr : attr m; b_eb : eb m; b_streamable : D m (B m); b_value : BV m; b_on : D m (I m);
  b_off : D m (I m); b_selected : list str }.
Arguments b_attr {m}. Arguments b_eb {m}. Arguments b_streamable {m}. Arguments b_value {m}.
Arguments b_on {m}. Arguments b_off {m}. Arguments b_selected {m}.

Record command (m : mode) := mkCommand {
  c_attr : attr m; c_eb : eb m; c_value : imm (I m); c_command_value : imm (I m); c_polling : option (I m) }.
Arguments c_attr {m}. Arguments c_eb {m}. Arguments c_value {m}. Arguments c_command_value {m}.
Arguments c_polling {m}.

(* EnumEntryNode; the node name of the parsed entry is generated ("$" symbolic "_" fresh id) *)
Record enumentry (m : mode) := mkEnumentry {
  ee_attr : attr m; ee_eb : eb m; ee_value : I m; ee_numeric : option fval; ee_symbolic : U m str;
  ee_self_clearing : D m (B m) }.
Arguments ee_attr {m}. Arguments ee_eb {m}. Arguments ee_value {m}. Arguments ee_numeric {m}.
Arguments ee_symbolic {m}. Arguments ee_self_clearing {m}.
Definition EE (m : mode) : Type := match m with Src => enumentry Src | Par => str end.

Record enumeration (m : mode) := mkEnumeration {
  en_attr : attr m; en_eb : eb m; en_streamable : D m (B m); en_entries : list (EE m);
  en_value : imm (I m); en_selected : list str; en_polling : option (I m) }.
Arguments en_attr {m}. Arguments en_eb {m}. Arguments en_streamable {m}. Arguments en_entries {m}.
Arguments en_value {m}. Arguments en_selected {m}. Arguments en_polling {m}.

Record floatn (m : mode) := mkFloat {
  f_attr : attr m; f_eb : eb m; f_streamable : D m (B m); f_value : VK m fval fval;
  f_min : D m (imm fval); f_max : D m (imm fval); f_inc : option (imm fval); f_unit : option str;
  f_repr : D m frep; f_dnot : D m dnot; f_dprec : D m (I m) }.
Arguments f_attr {m}. Arguments f_eb {m}. Arguments f_streamable {m}. Arguments f_value {m}.
Arguments f_min {m}. Arguments f_max {m}. Arguments f_inc {m}. Arguments f_unit {m}. Arguments f_repr {m}.
Arguments f_dnot {m}. Arguments f_dprec {m}.

Record floatreg (m : mode) := mkFloatreg {
  fr_attr : attr m; fr_rb : rb m; fr_endian : D m endian; fr_unit : option str; fr_repr : D m frep;
  fr_dnot : D m dnot; fr_dprec : D m (I m) }.
Arguments fr_attr {m}. Arguments fr_rb {m}. Arguments fr_endian {m}. Arguments fr_unit {m}.
Arguments fr_repr {m}. Arguments fr_dnot {m}. Arguments fr_dprec {m}.

Record stringn (m : mode) := mkString {
  s_attr : attr m; s_eb : eb m; s_streamable : D m (B m); s_value : imm str }.
Arguments s_attr {m}. Arguments s_eb {m}. Arguments s_streamable {m}. Arguments s_value {m}.

Record regnode (m : mode) := mkRegnode { rn_attr : attr m; rn_rb : rb m }.
Arguments rn_attr {m}. Arguments rn_rb {m}.

Record port (m : mode) := mkPort {
  po_attr : attr m; po_eb : eb m; po_chunk : option (imm (H m)); po_swap : D m (B m); po_cache : D m (B m) }.
Arguments po_attr {m}. Arguments po_eb {m}. Arguments po_chunk {m}. Arguments po_swap {m}. Arguments po_cache {m}.

(* what NodeStoreBuilder::store_node receives *)
Inductive node_data :=
| NdNode (n : plain Par) | NdCategory (n : category Par) | NdInteger (n : integer Par)
| NdIntReg (n : intreg Par) | NdMaskedIntReg (n : maskedreg Par) | NdBoolean (n : boolean Par)
| NdCommand (n : command Par) | NdEnumeration (n : enumeration Par) | NdEnumEntry (n : enumentry Par)
| NdFloat (n : floatn Par) | NdFloatReg (n : floatreg Par) | NdString (n : stringn Par)
| NdStringReg (n : regnode Par) | NdRegister (n : regnode Par) | NdIntSwissKnife (n : iswiss Par)
| NdPort (n : port Par)
| NdConverter (n : fconv Par) | NdIntConverter (n : iconv Par) | NdSwissKnife (n : fswiss Par).

Definition nd_name (d : node_data) : str :=
  match d with
  | NdNode n => a_name (pl_attr n) | NdCategory n => a_name (ca_attr n) | NdInteger n => a_name (i_attr n)
  | NdIntReg n => a_name (ir_attr n) | NdMaskedIntReg n => a_name (mr_attr n)
  | NdBoolean n => a_name (b_attr n) | NdCommand n => a_name (c_attr n)
  | NdEnumeration n => a_name (en_attr n) | NdEnumEntry n => a_name (ee_attr n)
  | NdFloat n => a_name (f_attr n) | NdFloatReg n => a_name (fr_attr n) | NdString n => a_name (s_attr n)
  | NdStringReg n => a_name (rn_attr n) | NdRegister n => a_name (rn_attr n)
  | NdIntSwissKnife n => a_name (sk_attr n) | NdPort n => a_name (po_attr n)
  | NdConverter n => a_name (fc_attr n) | NdIntConverter n => a_name (ic_attr n) | NdSwissKnife n => a_name (fk_attr n)
  end.

(* ------------------------------------------------------------------------------------------------ *)
(* parsers                                                                                           *)

Definition dflt {A} (d : A) (o : option A) : A := match o with Some x => x | None => d end.

(* NodeAttributeBase::parse *)
Definition parse_attr (attrs : list (str * str)) : outcome (attr Par) :=
  match attribute_of T_Name attrs with
  | None => Panic
  | Some name =>
    let? ns := match attribute_of T_NameSpace attrs with
               | Some t => attr_enum namespace_tbl t | None => Ok NsCustom end in
    let? mp := match attribute_of T_MergePriority attrs with
               | Some t => attr_enum mergeprio_tbl t | None => Ok MpMid end in
    let? es := match attribute_of T_ExposeStatic attrs with
               | Some t => omap Some (convert_to_bool t) | None => Ok None end in
    Ok (mkAttr Par name ns mp es)
  end.

(* NodeElementBase::parse *)
Definition p_eb : P (eb Par) :=
  let! _ext := parse_if T_Extension p_string in
  let! tooltip := parse_if T_ToolTip p_string in
  let! description := parse_if T_Description p_string in
  let! display_name := parse_if T_DisplayName p_string in
  let! v := parse_if T_Visibility (p_enum vis_tbl) in
  let! docu := parse_if T_DocuURL p_string in
  let! dep := parse_if T_IsDeprecated p_bool in
  let! ev := parse_if T_EventID p_hex64 in
  let! impl := parse_if T_pIsImplemented p_nodeid in
  let! avail := parse_if T_pIsAvailable p_nodeid in
  let! locked := parse_if T_pIsLocked p_nodeid in
  let! block := parse_if T_pBlockPolling p_nodeid in
  let! imposed := parse_if T_ImposedAccessMode (p_enum access_tbl) in
  let! errors := parse_while T_pError p_nodeid in
  let! alias := parse_if T_pAlias p_nodeid in
  let! cast := parse_if T_pCastAlias p_nodeid in
  let! invs := parse_while T_pInvalidator p_nodeid in
  ret (mkEb Par tt tooltip description display_name (dflt VBeginner v) docu (dflt false dep) ev impl avail
            locked block (dflt AmRW imposed) errors alias cast invs).

(* PValue::parse, ValueIndexed::parse, PIndex::parse, ValueKind::parse *)
Definition p_pvalue : P (str * list str) :=
  let! before := parse_while T_pValueCopy p_nodeid in
  let! pv := p_nodeid in
  let! after := parse_while T_pValueCopy p_nodeid in
  ret (pv, before ++ after).
Definition p_value_indexed {L} (p_immT : P (imm L)) : P (Z * imm L) :=
  let! ix := peek_attr T_Index in
  match ix with
  | None => fail
  | Some s => let! i := lift (convert_to_int s) in let! v := p_immT in ret (i, v)
  end.
Definition p_pindex {L} (p_immT : P (imm L)) : P (str * list (Z * imm L) * imm L) :=
  let! pi := p_nodeid in
  let! ixs := loop (or_else (parse_if T_ValueIndexed (p_value_indexed p_immT))
                            (parse_if T_pValueIndexed (p_value_indexed p_immT))) in
  let! d := p_immT in
  ret (pi, ixs, d).
Definition p_vkind {L} (pT : P L) (p_immT : P (imm L)) : P (vkind L) :=
  let! t := peek_tag in
  if str_eqb t T_Value then mapP VkValue pT
  else if str_eqb t T_pValueCopy || str_eqb t T_pValue then
    let! r := p_pvalue in ret (VkPValue (fst r) (snd r))
  else if str_eqb t T_pIndex then
    let! r := p_pindex p_immT in ret (VkPIndex (fst (fst r)) (snd (fst r)) (snd r))
  else fail.

(* NamedValue::parse *)
Definition p_named {A} (p : P A) : P (str * A) :=
  let! n := peek_attr T_Name in
  match n with None => fail | Some name => let! v := p in ret (name, v) end.

(* BitMask::parse *)
Definition p_bitmask : P (bitmask Z) :=
  let! b := parse_if T_Bit p_u64 in
  match b with
  | Some x => ret (BmBit x)
  | None => let! lsb := p_u64 in let! msb := p_u64 in ret (BmRange lsb msb)
  end.

(* a parser applied to a nested element: attributes + own cursor, left-over children are ignored *)
Definition run_elem {A} (p : list (str * str) -> P A) (attrs : list (str * str)) (ch : list xml) : outcome A :=
  match p attrs ch with Ok (a, _) => Ok a | Err e => Err e | Panic => Panic end.

Definition with_attr {A} (attrs : list (str * str)) (f : attr Par -> P A) : P A :=
  match parse_attr attrs with Ok a => f a | Err e => fun _ => Err e | Panic => fail end.

(* IntSwissKnifeNode::parse (the formula and the expressions are kept as text) *)
Definition p_iswiss (attrs : list (str * str)) : P (iswiss Par) :=
  with_attr attrs (fun a =>
  let! e := p_eb in
  let! st := parse_if T_Streamable p_bool in
  let! vars := parse_while T_pVariable (p_named p_nodeid) in
  let! consts := parse_while T_Constant (p_named p_i64) in
  let! exprs := parse_while T_Expression (p_named p_string) in
  let! formula := p_string in
  let! unit := parse_if T_Unit p_string in
  let! repr := parse_if T_Representation (p_enum irep_tbl) in
  ret (mkIswiss Par a e (dflt false st) vars consts exprs formula unit (dflt IrPureNumber repr))).

(* SwissKnifeNode::parse *)
Definition p_fswiss (attrs : list (str * str)) : P (fswiss Par) :=
  with_attr attrs (fun a =>
  let! e := p_eb in
  let! st := parse_if T_Streamable p_bool in
  let! vars := parse_while T_pVariable (p_named p_nodeid) in
  let! consts := parse_while T_Constant (p_named p_f64) in
  let! exprs := parse_while T_Expression (p_named p_string) in
  let! formula := p_string in
  let! unit := parse_if T_Unit p_string in
  let! repr := parse_if T_Representation (p_enum frep_tbl) in
  let! dn := parse_if T_DisplayNotation (p_enum dnot_tbl) in
  let! dp := parse_if T_DisplayPrecision p_i64 in
  ret (mkFswiss Par a e (dflt false st) vars consts exprs formula unit (dflt FrPureNumber repr)
                (dflt DnAutomatic dn) (dflt 6 dp))).

(* IntConverterNode::parse *)
Definition p_iconv (attrs : list (str * str)) : P (iconv Par) :=
  with_attr attrs (fun a =>
  let! e := p_eb in
  let! st := parse_if T_Streamable p_bool in
  let! vars := parse_while T_pVariable (p_named p_nodeid) in
  let! consts := parse_while T_Constant (p_named p_i64) in
  let! exprs := parse_while T_Expression (p_named p_string) in
  let! fto := p_string in
  let! ffrom := p_string in
  let! pv := p_nodeid in
  let! unit := parse_if T_Unit p_string in
  let! repr := parse_if T_Representation (p_enum irep_tbl) in
  let! sl := parse_if T_Slope (p_enum slope_tbl) in
  ret (mkIconv Par a e (dflt false st) vars consts exprs fto ffrom pv unit (dflt IrPureNumber repr)
               (dflt SlAutomatic sl))).

(* ConverterNode::parse *)
Definition p_fconv (attrs : list (str * str)) : P (fconv Par) :=
  with_attr attrs (fun a =>
  let! e := p_eb in
  let! st := parse_if T_Streamable p_bool in
  let! vars := parse_while T_pVariable (p_named p_nodeid) in
  let! consts := parse_while T_Constant (p_named p_f64) in
  let! exprs := parse_while T_Expression (p_named p_string) in
  let! fto := p_string in
  let! ffrom := p_string in
  let! pv := p_nodeid in
  let! unit := parse_if T_Unit p_string in
  let! repr := parse_if T_Representation (p_enum frep_tbl) in
  let! dn := parse_if T_DisplayNotation (p_enum dnot_tbl) in
  let! dp := parse_if T_DisplayPrecision p_i64 in
  let! sl := parse_if T_Slope (p_enum slope_tbl) in
  let! lin := parse_if T_IsLinear p_bool in
  ret (mkFconv Par a e (dflt false st) vars consts exprs fto ffrom pv unit (dflt FrPureNumber repr)
               (dflt DnAutomatic dn) (dflt 6 dp) (dflt SlAutomatic sl) (dflt false lin))).

(* RegPIndex::parse *)
Definition p_reg_pindex : P addr :=
  let! o := peek_attr T_Offset in
  let! po := peek_attr T_pOffset in
  let! io := match o with
             | Some s => let! z := lift (convert_to_int s) in ret (Some (@Imm Z z))
             | None => ret None
             end in
  let off := match io, po with
             | Some x, None => Some x
             | None, Some n => Some (PNode n)
             | _, _ => None
             end in
  let! pi := p_nodeid in
  ret (APIndex off pi).

(* AddressKind::parse; an embedded IntSwissKnife is stored as a node of its own *)
Definition p_addr : P (addr * list node_data) :=
  let! t := peek_tag in
  if str_eqb t T_Address || str_eqb t T_pAddress then let! a := p_imm_i64 in ret (AAddr a, [])
  else if str_eqb t T_IntSwissKnife then
    let! e := next_elem in
    match e with
    | Some (_, attrs, ch) => let! k := lift (run_elem p_iswiss attrs ch) in
                             ret (ASwiss (a_name (sk_attr k)), [NdIntSwissKnife k])
    | None => fail
    end
  else if str_eqb t T_pIndex then let! a := p_reg_pindex in ret (a, [])
  else fail.

(* RegisterBase::parse; second component: the embedded nodes stored on the way *)
Definition p_rb : P (rb Par * list node_data) :=
  let! e := p_eb in
  let! st := parse_if T_Streamable p_bool in
  let! addrs := loop (or_else (parse_if T_Address p_addr)
                     (or_else (parse_if T_IntSwissKnife p_addr)
                     (or_else (parse_if T_pAddress p_addr) (parse_if T_pIndex p_addr)))) in
  let! len := p_imm_i64 in
  let! am := parse_if T_AccessMode (p_enum access_tbl) in
  let! port := p_nodeid in
  let! cache := parse_if T_Cachable (p_enum caching_tbl) in
  let! polling := parse_if T_PollingTime p_u64 in
  let! invs := parse_while T_pInvalidator p_nodeid in
  match eb_invs e with
  | _ :: _ => fail                                       (* debug_assert!(elem_base.p_invalidators.is_empty()) *)
  | [] => ret (mkRb Par e (dflt false st) (map fst addrs) len (dflt AmRO am) port (dflt CmWriteThrough cache)
                    polling invs, List.concat (map snd addrs))
  end.

(* RegisterBase::store_invalidators *)
Definition reg_invs (r : rb Par) (target : str) : list (str * str) := map (fun i => (i, target)) (rb_invs r).

Definition p_plain (attrs : list (str * str)) : P (plain Par) :=
  with_attr attrs (fun a => let! e := p_eb in ret (mkPlain Par a e)).

Definition p_category (attrs : list (str * str)) : P (category Par) :=
  with_attr attrs (fun a =>
  let! e := p_eb in
  let! fs := parse_while T_pFeature p_nodeid in
  ret (mkCategory Par a e fs)).

Definition deduce_min (r : irep) : Z := match r with IrIpV4Address | IrMacAddress => 0 | _ => I64_MIN end.
Definition deduce_max (r : irep) : Z :=
  match r with IrIpV4Address => 4294967295 | IrMacAddress => 281474976710655 | _ => I64_MAX end.

Definition p_integer (attrs : list (str * str)) : P (integer Par) :=
  with_attr attrs (fun a =>
  let! e := p_eb in
  let! st := parse_if T_Streamable p_bool in
  let! vk := p_vkind p_i64 p_imm_i64 in
  let! mn := or_else (parse_if T_Min p_imm_i64) (parse_if T_pMin p_imm_i64) in
  let! mx := or_else (parse_if T_Max p_imm_i64) (parse_if T_pMax p_imm_i64) in
  let! inc := or_else (parse_if T_Inc p_imm_i64) (parse_if T_pInc p_imm_i64) in
  let! unit := parse_if T_Unit p_string in
  let! repr := parse_if T_Representation (p_enum irep_tbl) in
  let! sel := parse_while T_pSelected p_nodeid in
  let r := dflt IrPureNumber repr in
  ret (mkInteger Par a e (dflt false st) vk (dflt (Imm (deduce_min r)) mn) (dflt (Imm (deduce_max r)) mx)
                 (dflt (Imm 1) inc) unit r sel)).

Definition p_intreg (attrs : list (str * str)) : P (intreg Par * list node_data) :=
  with_attr attrs (fun a =>
  let! r := p_rb in
  let! sg := parse_if T_Sign (p_enum sign_tbl) in
  let! en := parse_if T_Endianess (p_enum endian_tbl) in
  let! unit := parse_if T_Unit p_string in
  let! repr := parse_if T_Representation (p_enum irep_tbl) in
  let! sel := parse_while T_pSelected p_nodeid in
  ret (mkIntreg Par a (fst r) (dflt SgUnsigned sg) (dflt EnLE en) unit (dflt IrPureNumber repr) sel, snd r)).

Definition p_masked (attrs : list (str * str)) : P (maskedreg Par * list node_data) :=
  with_attr attrs (fun a =>
  let! r := p_rb in
  let! bm := p_bitmask in
  let! sg := parse_if T_Sign (p_enum sign_tbl) in
  let! en := parse_if T_Endianess (p_enum endian_tbl) in
  let! unit := parse_if T_Unit p_string in
  let! repr := parse_if T_Representation (p_enum irep_tbl) in
  let! sel := parse_while T_pSelected p_nodeid in
  ret (mkMasked Par a (fst r) bm (dflt SgUnsigned sg) (dflt EnLE en) unit (dflt IrPureNumber repr) sel, snd r)).

(* StructEntryNode::parse.  [fixed = true]: the code after 70ffa75 (the entry's pInvalidator list is taken
   out of the element base); [fixed = false]: the pinned code (the list stays in the element base and
   parse_while(P_INVALIDATOR) finds nothing any more) *)
Definition p_sentry (fixed : bool) (attrs : list (str * str)) : P (sentry Par) :=
  with_attr attrs (fun a =>
  let! e0 := p_eb in
  let! invs0 := (if fixed then ret [] else parse_while T_pInvalidator p_nodeid) in
  let e := if fixed then mkEb Par tt (eb_tooltip e0) (eb_description e0) (eb_display_name e0) (eb_vis e0)
                               (eb_docu_url e0) (eb_deprecated e0) (eb_event e0) (eb_impl e0) (eb_avail e0)
                               (eb_locked e0) (eb_block e0) (eb_imposed e0) (eb_errors e0) (eb_alias e0)
                               (eb_cast e0) []
           else e0 in
  let invs := if fixed then eb_invs e0 else invs0 in
  let! am := parse_if T_AccessMode (p_enum access_tbl) in
  let! cache := parse_if T_Cachable (p_enum caching_tbl) in
  let! polling := parse_if T_PollingTime p_u64 in
  let! st := parse_if T_Streamable p_bool in
  let! bm := p_bitmask in
  let! sg := parse_if T_Sign (p_enum sign_tbl) in
  let! unit := parse_if T_Unit p_string in
  let! repr := parse_if T_Representation (p_enum irep_tbl) in
  let! sel := parse_while T_pSelected p_nodeid in
  ret (mkSentry Par a e invs (dflt AmRO am) (dflt CmWriteThrough cache) polling (dflt false st) bm
                (dflt SgUnsigned sg) unit (dflt IrPureNumber repr) sel)).

(* while let Some(entry_node) = node.next() { entry_node.parse() } (debug_assert_eq!(tag, STRUCT_ENTRY)) *)
Fixpoint p_sentries (fixed : bool) (c : list xml) : outcome (list (sentry Par)) :=
  match c with
  | [] => Ok []
  | Elem t attrs ch :: r =>
      if str_eqb t T_StructEntry then
        let? e := run_elem (p_sentry fixed) attrs ch in
        let? es := p_sentries fixed r in Ok (e :: es)
      else Panic
  | _ :: r => p_sentries fixed r
  end.

Definition p_struct (fixed : bool) : P (structreg Par * list node_data) :=
  let! r := p_rb in
  let! en := parse_if T_Endianess (p_enum endian_tbl) in
  fun c => let? es := p_sentries fixed c in Ok ((mkStruct Par (fst r) (dflt EnLE en) es, snd r), @nil xml).

(* merge_impl! *)
Definition merge_opt {A} (lhs rhs : option A) : option A := match rhs with Some x => Some x | None => lhs end.
Definition merge_vec {A} (fixed : bool) (lhs rhs : list A) : list A :=
  match rhs with
  | [] => if fixed then lhs else []
  | _ :: _ => if fixed then rhs else lhs
  end.
Definition vis_is_default (v : vis) : bool := match v with VBeginner => true | _ => false end.
Definition access_eqb (a b : access) : bool := access_ord a =? access_ord b.
Definition caching_is_default (c : caching) : bool := match c with CmWriteThrough => true | _ => false end.

(* NodeElementBase::merge (the element-base pInvalidator list is not merged) *)
Definition merge_eb (fixed : bool) (l r : eb Par) : eb Par :=
  mkEb Par tt
    (merge_opt (eb_tooltip l) (eb_tooltip r)) (merge_opt (eb_description l) (eb_description r))
    (merge_opt (eb_display_name l) (eb_display_name r))
    (if vis_is_default (eb_vis r) then eb_vis l else eb_vis r)
    (merge_opt (eb_docu_url l) (eb_docu_url r))
    (if eb_deprecated r then true else eb_deprecated l)
    (merge_opt (eb_event l) (eb_event r)) (merge_opt (eb_impl l) (eb_impl r))
    (merge_opt (eb_avail l) (eb_avail r)) (merge_opt (eb_locked l) (eb_locked r))
    (merge_opt (eb_block l) (eb_block r))
    (if access_eqb (eb_imposed r) AmRW then eb_imposed l else eb_imposed r)
    (merge_vec fixed (eb_errors l) (eb_errors r))
    (merge_opt (eb_alias l) (eb_alias r)) (merge_opt (eb_cast l) (eb_cast r))
    (eb_invs l).

(* StructEntryNode::into_masked_int_reg *)
Definition entry_to_masked (fixed : bool) (r : rb Par) (en : endian) (e : sentry Par) : maskedreg Par :=
  let r' := mkRb Par (merge_eb fixed (rb_eb r) (se_eb e))
                 (if se_streamable e then true else rb_streamable r)
                 (rb_addrs r) (rb_length r)
                 (if access_eqb (se_access e) AmRO then rb_access r else se_access e)
                 (rb_port r)
                 (if caching_is_default (se_cache e) then rb_cache r else se_cache e)
                 (merge_opt (rb_polling r) (se_polling e))
                 (merge_vec fixed (rb_invs r) (se_invs e)) in
  mkMasked Par (se_attr e) r' (se_mask e) (se_sign e) en (se_unit e) (se_repr e) (se_selected e).

(* StructRegNode::into_masked_int_regs and the invalidator registrations it performs *)
Definition into_masked_int_regs (fixed : bool) (s : structreg Par) : list (maskedreg Par) :=
  map (entry_to_masked fixed (st_rb s) (st_endian s)) (st_entries s).
Definition masked_invs (l : list (maskedreg Par)) : list (str * str) :=
  List.concat (map (fun m => reg_invs (mr_rb m) (a_name (mr_attr m))) l).

Definition p_boolean (attrs : list (str * str)) : P (boolean Par) :=
  with_attr attrs (fun a =>
  let! e := p_eb in
  let! st := parse_if T_Streamable p_bool in
  let! v := p_imm_bool in
  let! on := parse_if T_OnValue p_i64 in
  let! off := parse_if T_OffValue p_i64 in
  let! sel := parse_while T_pSelected p_nodeid in
  let onv := dflt 1 on in
  let offv := dflt 0 off in
  let v' := match v with Imm b => Imm (if b then onv else offv) | PNode n => PNode n end in
  ret (mkBoolean Par a e (dflt false st) v' onv offv sel)).

Definition p_command (attrs : list (str * str)) : P (command Par) :=
  with_attr attrs (fun a =>
  let! e := p_eb in
  let! v := p_imm_i64 in
  let! cv := p_imm_i64 in
  let! polling := parse_if T_PollingTime p_u64 in
  ret (mkCommand Par a e v cv polling)).

(* EnumEntryNode::parse : the name is "$" symbolic "_" fresh_id *)
Definition p_enumentry (fresh : Z) (attrs : list (str * str)) : P (enumentry Par) :=
  match attribute_of T_Name attrs with
  | None => fail
  | Some symbolic =>
    with_attr attrs (fun a0 =>
    let a := mkAttr Par (36 :: symbolic ++ 95 :: print_dec fresh) (a_ns a0) (a_mp a0) (a_es a0) in
    let! e := p_eb in
    let! v := p_i64 in
    let! num := parse_if T_NumericValue p_f64 in
    let! sc := parse_if T_IsSelfClearing p_bool in
    ret (mkEnumentry Par a e v num symbolic (dflt false sc)))
  end.

(* while let Some(ent_node) = node.next_if(ENUM_ENTRY) *)
Fixpoint p_enumentries (fuel : nat) (fresh : Z) : P (list (enumentry Par)) :=
  match fuel with
  | O => fun _ => Err E_FUEL
  | S f => let! x := next_if T_EnumEntry in
           match x with
           | Some (attrs, ch) =>
               let! e := lift (run_elem (p_enumentry fresh) attrs ch) in
               let! r := p_enumentries f (fresh + 1) in ret (e :: r)
           | None => ret []
           end
  end.

Definition p_enumeration (fresh : Z) (attrs : list (str * str)) : P (enumeration Par * list node_data) :=
  with_attr attrs (fun a =>
  let! e := p_eb in
  let! st := parse_if T_Streamable p_bool in
  let! ents := (fun c => p_enumentries (S (List.length c)) fresh c) in
  let! v := p_imm_i64 in
  let! sel := parse_while T_pSelected p_nodeid in
  let! polling := parse_if T_PollingTime p_u64 in
  ret (mkEnumeration Par a e (dflt false st) (map (fun x => a_name (ee_attr x)) ents) v sel polling,
       map NdEnumEntry ents)).

Definition F64_MIN_BITS : Z := 18442240474082181119.   (* 0xFFEFFFFFFFFFFFFF = f64::MIN *)
Definition F64_MAX_BITS : Z := 9218868437227405311.    (* 0x7FEFFFFFFFFFFFFF = f64::MAX *)

Definition p_float (attrs : list (str * str)) : P (floatn Par) :=
  with_attr attrs (fun a =>
  let! e := p_eb in
  let! st := parse_if T_Streamable p_bool in
  let! vk := p_vkind p_f64 p_imm_f64 in
  let! mn := or_else (parse_if T_Min p_imm_f64) (parse_if T_pMin p_imm_f64) in
  let! mx := or_else (parse_if T_Max p_imm_f64) (parse_if T_pMax p_imm_f64) in
  let! inc := or_else (parse_if T_Inc p_imm_f64) (parse_if T_pInc p_imm_f64) in
  let! unit := parse_if T_Unit p_string in
  let! repr := parse_if T_Representation (p_enum frep_tbl) in
  let! dn := parse_if T_DisplayNotation (p_enum dnot_tbl) in
  let! dp := parse_if T_DisplayPrecision p_i64 in
  ret (mkFloat Par a e (dflt false st) vk (dflt (Imm (FvBits F64_MIN_BITS)) mn)
               (dflt (Imm (FvBits F64_MAX_BITS)) mx) inc unit (dflt FrPureNumber repr)
               (dflt DnAutomatic dn) (dflt 6 dp))).

Definition p_floatreg (attrs : list (str * str)) : P (floatreg Par * list node_data) :=
  with_attr attrs (fun a =>
  let! r := p_rb in
  let! en := parse_if T_Endianess (p_enum endian_tbl) in
  let! unit := parse_if T_Unit p_string in
  let! repr := parse_if T_Representation (p_enum frep_tbl) in
  let! dn := parse_if T_DisplayNotation (p_enum dnot_tbl) in
  let! dp := parse_if T_DisplayPrecision p_i64 in
  ret (mkFloatreg Par a (fst r) (dflt EnLE en) unit (dflt FrPureNumber repr) (dflt DnAutomatic dn)
                  (dflt 6 dp), snd r)).

Definition p_stringn (attrs : list (str * str)) : P (stringn Par) :=
  with_attr attrs (fun a =>
  let! e := p_eb in
  let! st := parse_if T_Streamable p_bool in
  let! v := next_if T_Value in
  let! value := match v with
                | Some (_, ch) => ret (Imm (text_of ch))
                | None => mapP PNode next_text
                end in
  ret (mkString Par a e (dflt false st) value)).

Definition p_regnode (attrs : list (str * str)) : P (regnode Par * list node_data) :=
  with_attr attrs (fun a => let! r := p_rb in ret (mkRegnode Par a (fst r), snd r)).

Definition p_port (attrs : list (str * str)) : P (port Par) :=
  with_attr attrs (fun a =>
  let! e := p_eb in
  let! c := next_if T_ChunkID in
  let! chunk := match c with
                | Some (_, ch) => let! z := lift (from_str_radix false 16 (text_of ch)) in ret (Some (@Imm Z z))
                | None => let! pc := next_if T_pChunkID in
                          match pc with
                          | Some (_, ch) => ret (Some (PNode (text_of ch)))
                          | None => ret None
                          end
                end in
  let! sw := parse_if T_SwapEndianess p_bool in
  let! cc := parse_if T_CacheChunkData p_bool in
  ret (mkPort Par a e chunk (dflt false sw) (dflt false cc))).

(* ------------------------------------------------------------------------------------------------ *)
(* dispatch on the tag (mod.rs), Group flattening, the document                                      *)

Definition E_UNMODELLED : Z := 98.

(* result of parsing one child of the document / of a group: nodes stored while parsing (enum entries,
   embedded swiss knives), nodes handed back to the caller, invalidator registrations, next fresh id *)
Record presult := mkPres {
  pr_stored : list node_data; pr_ret : list node_data; pr_invs : list (str * str); pr_fresh : Z }.

Definition pres1 (fresh : Z) (d : node_data) : presult := mkPres [] [d] [] fresh.
Definition on_ok {A} (x : outcome (A * list xml)) (f : A -> presult) : outcome presult :=
  match x with Ok (a, _) => Ok (f a) | Err e => Err e | Panic => Panic end.

Definition parse_leaf (fixed : bool) (fresh : Z) (tag : str) (attrs : list (str * str)) (ch : list xml)
  : outcome presult :=
  if str_eqb tag T_Node then on_ok (p_plain attrs ch) (fun n => pres1 fresh (NdNode n))
  else if str_eqb tag T_Category then on_ok (p_category attrs ch) (fun n => pres1 fresh (NdCategory n))
  else if str_eqb tag T_Integer then on_ok (p_integer attrs ch) (fun n => pres1 fresh (NdInteger n))
  else if str_eqb tag T_IntReg then
    on_ok (p_intreg attrs ch)
          (fun n => mkPres (snd n) [NdIntReg (fst n)] (reg_invs (ir_rb (fst n)) (a_name (ir_attr (fst n)))) fresh)
  else if str_eqb tag T_MaskedIntReg then
    on_ok (p_masked attrs ch)
          (fun n => mkPres (snd n) [NdMaskedIntReg (fst n)]
                           (reg_invs (mr_rb (fst n)) (a_name (mr_attr (fst n)))) fresh)
  else if str_eqb tag T_Boolean then on_ok (p_boolean attrs ch) (fun n => pres1 fresh (NdBoolean n))
  else if str_eqb tag T_Command then on_ok (p_command attrs ch) (fun n => pres1 fresh (NdCommand n))
  else if str_eqb tag T_Enumeration then
    on_ok (p_enumeration fresh attrs ch)
          (fun n => mkPres (snd n) [NdEnumeration (fst n)] [] (fresh + Z.of_nat (List.length (snd n))))
  else if str_eqb tag T_Float then on_ok (p_float attrs ch) (fun n => pres1 fresh (NdFloat n))
  else if str_eqb tag T_FloatReg then
    on_ok (p_floatreg attrs ch)
          (fun n => mkPres (snd n) [NdFloatReg (fst n)] (reg_invs (fr_rb (fst n)) (a_name (fr_attr (fst n)))) fresh)
  else if str_eqb tag T_String then on_ok (p_stringn attrs ch) (fun n => pres1 fresh (NdString n))
  else if str_eqb tag T_StringReg then
    on_ok (p_regnode attrs ch)
          (fun n => mkPres (snd n) [NdStringReg (fst n)] (reg_invs (rn_rb (fst n)) (a_name (rn_attr (fst n)))) fresh)
  else if str_eqb tag T_Register then
    on_ok (p_regnode attrs ch)
          (fun n => mkPres (snd n) [NdRegister (fst n)] (reg_invs (rn_rb (fst n)) (a_name (rn_attr (fst n)))) fresh)
  else if str_eqb tag T_IntSwissKnife then
    on_ok (p_iswiss attrs ch) (fun n => pres1 fresh (NdIntSwissKnife n))
  else if str_eqb tag T_Port then on_ok (p_port attrs ch) (fun n => pres1 fresh (NdPort n))
  else if str_eqb tag T_StructReg then
    on_ok (p_struct fixed ch)
          (fun n => let ms := into_masked_int_regs fixed (fst n) in
                    mkPres (snd n) (map NdMaskedIntReg ms) (masked_invs ms) fresh)
  else if str_eqb tag T_Converter then on_ok (p_fconv attrs ch) (fun n => pres1 fresh (NdConverter n))
  else if str_eqb tag T_IntConverter then on_ok (p_iconv attrs ch) (fun n => pres1 fresh (NdIntConverter n))
  else if str_eqb tag T_SwissKnife then on_ok (p_fswiss attrs ch) (fun n => pres1 fresh (NdSwissKnife n))
  else Panic.      (* todo!() for the DCAM kinds, unreachable!() otherwise *)

Definition pres_app (a b : presult) : presult :=
  mkPres (pr_stored a ++ pr_stored b) (pr_ret a ++ pr_ret b) (pr_invs a ++ pr_invs b) (pr_fresh b).

(* Vec<NodeData>::parse: a Group hands back the nodes of all its children *)
Fixpoint parse_node (fixed : bool) (fresh : Z) (x : xml) {struct x} : outcome presult :=
  match x with
  | Elem tag attrs ch =>
      if str_eqb tag T_Group then
        (fix go (c : list xml) (acc : presult) {struct c} : outcome presult :=
           match c with
           | [] => Ok acc
           | y :: r => match y with
                       | Elem _ _ _ => let? p := parse_node fixed (pr_fresh acc) y in go r (pres_app acc p)
                       | _ => go r acc
                       end
           end) ch (mkPres [] [] [] fresh)
      else parse_leaf fixed fresh tag attrs ch
  | _ => Panic
  end.

Record regdesc := mkRegdesc {
  rd_model : str; rd_vendor : str; rd_tooltip : option str; rd_stdns : stdns;
  rd_versions : list Z; rd_product_guid : str; rd_version_guid : str }.

Definition req_attr (name : str) (attrs : list (str * str)) : outcome str :=
  match attribute_of name attrs with Some s => Ok s | None => Panic end.

(* RegisterDescription::parse *)
Definition parse_regdesc (attrs : list (str * str)) : outcome regdesc :=
  let? model := req_attr T_ModelName attrs in
  let? vendor := req_attr T_VendorName attrs in
  let? sn := req_attr T_StandardNameSpace attrs in
  let? sn := attr_enum stdns_tbl sn in
  let? v1 := (let? s := req_attr T_SchemaMajorVersion attrs in convert_to_uint s) in
  let? v2 := (let? s := req_attr T_SchemaMinorVersion attrs in convert_to_uint s) in
  let? v3 := (let? s := req_attr T_SchemaSubMinorVersion attrs in convert_to_uint s) in
  let? v4 := (let? s := req_attr T_MajorVersion attrs in convert_to_uint s) in
  let? v5 := (let? s := req_attr T_MinorVersion attrs in convert_to_uint s) in
  let? v6 := (let? s := req_attr T_SubMinorVersion attrs in convert_to_uint s) in
  let? pg := req_attr T_ProductGuid attrs in
  let? vg := req_attr T_VersionGuid attrs in
  Ok (mkRegdesc model vendor (attribute_of T_ToolTip attrs) sn [v1; v2; v3; v4; v5; v6] pg vg).

(* DefaultNodeStore::store_node: debug_assert!(self.store[id].is_none()) *)
Fixpoint store_all (st : list node_data) (l : list node_data) : outcome (list node_data) :=
  match l with
  | [] => Ok st
  | d :: r => if existsb (fun x => str_eqb (nd_name x) (nd_name d)) st then Panic
              else store_all (st ++ [d]) r
  end.

Record store := mkStore { s_nodes : list node_data; s_invs : list (str * str) }.

Fixpoint parse_children (fixed : bool) (c : list xml) (fresh : Z) (st : store) : outcome store :=
  match c with
  | [] => Ok st
  | Elem t a ch :: r =>
      let? p := parse_node fixed fresh (Elem t a ch) in
      let? ns := store_all (s_nodes st) (pr_stored p ++ pr_ret p) in
      parse_children fixed r (pr_fresh p) (mkStore ns (s_invs st ++ pr_invs p))
  | _ :: r => parse_children fixed r fresh st
  end.

(* parser::parse on the root element *)
Definition parse_doc (fixed : bool) (root : xml) : outcome (regdesc * store) :=
  match root with
  | Elem tag attrs ch =>
      if negb (str_eqb tag T_RegisterDescription) then Panic else
      let? rd := parse_regdesc attrs in
      let? st := parse_children fixed ch 0 (mkStore [] []) in
      Ok (rd, st)
  | _ => Panic
  end.

(* ------------------------------------------------------------------------------------------------ *)
(* renderer: declared node -> elements in schema order, optional elements present / absent             *)

Definition txt (s : str) : list xml := match s with [] => [] | _ => [Text s] end.
Definition el (tag s : str) : xml := Elem tag [] (txt s).
Definition ropt {A} (tag : str) (sh : A -> str) (o : option A) (k : list xml) : list xml :=
  match o with Some x => el tag (sh x) :: k | None => k end.
Definition rmany {A} (tag : str) (sh : A -> str) (l : list A) (k : list xml) : list xml :=
  map (fun x => el tag (sh x)) l ++ k.
Definition sid (s : str) : str := s.

Definition sh_ilit (l : ilit) : str :=
  match il_form l with
  | FmDec => print_dec (il_val l)
  | FmHex px dg => 48 :: (if px then 88 else 120) :: print_nat dg 16 (il_val l)
  end.
Definition sh_hlit (l : hlit) : str := print_nat (hl_up l) 16 (hl_val l).
Definition sh_blit (l : blit) : str :=
  if bl_yesno l then (if bl_val l then L_Yes else L_No) else (if bl_val l then L_true else L_false).
Definition sh_fval (f : fval) : str :=
  match f with FvInf => L_INF | FvNegInf => L_NegINF | FvText t => t | FvBits _ => [] end.

Definition rimm {L} (tagI tagP : str) (sh : L -> str) (x : imm L) (k : list xml) : list xml :=
  match x with Imm l => el tagI (sh l) :: k | PNode n => el tagP n :: k end.
Definition roimm {L} (tagI tagP : str) (sh : L -> str) (o : option (imm L)) (k : list xml) : list xml :=
  match o with Some x => rimm tagI tagP sh x k | None => k end.

Definition oattr {A} (key : str) (sh : A -> str) (o : option A) (k : list (str * str)) : list (str * str) :=
  match o with Some x => (key, sh x) :: k | None => k end.
Definition r_attr (a : attr Src) : list (str * str) :=
  (T_Name, a_name a) :: oattr T_NameSpace namespace_name (a_ns a)
    (oattr T_MergePriority mergeprio_name (a_mp a) (oattr T_ExposeStatic sh_blit (a_es a) [])).

Definition r_eb (e : eb Src) (k : list xml) : list xml :=
  (match eb_ext e with Some ch => fun k => Elem T_Extension [] ch :: k | None => fun k => k end)
  (ropt T_ToolTip sid (eb_tooltip e) (ropt T_Description sid (eb_description e)
  (ropt T_DisplayName sid (eb_display_name e) (ropt T_Visibility vis_name (eb_vis e)
  (ropt T_DocuURL sid (eb_docu_url e) (ropt T_IsDeprecated sh_blit (eb_deprecated e)
  (ropt T_EventID sh_hlit (eb_event e) (ropt T_pIsImplemented sid (eb_impl e)
  (ropt T_pIsAvailable sid (eb_avail e) (ropt T_pIsLocked sid (eb_locked e)
  (ropt T_pBlockPolling sid (eb_block e) (ropt T_ImposedAccessMode access_name (eb_imposed e)
  (rmany T_pError sid (eb_errors e) (ropt T_pAlias sid (eb_alias e) (ropt T_pCastAlias sid (eb_cast e)
  (rmany T_pInvalidator sid (eb_invs e) k)))))))))))))))).

Definition r_ixs {L} (sh : L -> str) (ixs : list (ilit * imm L)) (k : list xml) : list xml :=
  map (fun p => match snd p with
                | Imm l => Elem T_ValueIndexed [(T_Index, sh_ilit (fst p))] (txt (sh l))
                | PNode n => Elem T_pValueIndexed [(T_Index, sh_ilit (fst p))] (txt n)
                end) ixs ++ k.
Definition r_vk {L} (sh : L -> str) (v : svkind L) (k : list xml) : list xml :=
  match v with
  | SvValue l => el T_Value (sh l) :: k
  | SvPValue before pv after => rmany T_pValueCopy sid before (el T_pValue pv :: rmany T_pValueCopy sid after k)
  | SvPIndex pi ixs d => el T_pIndex pi :: r_ixs sh ixs (rimm T_ValueDefault T_pValueDefault sh d k)
  end.

Definition r_named {A} (tag : str) (sh : A -> str) (l : list (str * A)) (k : list xml) : list xml :=
  map (fun p => Elem tag [(T_Name, fst p)] (txt (sh (snd p)))) l ++ k.

Definition r_bitmask (b : bitmask ilit) (k : list xml) : list xml :=
  match b with
  | BmBit x => el T_Bit (sh_ilit x) :: k
  | BmRange l m => el T_LSB (sh_ilit l) :: el T_MSB (sh_ilit m) :: k
  end.

Definition r_iswiss_body (s : iswiss Src) : list xml :=
  r_eb (sk_eb s) (ropt T_Streamable sh_blit (sk_streamable s) (r_named T_pVariable sid (sk_vars s)
  (r_named T_Constant sh_ilit (sk_consts s) (r_named T_Expression sid (sk_exprs s)
  (el T_Formula (sk_formula s) :: ropt T_Unit sid (sk_unit s)
  (ropt T_Representation irep_name (sk_repr s) [])))))).
Definition r_iswiss (s : iswiss Src) : xml := Elem T_IntSwissKnife (r_attr (sk_attr s)) (r_iswiss_body s).

Definition r_addr (a : saddr) : xml :=
  match a with
  | SaAddr (Imm l) => el T_Address (sh_ilit l)
  | SaAddr (PNode n) => el T_pAddress n
  | SaSwiss s => r_iswiss s
  | SaPIndex None pi => el T_pIndex pi
  | SaPIndex (Some (Imm l)) pi => Elem T_pIndex [(T_Offset, sh_ilit l)] (txt pi)
  | SaPIndex (Some (PNode n)) pi => Elem T_pIndex [(T_pOffset, n)] (txt pi)
  end.

Definition r_rb (r : rb Src) (k : list xml) : list xml :=
  r_eb (rb_eb r) (ropt T_Streamable sh_blit (rb_streamable r) (map r_addr (rb_addrs r) ++
  rimm T_Length T_pLength sh_ilit (rb_length r) (ropt T_AccessMode access_name (rb_access r)
  (el T_pPort (rb_port r) :: ropt T_Cachable caching_name (rb_cache r)
  (ropt T_PollingTime sh_ilit (rb_polling r) (rmany T_pInvalidator sid (rb_invs r) k)))))).

Definition r_plain (n : plain Src) : xml := Elem T_Node (r_attr (pl_attr n)) (r_eb (pl_eb n) []).
Definition r_category (n : category Src) : xml :=
  Elem T_Category (r_attr (ca_attr n)) (r_eb (ca_eb n) (rmany T_pFeature sid (ca_features n) [])).

Definition r_integer (n : integer Src) : xml :=
  Elem T_Integer (r_attr (i_attr n))
    (r_eb (i_eb n) (ropt T_Streamable sh_blit (i_streamable n) (r_vk sh_ilit (i_value n)
    (roimm T_Min T_pMin sh_ilit (i_min n) (roimm T_Max T_pMax sh_ilit (i_max n)
    (roimm T_Inc T_pInc sh_ilit (i_inc n) (ropt T_Unit sid (i_unit n)
    (ropt T_Representation irep_name (i_repr n) (rmany T_pSelected sid (i_selected n) []))))))))).

Definition r_int_tail (sg : option sign) (en : option endian) (unit : option str) (repr : option irep)
  (sel : list str) : list xml :=
  ropt T_Sign sign_name sg (ropt T_Endianess endian_name en (ropt T_Unit sid unit
  (ropt T_Representation irep_name repr (rmany T_pSelected sid sel [])))).

Definition r_intreg (n : intreg Src) : xml :=
  Elem T_IntReg (r_attr (ir_attr n))
    (r_rb (ir_rb n) (r_int_tail (ir_sign n) (ir_endian n) (ir_unit n) (ir_repr n) (ir_selected n))).
Definition r_masked (n : maskedreg Src) : xml :=
  Elem T_MaskedIntReg (r_attr (mr_attr n))
    (r_rb (mr_rb n) (r_bitmask (mr_mask n)
       (r_int_tail (mr_sign n) (mr_endian n) (mr_unit n) (mr_repr n) (mr_selected n)))).

Definition r_sentry (e : sentry Src) : xml :=
  Elem T_StructEntry (r_attr (se_attr e))
    (r_eb (se_eb e) (ropt T_AccessMode access_name (se_access e) (ropt T_Cachable caching_name (se_cache e)
    (ropt T_PollingTime sh_ilit (se_polling e) (ropt T_Streamable sh_blit (se_streamable e)
    (r_bitmask (se_mask e) (ropt T_Sign sign_name (se_sign e) (ropt T_Unit sid (se_unit e)
    (ropt T_Representation irep_name (se_repr e) (rmany T_pSelected sid (se_selected e) [])))))))))).
Definition r_struct (s : structreg Src) : xml :=
  Elem T_StructReg [] (r_rb (st_rb s) (ropt T_Endianess endian_name (st_endian s) (map r_sentry (st_entries s)))).

Definition r_boolean (n : boolean Src) : xml :=
  Elem T_Boolean (r_attr (b_attr n))
    (r_eb (b_eb n) (ropt T_Streamable sh_blit (b_streamable n) (rimm T_Value T_pValue sh_blit (b_value n)
    (ropt T_OnValue sh_ilit (b_on n) (ropt T_OffValue sh_ilit (b_off n)
    (rmany T_pSelected sid (b_selected n) [])))))).

Definition r_command (n : command Src) : xml :=
  Elem T_Command (r_attr (c_attr n))
    (r_eb (c_eb n) (rimm T_Value T_pValue sh_ilit (c_value n)
    (rimm T_CommandValue T_pCommandValue sh_ilit (c_command_value n)
    (ropt T_PollingTime sh_ilit (c_polling n) [])))).

Definition r_enumentry (e : enumentry Src) : xml :=
  Elem T_EnumEntry (r_attr (ee_attr e))
    (r_eb (ee_eb e) (el T_Value (sh_ilit (ee_value e)) :: ropt T_NumericValue sh_fval (ee_numeric e)
    (ropt T_IsSelfClearing sh_blit (ee_self_clearing e) []))).
Definition r_enumeration (n : enumeration Src) : xml :=
  Elem T_Enumeration (r_attr (en_attr n))
    (r_eb (en_eb n) (ropt T_Streamable sh_blit (en_streamable n) (map r_enumentry (en_entries n) ++
    rimm T_Value T_pValue sh_ilit (en_value n) (rmany T_pSelected sid (en_selected n)
    (ropt T_PollingTime sh_ilit (en_polling n) []))))).

Definition r_float_tail (unit : option str) (repr : option frep) (dn : option dnot) (dp : option ilit)
  : list xml :=
  ropt T_Unit sid unit (ropt T_Representation frep_name repr (ropt T_DisplayNotation dnot_name dn
  (ropt T_DisplayPrecision sh_ilit dp []))).
Definition r_float (n : floatn Src) : xml :=
  Elem T_Float (r_attr (f_attr n))
    (r_eb (f_eb n) (ropt T_Streamable sh_blit (f_streamable n) (r_vk sh_fval (f_value n)
    (roimm T_Min T_pMin sh_fval (f_min n) (roimm T_Max T_pMax sh_fval (f_max n)
    (roimm T_Inc T_pInc sh_fval (f_inc n)
    (r_float_tail (f_unit n) (f_repr n) (f_dnot n) (f_dprec n)))))))).
Definition r_floatreg (n : floatreg Src) : xml :=
  Elem T_FloatReg (r_attr (fr_attr n))
    (r_rb (fr_rb n) (ropt T_Endianess endian_name (fr_endian n)
       (r_float_tail (fr_unit n) (fr_repr n) (fr_dnot n) (fr_dprec n)))).

Definition r_stringn (n : stringn Src) : xml :=
  Elem T_String (r_attr (s_attr n))
    (r_eb (s_eb n) (ropt T_Streamable sh_blit (s_streamable n) (rimm T_Value T_pValue sid (s_value n) []))).
Definition r_regnode (tag : str) (n : regnode Src) : xml := Elem tag (r_attr (rn_attr n)) (r_rb (rn_rb n) []).
Definition r_port (n : port Src) : xml :=
  Elem T_Port (r_attr (po_attr n))
    (r_eb (po_eb n) (roimm T_ChunkID T_pChunkID sh_hlit (po_chunk n)
    (ropt T_SwapEndianess sh_blit (po_swap n) (ropt T_CacheChunkData sh_blit (po_cache n) [])))).

Definition r_fswiss (s : fswiss Src) : xml :=
  Elem T_SwissKnife (r_attr (fk_attr s))
    (r_eb (fk_eb s) (ropt T_Streamable sh_blit (fk_streamable s) (r_named T_pVariable sid (fk_vars s)
    (r_named T_Constant sh_fval (fk_consts s) (r_named T_Expression sid (fk_exprs s)
    (el T_Formula (fk_formula s) :: r_float_tail (fk_unit s) (fk_repr s) (fk_dnot s) (fk_dprec s))))))).
Definition r_iconv (s : iconv Src) : xml :=
  Elem T_IntConverter (r_attr (ic_attr s))
    (r_eb (ic_eb s) (ropt T_Streamable sh_blit (ic_streamable s) (r_named T_pVariable sid (ic_vars s)
    (r_named T_Constant sh_ilit (ic_consts s) (r_named T_Expression sid (ic_exprs s)
    (el T_FormulaTo (ic_to s) :: el T_FormulaFrom (ic_from s) :: el T_pValue (ic_pvalue s) ::
     ropt T_Unit sid (ic_unit s) (ropt T_Representation irep_name (ic_repr s)
     (ropt T_Slope slope_name (ic_slope s) [])))))))).
Definition r_fconv (s : fconv Src) : xml :=
  Elem T_Converter (r_attr (fc_attr s))
    (r_eb (fc_eb s) (ropt T_Streamable sh_blit (fc_streamable s) (r_named T_pVariable sid (fc_vars s)
    (r_named T_Constant sh_fval (fc_consts s) (r_named T_Expression sid (fc_exprs s)
    (el T_FormulaTo (fc_to s) :: el T_FormulaFrom (fc_from s) :: el T_pValue (fc_pvalue s) ::
     ropt T_Unit sid (fc_unit s) (ropt T_Representation frep_name (fc_repr s)
     (ropt T_DisplayNotation dnot_name (fc_dnot s) (ropt T_DisplayPrecision sh_ilit (fc_dprec s)
     (ropt T_Slope slope_name (fc_slope s) (ropt T_IsLinear sh_blit (fc_linear s) []))))))))))).

(* declared nodes of a document *)
Inductive snode :=
| SnNode (n : plain Src) | SnCategory (n : category Src) | SnInteger (n : integer Src)
| SnIntReg (n : intreg Src) | SnMaskedIntReg (n : maskedreg Src) | SnBoolean (n : boolean Src)
| SnCommand (n : command Src) | SnEnumeration (n : enumeration Src) | SnFloat (n : floatn Src)
| SnFloatReg (n : floatreg Src) | SnString (n : stringn Src) | SnStringReg (n : regnode Src)
| SnRegister (n : regnode Src) | SnIntSwissKnife (n : iswiss Src) | SnPort (n : port Src)
| SnStructReg (s : structreg Src)
| SnConverter (n : fconv Src) | SnIntConverter (n : iconv Src) | SnSwissKnife (n : fswiss Src)
| SnGroup (l : list snode).

Fixpoint render (n : snode) : xml :=
  match n with
  | SnNode n => r_plain n | SnCategory n => r_category n | SnInteger n => r_integer n
  | SnIntReg n => r_intreg n | SnMaskedIntReg n => r_masked n | SnBoolean n => r_boolean n
  | SnCommand n => r_command n | SnEnumeration n => r_enumeration n | SnFloat n => r_float n
  | SnFloatReg n => r_floatreg n | SnString n => r_stringn n | SnStringReg n => r_regnode T_StringReg n
  | SnRegister n => r_regnode T_Register n | SnIntSwissKnife n => r_iswiss n | SnPort n => r_port n
  | SnStructReg s => r_struct s
  | SnConverter n => r_fconv n | SnIntConverter n => r_iconv n | SnSwissKnife n => r_fswiss n
  | SnGroup l => Elem T_Group [] (map render l)
  end.

(* ------------------------------------------------------------------------------------------------ *)
(* normalise: what the accessors must report for a declared node (schema defaults filled in)          *)

Definition nb (o : option blit) : bool := dflt false (option_map bl_val o).
Definition n_imm_i (x : imm ilit) : imm Z := imm_map il_val x.
Definition n_attr (a : attr Src) : attr Par :=
  mkAttr Par (a_name a) (dflt NsCustom (a_ns a)) (dflt MpMid (a_mp a)) (option_map bl_val (a_es a)).
Definition n_eb (e : eb Src) : eb Par :=
  mkEb Par tt (eb_tooltip e) (eb_description e) (eb_display_name e) (dflt VBeginner (eb_vis e))
       (eb_docu_url e) (nb (eb_deprecated e)) (option_map hl_val (eb_event e)) (eb_impl e) (eb_avail e)
       (eb_locked e) (eb_block e) (dflt AmRW (eb_imposed e)) (eb_errors e) (eb_alias e) (eb_cast e) (eb_invs e).
Definition n_vk {L L'} (f : L -> L') (v : svkind L) : vkind L' :=
  match v with
  | SvValue l => VkValue (f l)
  | SvPValue before pv after => VkPValue pv (before ++ after)
  | SvPIndex pi ixs d => VkPIndex pi (map (fun p => (il_val (fst p), imm_map f (snd p))) ixs) (imm_map f d)
  end.
Definition n_named {A B} (f : A -> B) (l : list (str * A)) : list (str * B) := map (fun p => (fst p, f (snd p))) l.
Definition n_iswiss (s : iswiss Src) : iswiss Par :=
  mkIswiss Par (n_attr (sk_attr s)) (n_eb (sk_eb s)) (nb (sk_streamable s)) (sk_vars s)
           (n_named il_val (sk_consts s)) (sk_exprs s) (sk_formula s) (sk_unit s) (dflt IrPureNumber (sk_repr s)).
Definition n_fswiss (s : fswiss Src) : fswiss Par :=
  mkFswiss Par (n_attr (fk_attr s)) (n_eb (fk_eb s)) (nb (fk_streamable s)) (fk_vars s) (fk_consts s) (fk_exprs s)
           (fk_formula s) (fk_unit s) (dflt FrPureNumber (fk_repr s)) (dflt DnAutomatic (fk_dnot s))
           (dflt 6 (option_map il_val (fk_dprec s))).
Definition n_iconv (s : iconv Src) : iconv Par :=
  mkIconv Par (n_attr (ic_attr s)) (n_eb (ic_eb s)) (nb (ic_streamable s)) (ic_vars s) (n_named il_val (ic_consts s))
          (ic_exprs s) (ic_to s) (ic_from s) (ic_pvalue s) (ic_unit s) (dflt IrPureNumber (ic_repr s))
          (dflt SlAutomatic (ic_slope s)).
Definition n_fconv (s : fconv Src) : fconv Par :=
  mkFconv Par (n_attr (fc_attr s)) (n_eb (fc_eb s)) (nb (fc_streamable s)) (fc_vars s) (fc_consts s) (fc_exprs s)
          (fc_to s) (fc_from s) (fc_pvalue s) (fc_unit s) (dflt FrPureNumber (fc_repr s)) (dflt DnAutomatic (fc_dnot s))
          (dflt 6 (option_map il_val (fc_dprec s))) (dflt SlAutomatic (fc_slope s)) (nb (fc_linear s)).
Definition n_addr (a : saddr) : addr :=
  match a with
  | SaAddr x => AAddr (n_imm_i x)
  | SaSwiss s => ASwiss (a_name (sk_attr s))
  | SaPIndex off pi => APIndex (option_map n_imm_i off) pi
  end.
Definition addr_nodes (a : saddr) : list node_data :=
  match a with SaSwiss s => [NdIntSwissKnife (n_iswiss s)] | _ => [] end.
Definition n_rb (r : rb Src) : rb Par :=
  mkRb Par (n_eb (rb_eb r)) (nb (rb_streamable r)) (map n_addr (rb_addrs r)) (n_imm_i (rb_length r))
       (dflt AmRO (rb_access r)) (rb_port r) (dflt CmWriteThrough (rb_cache r))
       (option_map il_val (rb_polling r)) (rb_invs r).
Definition rb_nodes (r : rb Src) : list node_data := List.concat (map addr_nodes (rb_addrs r)).
Definition n_bitmask (b : bitmask ilit) : bitmask Z :=
  match b with BmBit x => BmBit (il_val x) | BmRange l m => BmRange (il_val l) (il_val m) end.

Definition n_plain (n : plain Src) : plain Par := mkPlain Par (n_attr (pl_attr n)) (n_eb (pl_eb n)).
Definition n_category (n : category Src) : category Par :=
  mkCategory Par (n_attr (ca_attr n)) (n_eb (ca_eb n)) (ca_features n).
Definition n_integer (n : integer Src) : integer Par :=
  let r := dflt IrPureNumber (i_repr n) in
  mkInteger Par (n_attr (i_attr n)) (n_eb (i_eb n)) (nb (i_streamable n)) (n_vk il_val (i_value n))
    (dflt (Imm (deduce_min r)) (option_map n_imm_i (i_min n)))
    (dflt (Imm (deduce_max r)) (option_map n_imm_i (i_max n)))
    (dflt (Imm 1) (option_map n_imm_i (i_inc n))) (i_unit n) r (i_selected n).
Definition n_intreg (n : intreg Src) : intreg Par :=
  mkIntreg Par (n_attr (ir_attr n)) (n_rb (ir_rb n)) (dflt SgUnsigned (ir_sign n)) (dflt EnLE (ir_endian n))
    (ir_unit n) (dflt IrPureNumber (ir_repr n)) (ir_selected n).
Definition n_masked (n : maskedreg Src) : maskedreg Par :=
  mkMasked Par (n_attr (mr_attr n)) (n_rb (mr_rb n)) (n_bitmask (mr_mask n)) (dflt SgUnsigned (mr_sign n))
    (dflt EnLE (mr_endian n)) (mr_unit n) (dflt IrPureNumber (mr_repr n)) (mr_selected n).
Definition n_eb_noinv (e : eb Src) : eb Par :=
  mkEb Par tt (eb_tooltip e) (eb_description e) (eb_display_name e) (dflt VBeginner (eb_vis e))
       (eb_docu_url e) (nb (eb_deprecated e)) (option_map hl_val (eb_event e)) (eb_impl e) (eb_avail e)
       (eb_locked e) (eb_block e) (dflt AmRW (eb_imposed e)) (eb_errors e) (eb_alias e) (eb_cast e) [].
Definition n_sentry (e : sentry Src) : sentry Par :=
  mkSentry Par (n_attr (se_attr e)) (n_eb_noinv (se_eb e)) (eb_invs (se_eb e)) (dflt AmRO (se_access e))
    (dflt CmWriteThrough (se_cache e)) (option_map il_val (se_polling e)) (nb (se_streamable e))
    (n_bitmask (se_mask e)) (dflt SgUnsigned (se_sign e)) (se_unit e) (dflt IrPureNumber (se_repr e))
    (se_selected e).
Definition n_struct (s : structreg Src) : structreg Par :=
  mkStruct Par (n_rb (st_rb s)) (dflt EnLE (st_endian s)) (map n_sentry (st_entries s)).
Definition n_boolean (n : boolean Src) : boolean Par :=
  let onv := dflt 1 (option_map il_val (b_on n)) in
  let offv := dflt 0 (option_map il_val (b_off n)) in
  mkBoolean Par (n_attr (b_attr n)) (n_eb (b_eb n)) (nb (b_streamable n))
    (match b_value n with Imm l => Imm (if bl_val l then onv else offv) | PNode p => PNode p end)
    onv offv (b_selected n).
Definition n_command (n : command Src) : command Par :=
  mkCommand Par (n_attr (c_attr n)) (n_eb (c_eb n)) (n_imm_i (c_value n)) (n_imm_i (c_command_value n))
    (option_map il_val (c_polling n)).
Definition entry_name (symbolic : str) (fresh : Z) : str := 36 :: symbolic ++ 95 :: print_dec fresh.
Definition n_enumentry (fresh : Z) (e : enumentry Src) : enumentry Par :=
  let a := n_attr (ee_attr e) in
  mkEnumentry Par (mkAttr Par (entry_name (a_name a) fresh) (a_ns a) (a_mp a) (a_es a)) (n_eb (ee_eb e))
    (il_val (ee_value e)) (option_map convert_to_f64 (option_map sh_fval (ee_numeric e))) (a_name a)
    (nb (ee_self_clearing e)).
Fixpoint n_enumentries (fresh : Z) (l : list (enumentry Src)) : list (enumentry Par) :=
  match l with [] => [] | e :: r => n_enumentry fresh e :: n_enumentries (fresh + 1) r end.
Definition n_enumeration (fresh : Z) (n : enumeration Src) : enumeration Par :=
  mkEnumeration Par (n_attr (en_attr n)) (n_eb (en_eb n)) (nb (en_streamable n))
    (map (fun x => a_name (ee_attr x)) (n_enumentries fresh (en_entries n)))
    (n_imm_i (en_value n)) (en_selected n) (option_map il_val (en_polling n)).
Definition n_float (n : floatn Src) : floatn Par :=
  mkFloat Par (n_attr (f_attr n)) (n_eb (f_eb n)) (nb (f_streamable n)) (n_vk (fun x => x) (f_value n))
    (dflt (Imm (FvBits F64_MIN_BITS)) (f_min n)) (dflt (Imm (FvBits F64_MAX_BITS)) (f_max n)) (f_inc n)
    (f_unit n) (dflt FrPureNumber (f_repr n)) (dflt DnAutomatic (f_dnot n))
    (dflt 6 (option_map il_val (f_dprec n))).
Definition n_floatreg (n : floatreg Src) : floatreg Par :=
  mkFloatreg Par (n_attr (fr_attr n)) (n_rb (fr_rb n)) (dflt EnLE (fr_endian n)) (fr_unit n)
    (dflt FrPureNumber (fr_repr n)) (dflt DnAutomatic (fr_dnot n)) (dflt 6 (option_map il_val (fr_dprec n))).
Definition n_stringn (n : stringn Src) : stringn Par :=
  mkString Par (n_attr (s_attr n)) (n_eb (s_eb n)) (nb (s_streamable n)) (s_value n).
Definition n_regnode (n : regnode Src) : regnode Par := mkRegnode Par (n_attr (rn_attr n)) (n_rb (rn_rb n)).
Definition n_port (n : port Src) : port Par :=
  mkPort Par (n_attr (po_attr n)) (n_eb (po_eb n)) (option_map (imm_map hl_val) (po_chunk n)) (nb (po_swap n))
    (nb (po_cache n)).

(* ------------------------------------------------------------------------------------------------ *)
(* canonical dump of a store (same layout as rust/h_parse)                                           *)

Definition sh_s (s : str) : list Z := zlen s :: s.
Definition sh_o {A} (f : A -> list Z) (o : option A) : list Z := match o with None => [0] | Some x => 1 :: f x end.
Definition sh_v {A} (f : A -> list Z) (l : list A) : list Z := zlen l :: List.concat (map f l).
Definition sh_b (b : bool) : list Z := [if b then 1 else 0].
Definition sh_z (z : Z) : list Z := [z].
Definition FSENT : Z := -1180591620717411303424.     (* -(2^70): the next string is a float literal for str::parse *)
Definition ISENT : Z := -1180591620717411303425.     (* the next integer is converted with `as f64` *)
Definition sh_f (f : fval) : list Z :=
  match f with
  | FvInf => [9218868437227405312]
  | FvNegInf => [18442240474082181120]
  | FvText t => FSENT :: sh_s t
  | FvBits b => [b]
  end.
Definition sh_imm {A} (f : A -> list Z) (x : imm A) : list Z :=
  match x with Imm a => 0 :: f a | PNode n => 1 :: sh_s n end.

Definition sh_base (a : attr Par) (e : eb Par) : list Z :=
  [namespace_ord (a_ns a); mergeprio_ord (a_mp a)] ++ sh_o sh_b (a_es a) ++
  sh_o sh_s (eb_tooltip e) ++ sh_o sh_s (eb_description e) ++ sh_o sh_s (eb_display_name e) ++
  [vis_ord (eb_vis e)] ++ sh_o sh_s (eb_docu_url e) ++ sh_b (eb_deprecated e) ++ sh_o sh_z (eb_event e) ++
  sh_o sh_s (eb_impl e) ++ sh_o sh_s (eb_avail e) ++ sh_o sh_s (eb_locked e) ++ sh_o sh_s (eb_block e) ++
  [access_ord (eb_imposed e)] ++ sh_v sh_s (eb_errors e) ++ sh_o sh_s (eb_alias e) ++ sh_o sh_s (eb_cast e).

Definition sh_addr (a : addr) : list Z :=
  match a with
  | AAddr x => 0 :: sh_imm sh_z x
  | ASwiss n => 1 :: sh_s n
  | APIndex off pi => 2 :: sh_o (sh_imm sh_z) off ++ sh_s pi
  end.
Definition sh_rb (r : rb Par) : list Z :=
  sh_b (rb_streamable r) ++ sh_v sh_addr (rb_addrs r) ++ sh_imm sh_z (rb_length r) ++ [access_ord (rb_access r)] ++
  sh_s (rb_port r) ++ [caching_ord (rb_cache r)] ++ sh_o sh_z (rb_polling r) ++ sh_v sh_s (rb_invs r).
Definition sh_vk {L} (f : L -> list Z) (v : vkind L) : list Z :=
  match v with
  | VkValue l => 0 :: f l
  | VkPValue pv cs => 1 :: sh_s pv ++ sh_v sh_s cs
  | VkPIndex pi ixs d => 2 :: sh_s pi ++ sh_v (fun p => fst p :: sh_imm f (snd p)) ixs ++ sh_imm f d
  end.
Definition sh_bitmask (b : bitmask Z) : list Z :=
  match b with BmBit x => [0; x] | BmRange l m => [1; l; m] end.
Definition sh_named {A} (f : A -> list Z) (l : list (str * A)) : list Z :=
  sh_v (fun p => sh_s (fst p) ++ f (snd p)) l.

Definition sh_body (d : node_data) : list Z :=
  match d with
  | NdNode n => [0] ++ sh_s (a_name (pl_attr n)) ++ [1] ++ sh_base (pl_attr n) (pl_eb n) ++ [0]
  | NdCategory n => [1] ++ sh_s (a_name (ca_attr n)) ++ [1] ++ sh_base (ca_attr n) (ca_eb n) ++ [0] ++
                    sh_v sh_s (ca_features n)
  | NdInteger n => [2] ++ sh_s (a_name (i_attr n)) ++ [1] ++ sh_base (i_attr n) (i_eb n) ++
                   sh_b (i_streamable n) ++ sh_vk sh_z (i_value n) ++ sh_imm sh_z (i_min n) ++
                   sh_imm sh_z (i_max n) ++ sh_imm sh_z (i_inc n) ++ sh_o sh_s (i_unit n) ++
                   [irep_ord (i_repr n)] ++ sh_v sh_s (i_selected n)
  | NdIntReg n => [3] ++ sh_s (a_name (ir_attr n)) ++ [1] ++ sh_base (ir_attr n) (rb_eb (ir_rb n)) ++
                  sh_b (rb_streamable (ir_rb n)) ++ sh_rb (ir_rb n) ++ [sign_ord (ir_sign n); endian_ord (ir_endian n)] ++
                  sh_o sh_s (ir_unit n) ++ [irep_ord (ir_repr n)] ++ sh_v sh_s (ir_selected n)
  | NdMaskedIntReg n => [4] ++ sh_s (a_name (mr_attr n)) ++ [1] ++ sh_base (mr_attr n) (rb_eb (mr_rb n)) ++
                  sh_b (rb_streamable (mr_rb n)) ++ sh_rb (mr_rb n) ++ sh_bitmask (mr_mask n) ++
                  [sign_ord (mr_sign n); endian_ord (mr_endian n)] ++
                  sh_o sh_s (mr_unit n) ++ [irep_ord (mr_repr n)] ++ sh_v sh_s (mr_selected n)
  | NdBoolean n => [5] ++ sh_s (a_name (b_attr n)) ++ [1] ++ sh_base (b_attr n) (b_eb n) ++
                   sh_b (b_streamable n) ++ sh_imm sh_z (b_value n) ++ [b_on n; b_off n] ++ sh_v sh_s (b_selected n)
  | NdCommand n => [6] ++ sh_s (a_name (c_attr n)) ++ [1] ++ sh_base (c_attr n) (c_eb n) ++ [0] ++
                   sh_imm sh_z (c_value n) ++ sh_imm sh_z (c_command_value n) ++ sh_o sh_z (c_polling n)
  | NdEnumeration n => [7] ++ sh_s (a_name (en_attr n)) ++ [1] ++ sh_base (en_attr n) (en_eb n) ++
                   sh_b (en_streamable n) ++ sh_v sh_s (en_entries n) ++ sh_imm sh_z (en_value n) ++
                   sh_v sh_s (en_selected n) ++ sh_o sh_z (en_polling n)
  | NdEnumEntry n => [8] ++ sh_s (a_name (ee_attr n)) ++ [1] ++ sh_base (ee_attr n) (ee_eb n) ++ [0] ++
                   [ee_value n] ++ (match ee_numeric n with Some f => sh_f f | None => [ISENT; ee_value n] end) ++
                   sh_s (ee_symbolic n) ++ sh_b (ee_self_clearing n)
  | NdFloat n => [9] ++ sh_s (a_name (f_attr n)) ++ [1] ++ sh_base (f_attr n) (f_eb n) ++
                   sh_b (f_streamable n) ++ sh_vk sh_f (f_value n) ++ sh_imm sh_f (f_min n) ++
                   sh_imm sh_f (f_max n) ++ sh_o (sh_imm sh_f) (f_inc n) ++ sh_o sh_s (f_unit n) ++
                   [frep_ord (f_repr n); dnot_ord (f_dnot n); f_dprec n]
  | NdFloatReg n => [10] ++ sh_s (a_name (fr_attr n)) ++ [1] ++ sh_base (fr_attr n) (rb_eb (fr_rb n)) ++
                   sh_b (rb_streamable (fr_rb n)) ++ sh_rb (fr_rb n) ++ [endian_ord (fr_endian n)] ++
                   sh_o sh_s (fr_unit n) ++ [frep_ord (fr_repr n); dnot_ord (fr_dnot n); fr_dprec n]
  | NdString n => [11] ++ sh_s (a_name (s_attr n)) ++ [1] ++ sh_base (s_attr n) (s_eb n) ++
                   sh_b (s_streamable n) ++ sh_b (s_streamable n) ++ sh_imm sh_s (s_value n)
  | NdStringReg n => [12] ++ sh_s (a_name (rn_attr n)) ++ [1] ++ sh_base (rn_attr n) (rb_eb (rn_rb n)) ++
                   sh_b (rb_streamable (rn_rb n)) ++ sh_rb (rn_rb n)
  | NdRegister n => [13] ++ sh_s (a_name (rn_attr n)) ++ [1] ++ sh_base (rn_attr n) (rb_eb (rn_rb n)) ++
                   sh_b (rb_streamable (rn_rb n)) ++ sh_rb (rn_rb n)
  | NdIntSwissKnife n => [17] ++ sh_s (a_name (sk_attr n)) ++ [1] ++ sh_base (sk_attr n) (sk_eb n) ++
                   sh_b (sk_streamable n) ++ sh_named sh_s (sk_vars n) ++ sh_named sh_z (sk_consts n) ++
                   sh_v (fun p => sh_s (fst p)) (sk_exprs n) ++ sh_o sh_s (sk_unit n) ++ [irep_ord (sk_repr n)]
  | NdPort n => [18] ++ sh_s (a_name (po_attr n)) ++ [1] ++ sh_base (po_attr n) (po_eb n) ++ [0] ++
                   sh_o (sh_imm sh_z) (po_chunk n) ++ sh_b (po_swap n) ++ sh_b (po_cache n)
  | NdConverter n => [14] ++ sh_s (a_name (fc_attr n)) ++ [1] ++ sh_base (fc_attr n) (fc_eb n) ++
                   sh_b (fc_streamable n) ++ sh_named sh_s (fc_vars n) ++ sh_named sh_f (fc_consts n) ++
                   sh_v (fun p => sh_s (fst p)) (fc_exprs n) ++ sh_s (fc_pvalue n) ++ sh_o sh_s (fc_unit n) ++
                   [frep_ord (fc_repr n); dnot_ord (fc_dnot n); fc_dprec n; slope_ord (fc_slope n)] ++
                   sh_b (fc_linear n)
  | NdIntConverter n => [15] ++ sh_s (a_name (ic_attr n)) ++ [1] ++ sh_base (ic_attr n) (ic_eb n) ++
                   sh_b (ic_streamable n) ++ sh_named sh_s (ic_vars n) ++ sh_named sh_z (ic_consts n) ++
                   sh_v (fun p => sh_s (fst p)) (ic_exprs n) ++ sh_s (ic_pvalue n) ++ sh_o sh_s (ic_unit n) ++
                   [irep_ord (ic_repr n); slope_ord (ic_slope n)]
  | NdSwissKnife n => [16] ++ sh_s (a_name (fk_attr n)) ++ [1] ++ sh_base (fk_attr n) (fk_eb n) ++
                   sh_b (fk_streamable n) ++ sh_named sh_s (fk_vars n) ++ sh_named sh_f (fk_consts n) ++
                   sh_v (fun p => sh_s (fst p)) (fk_exprs n) ++ sh_o sh_s (fk_unit n) ++
                   [frep_ord (fk_repr n); dnot_ord (fk_dnot n); fk_dprec n]
  end.
Definition sh_node (d : node_data) : list Z := let b := sh_body d in zlen b :: b.

Definition sh_regdesc (r : regdesc) : list Z :=
  sh_s (rd_model r) ++ sh_s (rd_vendor r) ++ sh_o sh_s (rd_tooltip r) ++ [stdns_ord (rd_stdns r)] ++
  rd_versions r ++ sh_s (rd_product_guid r) ++ sh_s (rd_version_guid r).

Definition sh_result (x : regdesc * store) : list Z :=
  let rd := sh_regdesc (fst x) in
  zlen rd :: rd ++ [zlen (s_nodes (snd x))] ++ List.concat (map sh_node (s_nodes (snd x))) ++
  [zlen (s_invs (snd x))] ++ List.concat (map (fun p => sh_s (fst p) ++ sh_s (snd p)) (s_invs (snd x))).

(* entry point of the correspondence: the dump of the store built from a document *)
Definition run_doc (fixed : bool) (root : xml) : list Z := show_outcome sh_result (parse_doc fixed root).
