(* Model of BitMask::{lsb,msb,mask,min,max,apply_mask,masked_value} in
   genapi/src/masked_int_reg.rs.  i64 values are signed integers; bit operations are
   those of the 64-bit pattern [wrapu 64].  [bm_*_v0] is the code at the pinned commit
   (debug build); [bm_*] is the code after the "fix:" commits. *)
From Cam Require Export Outcome Bytes.

Definition p64 (z : Z) : Z := wrapu 64 z.          (* i64 -> bit pattern *)
Definition s64 (p : Z) : Z := sw 64 p.             (* bit pattern -> i64 *)

(* normalised bit positions: BE numbering counts from the most significant bit *)
Definition norm_bit (len endian b : Z) : outcome Z :=
  if endian =? 0 then Ok b else chk_u 64 (8 * len - b - 1).

(* ---- fixed code --------------------------------------------------------------- *)

(* mask(): (((1u64 << w) - 1) << lsb) as i64, or -1 for the full 64-bit field *)
Definition bm_mask (lsb msb : Z) : Z :=
  if msb - lsb =? 63 then -1
  else s64 (p64 ((2 ^ (msb - lsb + 1) - 1) * 2 ^ lsb)).

Definition bm_min (lsb msb sign : Z) : Z :=
  if sign =? 1 then (if msb - lsb =? 63 then - 2 ^ 63 else - 2 ^ (msb - lsb)) else 0.

Definition bm_max (lsb msb sign : Z) : Z :=
  if msb - lsb =? 63 then 2 ^ 63 - 1
  else if sign =? 1 then 2 ^ (msb - lsb) - 1
  else 2 ^ (msb - lsb + 1) - 1.

(* apply_mask(): logical shifts on the u64 pattern, then sign extension of the field *)
Definition bm_apply (lsb msb sign reg : Z) : Z :=
  let mask := bm_mask lsb msb in
  let res := s64 (Z.shiftr (Z.land (p64 reg) (p64 mask)) lsb) in
  if (sign =? 1) && (Z.shiftr res (msb - lsb) =? 1) then
    s64 (Z.lor (p64 res) (p64 (Z.lxor (-1) (s64 (Z.shiftr (p64 mask) lsb)))))
  else res.

(* masked_value(): range check, then (old & !mask) | ((value << lsb) & mask) *)
Definition bm_masked (lsb msb sign old v : Z) : outcome Z :=
  if (bm_max lsb msb sign <? v) || (v <? bm_min lsb msb sign) then Err 33 (* InvalidData *)
  else
    let mask := p64 (bm_mask lsb msb) in
    Ok (s64 (Z.lor (Z.land (p64 old) (Z.lxor (2 ^ 64 - 1) mask))
                   (Z.land (p64 (p64 v * 2 ^ lsb)) mask))).

(* ---- pinned code (debug build: i64 overflow panics) ---------------------------------- *)

Definition bm_mask_v0 (lsb msb : Z) : outcome Z :=
  if msb - lsb =? 63 then Ok (-1)
  else
    (* (1 << w) : shl never panics for w < 64; then - 1 (checked); then << lsb *)
    let? m := chk_s 64 (s64 (p64 (2 ^ (msb - lsb + 1))) - 1) in
    Ok (s64 (p64 (p64 m * 2 ^ lsb))).

Definition bm_max_v0 (lsb msb sign : Z) : outcome Z :=
  if msb - lsb =? 63 then Ok (2 ^ 63 - 1)
  else if sign =? 1 then Ok (2 ^ (msb - lsb) - 1)
  else chk_s 64 (s64 (p64 (2 ^ (msb - lsb + 1))) - 1).

(* arithmetic shift of the i64 *)
Definition bm_apply_v0 (lsb msb sign reg : Z) : outcome Z :=
  let? mask := bm_mask_v0 lsb msb in
  let res := Z.shiftr (s64 (Z.land (p64 reg) (p64 mask))) lsb in
  if (sign =? 1) && (Z.shiftr res (msb - lsb) =? 1) then
    Ok (s64 (Z.lor (p64 res) (p64 (Z.lxor (-1) (Z.shiftr mask lsb)))))
  else Ok res.

Definition bm_masked_v0 (lsb msb sign old v : Z) : outcome Z :=
  let? mx := bm_max_v0 lsb msb sign in
  if (mx <? v) || (v <? bm_min lsb msb sign) then Err 33
  else
    let? m := bm_mask_v0 lsb msb in
    let mask := p64 m in
    Ok (s64 (Z.lor (Z.land (p64 old) (Z.lxor (2 ^ 64 - 1) mask))
                   (Z.land (p64 (p64 v * 2 ^ lsb)) mask))).
