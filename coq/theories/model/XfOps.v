(* Operation vocabulary of gen/XmlFetchSrc.v (tools/translate_xmlfetch.py): what the translated statements of
   DeviceControl::genapi / ControlHandle::verify_xml (cameleon/src/u3v/control_handle.rs) and of ManifestTable::entries,
   ManifestEntry::{file_address, file_size, file_info, sha1_hash, read_register} (cameleon/src/u3v/register_map.rs) are
   written in.  Hand-written, no proofs.  Everything is over the X monad and the primitives of model/XmlFetch.v
   (x_read = DeviceControl::read of model/Control.v with the buffer-capacity bookkeeping, x_reg = read + from_le_bytes,
   get_x / resize_buffer, manifest_table, lossy, ver_le, zeqb_list) and the oracles [sha1] / [unzip] of its Section
   Fetch; the pure integer operations are those of lib/RustInt.v (debug build) and the decoders are the TRANSLATED ones
   of gen/DecodersSrc.v.

     xf_lift o                an `outcome` (pure, may fail / panic) as a computation
     xf_lift_rm o             the same for the translated functions of gen/DecodersSrc.v, whose error classes are
                              numbered as in spec/U3VTables.v: [xf_class] renumbers them to model/Control.v's ControlError
     xf_register_address      fn register_address = src_register_address of gen/DecodersSrc.v
     xf_read_as size a len    the free fn read_register::<T>(device, addr, len): `vec![0; len]`, one device.read of len bytes
                              at addr, T::parse_bytes = from_le_bytes of exactly size_of::<T>() = size bytes
                              (`bytes.try_into().unwrap()` panics otherwise)
     xf_read_into a n         device.read(a, &mut buf) / self.read(a, &mut buf) on a buffer of n bytes that has only been
                              zero-initialised (`vec![0; n]`, `[0; n]`: represented by its length): the bytes read
     xf_vec_zeroed n          vec![0u8; n]: capacity overflow panic for n > isize::MAX (as model/XmlFetch.v [fetch])
     xf_buffer_capacity       ControlHandle::buffer_capacity (self.buffer.capacity())
     xf_try_into_usize v e    u64 -> usize `try_into()`: the framework's usize is 64 bit, where core implements the
                              conversion with try_from_unbounded! - it never fails; e (the class From<TryFromIntError>
                              gives) is recorded but unreachable
     xf_checked_sub / xf_checked_mul / xf_and_then       u64::checked_sub / checked_mul, Option::and_then
     xf_for_range lo hi body st   `for i in lo..hi { st = body i st }` (Range<u64>::next: lo, lo+1, .. while < hi)
     xf_ver_le                `<=` of semver::Version values built by Version::new (no pre-release / build part)
     xf_all_zero bs           bs.iter().all(|b| *b == 0)
     xf_zip_*                 zip::ZipArchive::new / len / by_index / ZipFile::size / read_to_end over the oracle
                              [unzip] of model/XmlFetch.v: None = Err(ZipError); an archive is the list of its files, a
                              file that cannot be read is None (reported by read_to_end); by_index fails outside the list
     xf_map_err o e           Result<_, ZipError>::map_err(f) where f builds an error of class e
     xf_vec_with_capacity     Vec::with_capacity(n) as the empty vector (NOT modelled: its capacity-overflow panic for a
                              zip header announcing more than isize::MAX bytes - the oracle has no header) *)
From Cam Require Export XmlFetch.
From Cam Require Import RustInt DecodersSrc.
From Cam Require U3VTables.

Definition xf_class (e : Z) : Z :=
  if e =? U3VTables.CE_INVALID_DEVICE then CE_INVALID_DEVICE
  else if e =? U3VTables.CE_IO then CE_IO
  else if e =? U3VTables.CE_INVALID_DATA then CE_INVALID_DATA
  else e.

Definition xf_lift {A} (o : outcome A) : X A :=
  match o with Ok a => xret a | Err e => xfail e | Panic => xpanic end.
Definition xf_lift_rm {A} (o : outcome A) : X A :=
  match o with Ok a => xret a | Err e => xfail (xf_class e) | Panic => xpanic end.

Definition xf_register_address (base off : Z) : X Z := xf_lift_rm (src_register_address base off).

Definition xf_read_as (size addr len : Z) : X Z :=
  if len =? size then x_reg addr len else (dox _ <- x_read addr len; xpanic).
Definition xf_read_into (addr n : Z) : X (list Z) := x_read addr n.
Definition xf_vec_zeroed (n : Z) : X Z := if 2 ^ 63 <=? n then xpanic else xret n.
Definition xf_buffer_capacity : X Z := dox x <- get_x; xret (x_cap x).
Definition xf_try_into_usize (v e : Z) : outcome Z := Ok v.

Definition xf_checked_sub (w a b : Z) : option Z := if a <? b then None else Some (a - b).
Definition xf_checked_mul (w a b : Z) : option Z := if a * b <? 2 ^ w then Some (a * b) else None.
Definition xf_and_then {A B} (o : option A) (f : A -> option B) : option B :=
  match o with Some a => f a | None => None end.

Fixpoint xf_for {S} (k : nat) (i : Z) (body : Z -> S -> X S) (st : S) : X S :=
  match k with
  | O => xret st
  | S k' => dox st' <- body i st; xf_for k' (i + 1) body st'
  end.
Definition xf_for_range {S} (lo hi : Z) (body : Z -> S -> X S) (st : S) : X S :=
  xf_for (Z.to_nat (hi - lo)) lo body st.

Definition xf_ver_le (a b : Z * Z * Z) : bool := ver_le a b.
Definition xf_all_zero (bs : list Z) : bool := forallb (fun b => b =? 0) bs.
Definition xf_slice_eq (a b : list Z) : bool := zeqb_list a b.

Definition zarchive := list (option (list Z)).
Definition xf_zip_new (unzip : list Z -> option zarchive) (buf : list Z) : option zarchive := unzip buf.
Definition xf_zip_len (a : zarchive) : Z := zlen a.
Definition xf_zip_by_index (a : zarchive) (i : Z) : option (option (list Z)) := nth_error a (Z.to_nat i).
Definition xf_zip_size (f : option (list Z)) : Z := match f with Some d => zlen d | None => 0 end.
Definition xf_zip_read_to_end (f : option (list Z)) (acc : list Z) : option (list Z) :=
  match f with Some d => Some (acc ++ d) | None => None end.
Definition xf_map_err {A} (o : option A) (e : Z) : outcome A :=
  match o with Some a => Ok a | None => Err e end.
Definition xf_vec_with_capacity (n : Z) : list Z := [].
