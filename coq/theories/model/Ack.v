(* Model of device/src/u3v/protocol/ack.rs (AckPacket::parse, Status::parse,
   ScdKind::parse and the five ParseScd views) written as the code is: a cursor
   that consumes little-endian fields from the front and fails with a buffer
   error when the input is short.  [status_parse] models the code after the
   "fix:" commit (namespace mask 0b11); [status_parse_v0] is the code as found
   at the pinned commit (mask 0x11 and the two debug_assert!s). *)
From Cam Require Export Outcome Bytes.


Definition ACK_MAGIC : Z := 0x43563355.

(* cursor.read_bytes_le::<uN>() : read_exact of n bytes *)
Definition rd (n : nat) (bs : list Z) : outcome (Z * list Z) :=
  if (length bs <? n)%nat then Err E_BUFFER_IO else Ok (of_le (firstn n bs), skipn n bs).

(* ---- status ----------------------------------------------------------- *)

(* kind encoding: 0..11 GenCp(Success..GenericError), 100..104 UsbSpecific, 200 DeviceSpecific *)
Definition gencp_table : list (Z * Z) :=
  [(0x0000, 0); (0x8001, 1); (0x8002, 2); (0x8003, 3); (0x8004, 4); (0x8005, 5); (0x8006, 6);
   (0x8007, 7); (0x800B, 8); (0x800E, 9); (0x800F, 10); (0x8FFF, 11)].

Definition usb_table : list (Z * Z) :=
  [(0xA001, 100); (0xA002, 101); (0xA003, 102); (0xA004, 103); (0xA005, 104)].

Fixpoint lookup (k : Z) (t : list (Z * Z)) : option Z :=
  match t with
  | [] => None
  | (k', v) :: r => if k =? k' then Some v else lookup k r
  end.

Definition parse_gencp_status (code : Z) : outcome Z :=
  match lookup code gencp_table with
  | Some k => Ok k
  | None => Err E_INVALID_PACKET
  end.

Definition parse_usb_status (code : Z) : outcome Z :=
  match lookup code usb_table with
  | Some k => Ok k
  | None => Err E_INVALID_PACKET
  end.

(* Status::parse on the 16-bit code (after reading it) *)
Definition status_kind (code : Z) : outcome Z :=
  let namespace := Z.land (Z.shiftr code 13) 3 in
  if namespace =? 0 then parse_gencp_status code
  else if namespace =? 1 then parse_usb_status code
  else if namespace =? 2 then Ok 200
  else Err E_INVALID_PACKET.

(* the pinned code: mask 0x11 keeps only bit 13; debug_assert!s in the table functions *)
Definition status_kind_v0 (code : Z) : outcome Z :=
  let namespace := Z.land (Z.shiftr code 13) 0x11 in
  if namespace =? 0 then
    (* debug_assert!((code >> 13).trailing_zeros() >= 2) *)
    if (Z.land (Z.shiftr code 13) 3 =? 0) then parse_gencp_status code else Panic
  else if namespace =? 1 then
    if (Z.land (Z.shiftr code 13) 3 =? 1) then parse_usb_status code else Panic
  else if namespace =? 2 then Ok 200
  else Err E_INVALID_PACKET.

Definition status_is_fatal (code : Z) : bool := Z.shiftr code 15 =? 1.
Definition status_is_success (kind : Z) : bool := kind =? 0.

(* ---- ScdKind ------------------------------------------------------------ *)

(* 0 ReadMem, 1 WriteMem, 2 ReadMemStacked, 3 WriteMemStacked, 4 Pending *)
Definition scd_kind_of (id : Z) : outcome Z :=
  if id =? 0x0801 then Ok 0
  else if id =? 0x0803 then Ok 1
  else if id =? 0x0805 then Ok 4
  else if id =? 0x0807 then Ok 2
  else if id =? 0x0809 then Ok 3
  else Err E_INVALID_PACKET.

(* ---- AckPacket::parse ---------------------------------------------------- *)

Record ack := {
  a_code : Z; a_status : Z; a_kind : Z; a_scd_len : Z; a_request_id : Z; a_raw_scd : list Z
}.

Definition parse_ack_with (sk : Z -> outcome Z) (bs : list Z) : outcome ack :=
  let? (magic, r1) := rd 4 bs in
  if negb (magic =? ACK_MAGIC) then Err E_INVALID_PACKET else
  let? (code, r2) := rd 2 r1 in
  let? st := sk code in
  let? (id, r3) := rd 2 r2 in
  let? kind := scd_kind_of id in
  let? (scd_len, r4) := rd 2 r3 in
  let? (rid, r5) := rd 2 r4 in
  Ok {| a_code := code; a_status := st; a_kind := kind; a_scd_len := scd_len;
        a_request_id := rid; a_raw_scd := r5 |}.

Definition parse_ack := parse_ack_with status_kind.
Definition parse_ack_v0 := parse_ack_with status_kind_v0.

(* ---- typed SCD views ------------------------------------------------------ *)

(* ReadMem / ReadMemStacked : &buf[..scd_len] after a length check *)
Definition view_data (a : ack) : outcome (list Z) :=
  if (zlen (a_raw_scd a) <? a_scd_len a) then Err E_INVALID_PACKET
  else Ok (take (a_scd_len a) (a_raw_scd a)).

(* WriteMem : reserved u16 (must be 0), length u16 *)
Definition view_write (a : ack) : outcome Z :=
  let? (reserved, r1) := rd 2 (a_raw_scd a) in
  if negb (reserved =? 0) then Err E_INVALID_PACKET else
  let? (len, _) := rd 2 r1 in Ok len.

(* Pending : reserved u16 (must be 0), timeout in ms u16 *)
Definition view_pending (a : ack) : outcome Z := view_write a.

(* WriteMemStacked : while to_read > 0 { reserved; length; to_read -= 4 }.
   [checked] = true is the pinned code in a debug build (usize underflow panics);
   the model of the fixed code reports an error instead. *)
Fixpoint wms_loop (v0 : bool) (fuel : nat) (to_read : Z) (bs : list Z) (acc : list Z) : outcome (list Z) :=
  if to_read <=? 0 then Ok (rev acc) else
  match fuel with
  | O => Err (-1)
  | S f =>
    let? (reserved, r1) := rd 2 bs in
    if negb (reserved =? 0) then Err E_INVALID_PACKET else
    let? (len, r2) := rd 2 r1 in
    if to_read <? 4 then (if v0 then Panic else Err E_INVALID_PACKET)
    else wms_loop v0 f (to_read - 4) r2 (len :: acc)
  end.

Definition view_write_stacked_with (v0 : bool) (a : ack) : outcome (list Z) :=
  wms_loop v0 (S (Z.to_nat (a_scd_len a))) (a_scd_len a) (a_raw_scd a) [].

Definition view_write_stacked := view_write_stacked_with false.

(* ---- driver ---------------------------------------------------------------- *)

Definition show_view {A} (sh : A -> list Z) (x : outcome A) : list Z :=
  match x with
  | Ok a => 0 :: sh a
  | Err e => [1; e]
  | Panic => [2]
  end.

(* everything the API exposes for one byte string: header fields, then each of the five
   views (ReadMem, WriteMem, Pending, ReadMemStacked, WriteMemStacked), each length-prefixed *)
Definition lp (l : list Z) : list Z := zlen l :: l.

Definition run_ack_with (v0 : bool) (bs : list Z) : list Z :=
  match (if v0 then parse_ack_v0 bs else parse_ack bs) with
  | Err e => [1; e]
  | Panic => [2]
  | Ok a =>
    0 :: a_code a :: a_status a :: (if status_is_fatal (a_code a) then 1 else 0) ::
    (if status_is_success (a_status a) then 1 else 0) :: a_kind a :: a_scd_len a :: a_request_id a ::
    zlen (a_raw_scd a) ::
    lp (show_view (fun d => zlen d :: d) (view_data a)) ++
    lp (show_view (fun z => [z]) (view_write a)) ++
    lp (show_view (fun z => [z]) (view_pending a)) ++
    lp (show_view (fun d => zlen d :: d) (view_data a)) ++
    lp (show_view (fun l => zlen l :: l) (view_write_stacked_with v0 a))
  end.

Definition run_ack (bs : list Z) : list Z := run_ack_with false bs.
