(* One entry point for the correspondence: [dispatch code args] runs the model
   function selected by [code] on a flat list of integers and returns a flat
   list of integers.  Both the extracted OCaml driver and the coqc/vm_compute
   cross-check call exactly this function.  Byte strings inside [args] are
   length-prefixed. *)
From Cam Require Import Outcome Bytes Chunks Cmd Ack Event.

Definition BAD_ARGS : list Z := [-99].

Definition d_c10 (code : Z) (args : list Z) : list Z :=
  match code, args with
  | 1001, [a; n; b] => run_c10_read a n b
  | 1002, [a; n; seed; b] => run_c10_write a n seed b
  | 1003, [m] => run_c10_maxread m
  | _, _ => BAD_ARGS
  end.

Definition d_c09 (code : Z) (args : list Z) : list Z :=
  match code, args with
  | 901, [a; n; id; cap] => run_cmd (Ok (CRead a n)) id cap
  | 902, [a; n; seed; id; cap] => run_cmd (mk_write a (pat_data seed n)) id cap
  | 903, id :: cap :: rest => run_cmd (mk_read_stacked (pairs_of rest)) id cap
  | 904, id :: cap :: rest => run_cmd (mk_write_stacked (wentries_of rest)) id cap
  | _, _ => BAD_ARGS
  end.

(* byte strings arrive length-prefixed *)
Definition d_c08 (code : Z) (args : list Z) : list Z :=
  match code, args with
  | 801, n :: bs => if zlen bs =? n then run_ack bs else BAD_ARGS
  | 802, n :: bs => if zlen bs =? n then run_event bs else BAD_ARGS
  | 803, n :: bs => if zlen bs =? n then run_ack_with true bs else BAD_ARGS
  | _, _ => BAD_ARGS
  end.

Definition dispatch (code : Z) (args : list Z) : list Z :=
  if (1000 <? code) && (code <? 1100) then d_c10 code args
  else if (900 <? code) && (code <? 1000) then d_c09 code args
  else if (800 <? code) && (code <? 900) then d_c08 code args
  else BAD_ARGS.
