(* One entry point for the correspondence: [dispatch code args] runs the model
   function selected by [code] on a flat list of integers and returns a flat
   list of integers.  Both the extracted OCaml driver and the coqc/vm_compute
   cross-check call exactly this function.  Byte strings inside [args] are
   length-prefixed. *)
From Cam Require Import Outcome Bytes Chunks Cmd Ack Event Stream Payload Mem BitField RegCodec.

Definition BAD_ARGS : list Z := [-99].

Definition d_c10 (code : Z) (args : list Z) : list Z :=
  match code, args with
  | 1001, [a; n; b] => run_c10_read a n b
  | 1002, [a; n; seed; b] => run_c10_write a n seed b
  | 1003, [m] => run_c10_maxread m
  | _, _ => BAD_ARGS
  end.

Definition d_c09 (code : Z) (args : list Z) : list Z :=
  match code, args with
  | 901, [a; n; id; cap] => run_cmd (Ok (CRead a n)) id cap
  | 902, [a; n; seed; id; cap] => run_cmd (mk_write a (pat_data seed n)) id cap
  | 903, id :: cap :: rest => run_cmd (mk_read_stacked (pairs_of rest)) id cap
  | 904, id :: cap :: rest => run_cmd (mk_write_stacked (wentries_of rest)) id cap
  | _, _ => BAD_ARGS
  end.

(* byte strings arrive length-prefixed *)
Definition d_c08 (code : Z) (args : list Z) : list Z :=
  match code, args with
  | 801, n :: bs => if zlen bs =? n then run_ack bs else BAD_ARGS
  | 802, n :: bs => if zlen bs =? n then run_event bs else BAD_ARGS
  | 803, n :: bs => if zlen bs =? n then run_ack_with true bs else BAD_ARGS
  | _, _ => BAD_ARGS
  end.

Definition show_payload (p : payload) : list Z :=
  p_id p :: p_type p :: p_valid p :: p_timestamp p ::
  (match p_info p with
   | None => [0]
   | Some ii => [1; ii_width ii; ii_height ii; ii_xoff ii; ii_yoff ii; ii_pf ii; ii_image_size ii]
   end) ++
  (match view_image p with Ok None => [0] | Ok (Some d) => [1; zlen d] | Err e => [3; e] | Panic => [2] end) ++
  (match view_payload p with Ok d => [1; zlen d] | Err e => [3; e] | Panic => [2] end).

(* leader bytes, trailer bytes, payload buffer, received count *)
Definition run_build (lb tb buf : list Z) (rs : Z) : list Z :=
  match parse_leader lb, parse_trailer tb with
  | Ok l, Ok t => show_outcome show_payload (build l t buf rs)
  | _, _ => [1; 21]
  end.

Fixpoint split_lp (fuel : nat) (args : list Z) : list (list Z) :=
  match fuel, args with
  | S f, n :: r => firstn (Z.to_nat n) r :: split_lp f (skipn (Z.to_nat n) r)
  | _, _ => []
  end.

Definition d_c11 (code : Z) (args : list Z) : list Z :=
  match code, args with
  | 1101, n :: bs => if zlen bs =? n then run_leader bs else BAD_ARGS
  | 1102, n :: bs => if zlen bs =? n then run_trailer bs else BAD_ARGS
  | 1103, [c] => run_pixel c
  | 1105, [lo; hi] =>
    (* what a sweep of the codes lo <= c < hi must report: number of accepted codes, number that
       do not map back (none), first such (-1), checksum *)
    let hits := filter (fun cp => (lo <=? fst cp) && (fst cp <? hi)) code_to_pf in
    [0; zlen hits; 0; -1; fold_left (fun acc cp => acc + fst cp * 31 + snd cp) hits 0]
  | 1104, rs :: rest =>
    match split_lp 3 rest with
    | [lb; tb; buf] => run_build lb tb buf rs
    | _ => BAD_ARGS
    end
  | _, _ => BAD_ARGS
  end.

(* register histories: addr len endian base nnodes (kind sign lsb msb)* imglen image... then
   length-prefixed operations *)
Fixpoint take_nodes (k : nat) (l : list Z) : list nodecfg * list Z :=
  match k, l with
  | S k', kind :: sign :: lsb :: msb :: r =>
    let '(ns, rest) := take_nodes k' r in
    ({| n_kind := kind; n_sign := sign; n_lsb := lsb; n_msb := msb |} :: ns, rest)
  | _, _ => ([], l)
  end.

Fixpoint split_ops (fuel : nat) (l : list Z) : list (list Z) :=
  match fuel, l with
  | S f, k :: r => firstn (Z.to_nat k) r :: split_ops f (skipn (Z.to_nat k) r)
  | _, _ => []
  end.

Definition d_reg (code : Z) (args : list Z) : list Z :=
  match code, args with
  | 101, addr :: len :: endian :: base :: nn :: rest =>
    let '(nodes, r1) := take_nodes (Z.to_nat nn) rest in
    match r1 with
    | il :: r2 =>
      let image := firstn (Z.to_nat il) r2 in
      let ops := split_ops (length r2) (skipn (Z.to_nat il) r2) in
      run_history {| r_addr := addr; r_len := len; r_endian := endian |} nodes base image ops
    | _ => BAD_ARGS
    end
  (* pure BitMask functions: lsb msb sign reg / old v *)
  | 102, [l; m; sg; reg] => [bm_mask l m; bm_min l m sg; bm_max l m sg; bm_apply l m sg reg]
  | 103, [l; m; sg; old; v] => show_outcome (fun z => [z]) (bm_masked l m sg old v)
  | 104, [b] => [widen b]
  | 105, [b] => [narrow b]
  | _, _ => BAD_ARGS
  end.

Definition dispatch (code : Z) (args : list Z) : list Z :=
  if (1000 <? code) && (code <? 1100) then d_c10 code args
  else if (900 <? code) && (code <? 1000) then d_c09 code args
  else if (800 <? code) && (code <? 900) then d_c08 code args
  else if (1100 <? code) && (code <? 1200) then d_c11 code args
  else if (100 <? code) && (code <? 200) then d_reg code args
  else BAD_ARGS.
