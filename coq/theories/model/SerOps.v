(* Meaning of the write operations that tools/translate_serialize.py emits for the serializers of
   device/src/u3v/protocol/cmd.rs (gen/SerializeSrc.v), over the sinks of model/Cmd.v.

     W_le n v   `buf.write_bytes_le(v)?` with v of an n-byte integer type: ONE io::Write::write of the little-endian
                image (impl/src/bytes_io.rs); on a Vec<u8> and on a &mut [u8] `write` never returns Err, so `?`
                never leaves the function, and the returned count is dropped: a slice that is too short takes the
                bytes that fit ([write_le] of model/Cmd.v);
     W_all bs   `buf.write_all(bs)?`: error WriteZero when the sink could not take everything, and `?` leaves the
                serializer - and every serializer that called it with `?` - at once ([write_all] of model/Cmd.v).

   A serializer is straight-line code, calls of other serializers followed by `?`, and `for` loops over such code,
   so the flat list of its operations in program order, run until the first failing one, is what it does. *)
From Cam Require Export Outcome RustInt Bytes Cmd.

Inductive wop := W_le (n : nat) (v : Z) | W_all (bs : list Z).

(* the bytes an operation asks the sink to take *)
Definition wop_bytes (o : wop) : list Z :=
  match o with W_le n v => le_bytes n v | W_all bs => bs end.

Definition ops_bytes (l : list wop) : list Z := flat_map wop_bytes l.

(* running the operations against a sink *)
Fixpoint ops_run (l : list wop) (s : sink) : outcome unit * sink :=
  match l with
  | [] => (Ok tt, s)
  | W_le n v :: r => ops_run r (write_le n v s)
  | W_all bs :: r =>
    match write_all bs s with
    | (Ok _, s') => ops_run r s'
    | (e, s') => (e, s')
    end
  end.

(* `for x in l { acc = f(acc, x)?; }` and `l.iter().fold(init, |acc, x| ..)` with a body that can fail or panic *)
Fixpoint src_foldM {A S} (f : S -> A -> outcome S) (l : list A) (s : S) : outcome S :=
  match l with
  | [] => Ok s
  | x :: r => let? s' := f s x in src_foldM f r s'
  end.
