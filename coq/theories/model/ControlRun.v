(* Driver for the correspondence of model/Control.v: decodes the same token stream as
   rust/h_u3v (byte strings arrive length-prefixed) into a world and a list of operations,
   runs them on the model of the control handle and prints results, wire log and device writes
   in the harness's format. *)
From Cam Require Export Control.

Fixpoint pattern_from (k : nat) (i seed : Z) : list Z :=
  match k with
  | O => []
  | S k' => ((seed + 7 * i + i / 256) mod 256) :: pattern_from k' (i + 1) seed
  end.
Definition pattern (len seed : Z) : list Z := pattern_from (Z.to_nat len) 0 seed.

Definition take_bytes (l : list Z) : list Z * list Z :=
  match l with
  | n :: r => (firstn (Z.to_nat n) r, skipn (Z.to_nat n) r)
  | [] => ([], [])
  end.

Fixpoint parse_edits (k : nat) (l : list Z) : list edit * list Z :=
  match k with
  | O => ([], l)
  | S k' =>
    match l with
    | 0 :: o :: v :: r => let '(es, r') := parse_edits k' r in (ESet8 o v :: es, r')
    | 1 :: o :: v :: r => let '(es, r') := parse_edits k' r in (ESet16 o v :: es, r')
    | 2 :: n :: r => let '(es, r') := parse_edits k' r in (ETrunc n :: es, r')
    | 3 :: r => let '(b, r1) := take_bytes r in let '(es, r') := parse_edits k' r1 in (EExt b :: es, r')
    | 4 :: n :: r => let '(es, r') := parse_edits k' r in (EResize n :: es, r')
    | _ => ([], l)
    end
  end.

Fixpoint parse_replies (k : nat) (l : list Z) : list reply * list Z :=
  match k with
  | O => ([], l)
  | S k' =>
    match l with
    | 0 :: ms :: r => let '(rs, r') := parse_replies k' r in (RPending ms :: rs, r')
    | 1 :: ne :: r =>
      let '(es, r1) := parse_edits (Z.to_nat ne) r in
      let '(rs, r') := parse_replies k' r1 in (RConform es :: rs, r')
    | 2 :: r => let '(b, r1) := take_bytes r in let '(rs, r') := parse_replies k' r1 in (RRaw b :: rs, r')
    | 3 :: c :: r => let '(rs, r') := parse_replies k' r in (RRecvErr c :: rs, r')
    (* 4 ms: the device stays silent for ms real milliseconds (rust/shim Reply::Wait) - time is outside the model:
       a host that waits as long as the pending acknowledge announced meets the next reply *)
    | 4 :: _ :: r => parse_replies k' r
    | _ => ([], l)
    end
  end.

Definition world_init : world :=
  {| w_segs := []; w_plans := []; w_replies := []; w_cur_ack := []; w_cur_rid := 0; w_log := [];
     w_open_err := None; w_writes := [] |}.

Definition w_with (w : world) (segs : list (Z * list Z)) (plans : list txplan) (oe : option Z) : world :=
  {| w_segs := segs; w_plans := plans; w_replies := w_replies w; w_cur_ack := w_cur_ack w;
     w_cur_rid := w_cur_rid w; w_log := w_log w; w_open_err := oe; w_writes := w_writes w |}.

Fixpoint parse_world (fuel : nat) (l : list Z) (w : world) : world * list Z :=
  match fuel with
  | O => (w, l)
  | S f =>
    match l with
    | 1 :: base :: r =>
      let '(b, r1) := take_bytes r in
      parse_world f r1 (w_with w (w_segs w ++ [(base, b)]) (w_plans w) (w_open_err w))
    | 2 :: base :: len :: seed :: r =>
      parse_world f r (w_with w (w_segs w ++ [(base, pattern len seed)]) (w_plans w) (w_open_err w))
    | 4 :: addr :: width :: v :: r =>
      let segs := match seg_write (w_segs w) addr (le_bytes (Z.to_nat width) v) with
                  | Some s => s | None => w_segs w end in
      parse_world f r (w_with w segs (w_plans w) (w_open_err w))
    | 5 :: se :: n :: r =>
      let '(rs, r1) := parse_replies (Z.to_nat n) r in
      let p := {| tp_send_err := if se <? 0 then None else Some se; tp_replies := rs |} in
      parse_world f r1 (w_with w (w_segs w) (w_plans w ++ [p]) (w_open_err w))
    | 6 :: n :: r =>
      parse_world f r (w_with w (w_segs w) (w_plans w ++ repeat default_plan (Z.to_nat n)) (w_open_err w))
    | 7 :: c :: r => parse_world f r (w_with w (w_segs w) (w_plans w) (Some c))
    | 8 :: _ :: r => parse_world f r w
    | _ => (w, l)
    end
  end.

(* ---- printing --------------------------------------------------------------------------------- *)

Definition hash (bs : list Z) : Z := fold_left (fun h b => (h * 31 + b) mod 2 ^ 32) bs 0.

Definition show_data (d : list Z) : list Z :=
  zlen d :: (if zlen d <=? 64 then d else [hash d; hd 0 d; last d 0]).

Definition lpz (l : list Z) : list Z := zlen l :: l.

Definition sh_unit (x : outcome unit) : list Z :=
  match x with Ok _ => [1; 0] | Err e => [2; 1; e] | Panic => [1; 2] end.
Definition sh_data (x : outcome (list Z)) : list Z :=
  match x with Ok d => lpz (0 :: show_data d) | Err e => [2; 1; e] | Panic => [1; 2] end.
Definition sh_list (x : outcome (list Z)) : list Z :=
  match x with Ok d => lpz (0 :: d) | Err e => [2; 1; e] | Panic => [1; 2] end.

Definition is_panic_out {A} (x : outcome A) : bool := match x with Panic => true | _ => false end.

Definition set_retry (n : Z) : M unit :=
  upd_ctl (fun c => {| c_opened := c_opened c; c_next := c_next c; c_retry := n; c_max_cmd := c_max_cmd c;
                       c_max_ack := c_max_ack c; c_buflen := c_buflen c; c_abrm := c_abrm c;
                       c_sbrm := c_sbrm c; c_sirm := c_sirm c |}).

(* operations; a panic ends the run (the harness stops there too) *)
Fixpoint run_ops (fuel : nat) (l : list Z) (s : st) : list Z * st :=
  match fuel with
  | O => ([], s)
  | S f =>
    let step {A} (m : M A) (sh : outcome A -> list Z) (rest : list Z) :=
      let '(x, s') := m s in
      if is_panic_out x then (sh x, s')
      else let '(o, s'') := run_ops f rest s' in (sh x ++ o, s'') in
    match l with
    | 10 :: r => step ctl_open sh_unit r
    | 11 :: a :: n :: r => step (ctl_read a n) sh_data r
    | 12 :: a :: r => let '(b, r1) := take_bytes r in step (ctl_write a b) sh_unit r1
    | 19 :: a :: n :: seed :: r => step (ctl_write a (pattern n seed)) sh_unit r
    | 13 :: r => step ctl_enable_streaming sh_unit r
    | 14 :: r => step ctl_disable_streaming sh_unit r
    | 16 :: r => step ctl_close sh_unit r
    | 17 :: n :: r => step (set_retry n) sh_unit r
    | 18 :: r => step stream_params sh_list r
    | 20 :: a :: n :: r =>
      step (fun s => (match seg_read (w_segs (snd s)) a n with Some d => Ok d | None => Err 99 end, s)) sh_data r
    | _ => ([], s)
    end
  end.

Definition u16at (o : nat) (b : list Z) : Z := if (length b <? o + 2)%nat then -1 else le_at o 2 b.

Definition show_ev (e : wev) : list Z :=
  match e with
  | WSend b => [1; zlen b; u16at 6 b; u16at 10 b; u16at 8 b]
  | WSendFail => [1; 0; -1; -1; -1]
  | WRecv n => [2; n]
  | WRecvFail => [2; -1]
  | WOpen => [3]
  | WClose => [4]
  | WSetHalt => [5]
  | WClearHalt => [6]
  end.

Definition show_world (w : world) : list Z :=
  (-7) :: flat_map show_ev (rev (w_log w)) ++ (-8) :: zlen (w_writes w) ::
  flat_map (fun p => fst p :: show_data (snd p)) (rev (w_writes w)).

Definition run_ctl (toks : list Z) : list Z :=
  let '(w, ops) := parse_world (length toks) toks world_init in
  let '(o, s) := run_ops (length ops) ops (ctl_init, w) in
  o ++ show_world (snd s).
