(* Meaning of the Vec / slice / iterator operations that tools/translate_memprot.py emits for the hand-written part of
   impl/src/memory.rs (gen/MemProtSrc.v).  No proofs here.

   A `Vec<u8>` / `[u8]` is the list of its elements; a usize is its number.

     v_index l i              `l[i]` read (Index): the element, or a panic when i is not below l.len()
     v_index_mut l i          the bounds check of `&mut l[i]` (IndexMut): the checked index, or a panic.  The reference the
                              source binds is this index together with the container it was taken from (which the borrow
                              checker keeps untouched while the reference lives)
     v_load l i / v_store l i x    `*r` / `*r = x` through such a reference: element i of the CURRENT container
     v_repeat x n             `vec![x; n]` (allocation failure is not modelled)
     v_slice l lo hi          `&l[lo..hi]`: panics unless lo <= hi <= l.len() ([r_slice] of lib/RustInt.v)
     v_copy_from_slice l lo hi src   `l[lo..hi].copy_from_slice(src)`: the same index panic, then a panic when
                              src.len() != hi - lo, else l with the elements lo .. hi-1 replaced by src
     v_range lo hi            the items of the iterator `lo..hi` of usize
     o_fold f l acc           a loop over the items l of an iterator, front to back, threading a state through a body that
                              may leave with an error or a panic: `for x in l { .. }`, Iterator::fold, Iterator::for_each.
                              An `impl IntoIterator<Item = usize>` argument is the finite list of the items it yields. *)
From Cam Require Export Outcome RustInt Bytes.

Fixpoint v_set_nth (l : list Z) (n : nat) (x : Z) : list Z :=
  match l, n with
  | [], _ => []
  | _ :: r, O => x :: r
  | y :: r, S k => y :: v_set_nth r k x
  end.

Definition v_in (l : list Z) (i : Z) : bool := (0 <=? i) && (i <? zlen l).

Definition v_index (l : list Z) (i : Z) : outcome Z :=
  if v_in l i then match nth_error l (Z.to_nat i) with Some x => Ok x | None => Panic end else Panic.

Definition v_index_mut (l : list Z) (i : Z) : outcome Z := if v_in l i then Ok i else Panic.

Definition v_load (l : list Z) (i : Z) : outcome Z := v_index l i.

Definition v_store (l : list Z) (i x : Z) : outcome (list Z) :=
  if v_in l i then Ok (v_set_nth l (Z.to_nat i) x) else Panic.

Definition v_repeat (x n : Z) : list Z := repeat x (Z.to_nat n).

Definition v_slice (l : list Z) (lo hi : Z) : outcome (list Z) :=
  let? (a, b) := r_slice (zlen l) lo hi in Ok (take (b - a) (drop a l)).

Definition v_copy_from_slice (l : list Z) (lo hi : Z) (src : list Z) : outcome (list Z) :=
  let? (a, b) := r_slice (zlen l) lo hi in
  if zlen src =? b - a then Ok (take a l ++ src ++ drop b l) else Panic.

Definition v_range (lo hi : Z) : list Z := map (fun k => lo + Z.of_nat k) (seq 0 (Z.to_nat (hi - lo))).

Fixpoint o_fold {A B} (f : A -> B -> outcome A) (l : list B) (acc : A) : outcome A :=
  match l with
  | [] => Ok acc
  | x :: r => let? a := f acc x in o_fold f r a
  end.
