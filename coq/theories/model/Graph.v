(* Model of feature evaluation over a GenApi node graph (property C03):
   genapi/src/ivalue.rs (Imm / ValueId / NodeId / ImmOrPNode / ValueKind / PValue / PIndex),
   the node kinds integer.rs int_reg.rs masked_int_reg.rs boolean.rs command.rs enumeration.rs
   float.rs float_reg.rs string.rs string_reg.rs register.rs int_swiss_knife.rs swiss_knife.rs
   int_converter.rs converter.rs port.rs, register_base.rs + elem_type.rs (AddressKind, RegPIndex,
   address / length evaluation, read_and_cache / write_and_cache / with_cache_or_read with caching
   OFF), utils.rs (FormulaEnvCollector, VariableKind, expr_from_nid, set_eval_result,
   is_nid_readable) and the is_readable functions needed by Command::is_done.

   A node store is a list of nodes; a node is referred to by its position.  The value store is a
   list of tagged slots (ValueData::{Integer,Float,Str}).  The state is the value store and the
   recording device of lib/Mem.v.  The interpreter is written with OPEN recursion: [step call q]
   executes request [q] on a node and uses [call] for every request that the Rust code sends to
   ANOTHER node (through NodeId / as_i*_kind).  [run fuel] closes the recursion with explicit fuel;
   out of fuel is [Err E_FUEL], which nothing else produces.

   Floats are bit patterns; the primitive float operations are the [float_ops] record of
   model/Formula.v (Section variable; theorems hold for every such record, the correspondence
   instantiates it with Flocq binary64, model/FormulaFlocq.v).

   Not modelled: caching (stores are built with no_cache(); C04), pIsImplemented / pIsAvailable /
   pIsLocked (C18), Category / Node / DCAM nodes (no value interface: [NOther]), chunk ports
   beyond "read fails with ChunkDataMissing, write is todo!()", non-ASCII register contents of
   StringReg (reported as a marker), allocation failure for absurd register lengths. *)
From Cam Require Import Outcome Bytes Mem BitField RegCodec Formula.

Definition E_NO_NODE : Z := 91.       (* harness: no such node *)
Definition E_EXPR_CYCLE : Z := 97.    (* model only: <Expression>s refer to each other cyclically
                                         (the Rust evaluator would recurse without bound) *)
Definition E_ALLOC : Z := 96.         (* model only: register length > 2^20 (allocation abort in the code) *)
Definition E_FUEL : Z := 98.          (* model only: node references deeper than the fuel *)

Definition I64MIN : Z := - 2 ^ 63.
Definition I64MAX : Z := 2 ^ 63 - 1.
Definition F64_MIN_BITS : Z := 0xFFEFFFFFFFFFFFFF.   (* f64::MIN *)
Definition F64_MAX_BITS : Z := 0x7FEFFFFFFFFFFFFF.   (* f64::MAX *)

(* ---- syntax of a node store ------------------------------------------------------------- *)

Inductive vslot := VI (z : Z) | VF (b : Z) | VS (s : list Z).

(* ImmOrPNode<IntegerId> / <FloatId> / <StringId> *)
Inductive src := SImm (vid : nat) | SNode (n : nat).
(* ImmOrPNode<i64> / <f64> (an f64 immediate is its bit pattern) *)
Inductive isrc := IImm (z : Z) | INode (n : nat).

Inductive vkind :=
| VValue (vid : nat)
| VPValue (p : nat) (copies : list nat)
| VPIndex (idx : nat) (ents : list (Z * src)) (dflt : src).

Inductive addr :=
| AAddr (a : isrc)                          (* <Address> / <pAddress> *)
| AKnife (n : nat)                          (* embedded <IntSwissKnife> *)
| AIndex (off : option isrc) (idx : nat).   (* <pIndex Offset= | pOffset= > *)

(* access modes: 0 RO, 1 WO, 2 RW *)
Record regb := { rb_addrs : list addr; rb_len : isrc; rb_acc : Z; rb_port : nat }.

Record knife := {
  k_vars : list (ident * nat);        (* <pVariable Name=..> *)
  k_consts : list (ident * expr);     (* <Constant>: EInt for the Int* kinds, EFloat otherwise *)
  k_exprs : list (ident * expr)       (* <Expression> *)
}.

Record eentry := { ee_sym : ident; ee_val : Z; ee_num : option Z }.

Inductive body :=
| NInteger (v : vkind) (mn mx : src) (inc : isrc)
| NIntReg (r : regb) (sign endian : Z)
| NMaskedIntReg (r : regb) (lsb msb sign endian : Z)
| NBoolean (v : src) (on off : Z)
| NCommand (v cv : src)
| NEnumeration (ents : list eentry) (v : src)
| NFloat (v : vkind) (mn mx : src) (inc : option isrc)
| NFloatReg (r : regb) (endian : Z)
| NString (v : src)
| NStringReg (r : regb)
| NRegister (r : regb)
| NIntSwissKnife (k : knife) (f : expr)
| NSwissKnife (k : knife) (f : expr)
| NIntConverter (k : knife) (fto ffrom : expr) (p : nat)
| NConverter (k : knife) (fto ffrom : expr) (p : nat)
| NPort (chunk : bool)
| NOther.

(* nd_acc: ImposedAccessMode *)
Record node := { nd_acc : Z; nd_body : body }.

Record state := { s_vals : list vslot; s_dev : dev }.

(* ---- requests between nodes ------------------------------------------------------------- *)

Inductive req :=
| QIntValue (n : nat) | QIntSet (n : nat) (v : Z) | QIntMin (n : nat) | QIntMax (n : nat) | QIntInc (n : nat)
| QFltValue (n : nat) | QFltSet (n : nat) (b : Z) | QFltMin (n : nat) | QFltMax (n : nat) | QFltInc (n : nat)
| QBoolValue (n : nat) | QBoolSet (n : nat) (b : bool)
| QEnumValue (n : nat) | QEnumEntry (n : nat) | QEnumSet (n : nat) (v : Z)
| QStrValue (n : nat) | QStrSet (n : nat) (s : list Z) | QStrMaxLen (n : nat)
| QCmdExec (n : nat) | QCmdDone (n : nat)
| QRegRead (n : nat) (len : Z) | QRegWrite (n : nat) (bs : list Z) | QRegAddr (n : nat) | QRegLen (n : nat)
| QReadable (n : nat).

Definition req_node (q : req) : nat :=
  match q with
  | QIntValue n | QIntSet n _ | QIntMin n | QIntMax n | QIntInc n
  | QFltValue n | QFltSet n _ | QFltMin n | QFltMax n | QFltInc n
  | QBoolValue n | QBoolSet n _ | QEnumValue n | QEnumEntry n | QEnumSet n _
  | QStrValue n | QStrSet n _ | QStrMaxLen n | QCmdExec n | QCmdDone n
  | QRegRead n _ | QRegWrite n _ | QRegAddr n | QRegLen n | QReadable n => n
  end.

Inductive ans :=
| AUnit | AZ (z : Z) | AOZ (o : option Z) | AB (b : bool) | AL (l : list Z) | AE (k : nat).

(* ---- state + outcome monad -------------------------------------------------------------- *)

Definition M (A : Type) : Type := state -> outcome A * state.

Definition mret {A} (a : A) : M A := fun s => (Ok a, s).
Definition merr {A} (e : Z) : M A := fun s => (Err e, s).
Definition mpanic {A} : M A := fun s => (Panic, s).
Definition mlift {A} (x : outcome A) : M A := fun s => (x, s).
Definition mbind {A B} (m : M A) (k : A -> M B) : M B :=
  fun s => match m s with
           | (Ok a, s') => k a s'
           | (Err e, s') => (Err e, s')
           | (Panic, s') => (Panic, s')
           end.

Notation "'let!' x ':=' e 'in' k" := (mbind e (fun x => k))
  (at level 200, x pattern, e at level 100, k at level 200, right associativity).

Definition as_z (a : ans) : M Z := match a with AZ z => mret z | _ => mpanic end.
Definition as_oz (a : ans) : M (option Z) := match a with AOZ o => mret o | _ => mpanic end.
Definition as_b (a : ans) : M bool := match a with AB b => mret b | _ => mpanic end.
Definition as_l (a : ans) : M (list Z) := match a with AL l => mret l | _ => mpanic end.
Definition as_e (a : ans) : M nat := match a with AE k => mret k | _ => mpanic end.
Definition as_u (a : ans) : M unit := match a with AUnit => mret tt | _ => mpanic end.

Fixpoint mfold {A} (f : A -> M unit) (l : list A) : M unit :=
  match l with
  | [] => mret tt
  | x :: r => let! _ := f x in mfold f r
  end.

(* ---- value store ---------------------------------------------------------------------------- *)

Fixpoint set_nth {A} (n : nat) (x : A) (l : list A) : list A :=
  match l, n with
  | [], _ => []
  | _ :: r, O => x :: r
  | y :: r, S k => y :: set_nth k x r
  end.

Definition vid_set (vid : nat) (x : vslot) : M unit :=
  fun s => (Ok tt, {| s_vals := set_nth vid x (s_vals s); s_dev := s_dev s |}).

(* device access through the state *)
Definition m_dev_read (a n : Z) : M (list Z) :=
  fun s => let '(x, d) := dev_read (s_dev s) a n in (x, {| s_vals := s_vals s; s_dev := d |}).
Definition m_dev_write (a : Z) (bs : list Z) : M unit :=
  fun s => let '(x, d) := dev_write (s_dev s) a bs in (x, {| s_vals := s_vals s; s_dev := d |}).

(* VariableKind::from_str: s.splitn(3, '.') *)
Fixpoint split_dot (parts : nat) (cur : list Z) (s : list Z) : list (list Z) :=
  match s with
  | [] => [rev cur]
  | c :: r =>
    match parts with
    | S (S k) => if c =? 46 then rev cur :: split_dot (S k) [] r else split_dot parts (c :: cur) r
    | _ => split_dot parts (c :: cur) r
    end
  end.

Inductive varkind := VkValue | VkMin | VkMax | VkInc | VkEnum (name : list Z).

Definition S_VALUE : list Z := [86; 97; 108; 117; 101].
Definition S_MIN : list Z := [77; 105; 110].
Definition S_MAX : list Z := [77; 97; 120].
Definition S_INC : list Z := [73; 110; 99].
Definition S_ENUM : list Z := [69; 110; 117; 109].
Definition S_TO : list Z := [84; 79].
Definition S_FROM : list Z := [70; 82; 79; 77].

Definition ident_eq (a b : list Z) : bool := if list_eq_dec Z.eq_dec a b then true else false.

Definition var_kind (name : list Z) : outcome varkind :=
  match split_dot 3 [] name with
  | [_] => Ok VkValue
  | [_; k] =>
    if ident_eq k S_VALUE then Ok VkValue
    else if ident_eq k S_MIN then Ok VkMin
    else if ident_eq k S_MAX then Ok VkMax
    else if ident_eq k S_INC then Ok VkInc
    else Err Mem.E_INVALID_NODE
  | [_; k; e] => if ident_eq k S_ENUM then Ok (VkEnum e) else Err Mem.E_INVALID_NODE
  | _ => Err Mem.E_INVALID_NODE
  end.

(* position of the first entry with the value (entries are searched in declaration order) *)
Fixpoint find_val_from (k : nat) (l : list eentry) (v : Z) : option nat :=
  match l with
  | [] => None
  | e :: r => if ee_val e =? v then Some k else find_val_from (S k) r v
  end.

Section Interp.
  Variable fops : float_ops.
  Variable nodes : list node.

  Definition node_of (n : nat) : option node := nth_error nodes n.
  Definition body_of (n : nat) : body :=
    match nth_error nodes n with Some nd => nd_body nd | None => NOther end.
  Definition acc_of (n : nat) : Z :=
    match nth_error nodes n with Some nd => nd_acc nd | None => 2 end.

  (* `f as i64` (saturating, NaN -> 0) and `i as f64` *)
  Definition f2i (b : Z) : Z := clamp64 (f_trunc_z fops b).
  Definition i2f (z : Z) : Z := f_of_int fops z.

  (* interface kinds (interface.rs: I*Kind::maybe_from) *)
  Definition is_int (b : body) : bool :=
    match b with
    | NInteger _ _ _ _ | NIntReg _ _ _ | NMaskedIntReg _ _ _ _ _ | NIntConverter _ _ _ _
    | NIntSwissKnife _ _ => true
    | _ => false
    end.
  Definition is_flt (b : body) : bool :=
    match b with
    | NFloat _ _ _ _ | NFloatReg _ _ | NConverter _ _ _ _ | NSwissKnife _ _ => true
    | _ => false
    end.
  Definition is_bool (b : body) : bool := match b with NBoolean _ _ _ => true | _ => false end.
  Definition is_enum (b : body) : bool := match b with NEnumeration _ _ => true | _ => false end.
  Definition is_str (b : body) : bool := match b with NString _ | NStringReg _ => true | _ => false end.
  Definition is_cmd (b : body) : bool := match b with NCommand _ _ => true | _ => false end.
  Definition regb_of (b : body) : option regb :=
    match b with
    | NIntReg r _ _ | NMaskedIntReg r _ _ _ _ | NFloatReg r _ | NStringReg r | NRegister r => Some r
    | _ => None
    end.

  (* value-store slots: IValue<i64> / IValue<f64> / IValue<String> for the ids *)
  Definition vid_int (vid : nat) : M Z :=
    fun s => match nth_error (s_vals s) vid with
             | Some (VI z) => (Ok z, s)
             | Some (VF b) => (Ok (f2i b), s)
             | _ => (Panic, s)                              (* unwrap on None *)
             end.
  Definition vid_flt (vid : nat) : M Z :=
    fun s => match nth_error (s_vals s) vid with
             | Some (VI z) => (Ok (i2f z), s)
             | Some (VF b) => (Ok b, s)
             | _ => (Panic, s)
             end.
  Definition vid_str (vid : nat) : M (list Z) :=
    fun s => match nth_error (s_vals s) vid with
             | Some (VS x) => (Ok x, s)
             | _ => (Panic, s)
             end.

  Section Step.
    Variable call : req -> M ans.

    (* ---- NodeId as IValue<i64> / IValue<f64> (ivalue.rs) -------------------------------- *)
    Definition nid_get_i (n : nat) : M Z :=
      let b := body_of n in
      if is_int b then (let! a := call (QIntValue n) in as_z a)
      else if is_flt b then (let! a := call (QFltValue n) in let! x := as_z a in mret (f2i x))
      else if is_enum b then (let! a := call (QEnumValue n) in as_z a)
      else merr Mem.E_INVALID_NODE.

    Definition nid_set_i (n : nat) (v : Z) : M unit :=
      let b := body_of n in
      if is_int b then (let! a := call (QIntSet n v) in as_u a)
      else if is_flt b then (let! a := call (QFltSet n (i2f v)) in as_u a)
      else if is_enum b then (let! a := call (QEnumSet n v) in as_u a)
      else merr E_NOT_WRITABLE.

    Definition nid_get_f (n : nat) : M Z :=
      let b := body_of n in
      if is_int b then (let! a := call (QIntValue n) in let! x := as_z a in mret (i2f x))
      else if is_flt b then (let! a := call (QFltValue n) in as_z a)
      else if is_enum b then (let! a := call (QEnumValue n) in let! x := as_z a in mret (i2f x))
      else merr Mem.E_INVALID_NODE.

    Definition nid_set_f (n : nat) (x : Z) : M unit :=
      let b := body_of n in
      if is_int b then (let! a := call (QIntSet n (f2i x)) in as_u a)
      else if is_flt b then (let! a := call (QFltSet n x) in as_u a)
      else if is_enum b then (let! a := call (QEnumSet n (f2i x)) in as_u a)
      else merr E_NOT_WRITABLE.

    (* IValue::is_readable for NodeId (i64 and f64 instances coincide) *)
    Definition nid_readable (n : nat) : M bool :=
      let b := body_of n in
      if is_int b || is_flt b || is_enum b then (let! a := call (QReadable n) in as_b a)
      else mret false.

    (* utils::is_nid_readable *)
    Definition nid_readable_strict (n : nat) : M bool :=
      let b := body_of n in
      if is_int b || is_flt b || is_bool b || is_enum b then (let! a := call (QReadable n) in as_b a)
      else merr Mem.E_INVALID_NODE.

    (* ---- ImmOrPNode ------------------------------------------------------------------------ *)
    Definition src_get_i (x : src) : M Z :=
      match x with SImm vid => vid_int vid | SNode n => nid_get_i n end.
    Definition src_set_i (x : src) (v : Z) : M unit :=
      match x with SImm vid => vid_set vid (VI v) | SNode n => nid_set_i n v end.
    Definition src_get_f (x : src) : M Z :=
      match x with SImm vid => vid_flt vid | SNode n => nid_get_f n end.
    Definition src_set_f (x : src) (v : Z) : M unit :=
      match x with SImm vid => vid_set vid (VF v) | SNode n => nid_set_f n v end.
    Definition src_readable (x : src) : M bool :=
      match x with SImm _ => mret true | SNode n => nid_readable n end.
    Definition isrc_get_i (x : isrc) : M Z :=
      match x with IImm z => mret z | INode n => nid_get_i n end.
    Definition isrc_get_f (x : isrc) : M Z :=
      match x with IImm z => mret z | INode n => nid_get_f n end.

    (* ---- ValueKind / PValue / PIndex --------------------------------------------------------- *)
    (* PIndex::index: p_index.expect_iinteger_kind(store)?.value() *)
    Definition pindex_index (idx : nat) : M Z :=
      if is_int (body_of idx) then (let! a := call (QIntValue idx) in as_z a)
      else merr Mem.E_INVALID_NODE.

    Definition pindex_pick (i : Z) (ents : list (Z * src)) (dflt : src) : src :=
      match find (fun e => fst e =? i) ents with
      | Some e => snd e
      | None => dflt
      end.

    Definition vk_get_i (v : vkind) : M Z :=
      match v with
      | VValue vid => vid_int vid
      | VPValue p _ => nid_get_i p
      | VPIndex idx ents dflt => let! i := pindex_index idx in src_get_i (pindex_pick i ents dflt)
      end.
    Definition vk_set_i (v : vkind) (x : Z) : M unit :=
      match v with
      | VValue vid => vid_set vid (VI x)
      | VPValue p copies => let! _ := nid_set_i p x in mfold (fun c => nid_set_i c x) copies
      | VPIndex idx ents dflt => let! i := pindex_index idx in src_set_i (pindex_pick i ents dflt) x
      end.
    Definition vk_get_f (v : vkind) : M Z :=
      match v with
      | VValue vid => vid_flt vid
      | VPValue p _ => nid_get_f p
      | VPIndex idx ents dflt => let! i := pindex_index idx in src_get_f (pindex_pick i ents dflt)
      end.
    Definition vk_set_f (v : vkind) (x : Z) : M unit :=
      match v with
      | VValue vid => vid_set vid (VF x)
      | VPValue p copies => let! _ := nid_set_f p x in mfold (fun c => nid_set_f c x) copies
      | VPIndex idx ents dflt => let! i := pindex_index idx in src_set_f (pindex_pick i ents dflt) x
      end.
    Definition vk_readable (v : vkind) : M bool :=
      match v with
      | VValue _ => mret true
      | VPValue p _ => nid_readable p
      | VPIndex idx ents dflt =>
        if is_int (body_of idx) then
          let! a := call (QReadable idx) in let! r := as_b a in
          if r then (let! i := pindex_index idx in src_readable (pindex_pick i ents dflt))
          else mret false
        else merr Mem.E_INVALID_NODE
      end.

    (* ---- registers (register_base.rs, elem_type.rs, port.rs) -------------------------------- *)
    Definition reg_length (r : regb) : M Z := isrc_get_i (rb_len r).

    Definition addr_value (a : addr) : M Z :=
      match a with
      | AAddr x => isrc_get_i x
      | AKnife n => nid_get_i n
      | AIndex off idx =>
        let! base := nid_get_i idx in
        match off with
        | Some o => let! ov := isrc_get_i o in mlift (chk_s 64 (base * ov))   (* base * offset *)
        | None => mret base
        end
      end.

    (* `address += addr_kind.value()?` with overflow checks *)
    Fixpoint addr_sum (acc : Z) (l : list addr) : M Z :=
      match l with
      | [] => mret acc
      | a :: r => let! v := addr_value a in let! acc' := mlift (chk_s 64 (acc + v)) in addr_sum acc' r
      end.
    Definition reg_address (r : regb) : M Z := addr_sum 0 (rb_addrs r).

    Definition port_read (p : nat) (a n : Z) : M (list Z) :=
      match body_of p with
      | NPort false => m_dev_read a n
      | NPort true => merr E_CHUNK_MISSING
      | _ => merr Mem.E_INVALID_NODE
      end.
    Definition port_write (p : nat) (a : Z) (bs : list Z) : M unit :=
      match body_of p with
      | NPort false => m_dev_write a bs
      | NPort true => mpanic                                   (* todo!() *)
      | _ => merr Mem.E_INVALID_NODE
      end.

    (* read_and_cache (NoCache); [buflen] = buf.len(), compared with `length as usize` *)
    Definition read_and_cache (r : regb) (address length buflen : Z) : M (list Z) :=
      if negb (buflen =? length) then merr E_INVALID_BUFFER else port_read (rb_port r) address buflen.

    (* vec![0; length as usize]: a negative length is > isize::MAX as usize -> capacity overflow
       (panic).  An absurd positive length makes the allocation fail, which ABORTS the process; the
       model reports it as the model-only class E_ALLOC and the check keeps such histories out of
       the comparison (register lengths beyond 2^20 bytes are outside "well-formed"). *)
    Definition alloc_check (length : Z) : M unit :=
      if length <? 0 then mpanic else if 2 ^ 20 <? length then merr E_ALLOC else mret tt.

    (* with_cache_or_read: length, address, buffer, read *)
    Definition reg_fetch (r : regb) : M (list Z) :=
      let! length := reg_length r in
      let! address := reg_address r in
      let! _ := alloc_check length in
      read_and_cache r address length length.

    (* write_and_cache: length, buffer check, address, port write *)
    Definition reg_store (r : regb) (bs : list Z) : M unit :=
      let! length := reg_length r in
      if negb (zlen bs =? length) then merr E_INVALID_BUFFER else
      let! address := reg_address r in
      port_write (rb_port r) address bs.

    (* IRegister::read: address, length, read_and_cache *)
    Definition ireg_read (r : regb) (buflen : Z) : M (list Z) :=
      let! address := reg_address r in
      let! length := reg_length r in
      read_and_cache r address length buflen.

    Definition reg_readable (n : nat) (r : regb) : M bool :=
      mret ((negb (acc_of n =? 1)) && negb (rb_acc r =? 1)).

    (* IntReg *)
    Definition intreg_value (r : regb) (sign endian : Z) : M Z :=
      let! data := reg_fetch r in mlift (int_from_slice data endian sign).
    Definition intreg_set (r : regb) (sign endian v : Z) : M unit :=
      let! len := reg_length r in
      let! _ := alloc_check len in
      let! buf := mlift (bytes_from_int v len endian sign) in
      reg_store r buf.

    (* MaskedIntReg (bit arithmetic: model/BitField.v) *)
    Definition field_norm (len endian lsb msb : Z) : outcome (Z * Z) :=
      (* BitMask::lsb: `reg_byte_len * 8` on the usize image of the length (overflow check) *)
      if 18446744073709551616 <=? 8 * (len mod 18446744073709551616) then Panic else
      let? l := norm_bit len endian lsb in
      let? m := norm_bit len endian msb in
      if m <? l then Panic else Ok (l, m).
    Definition mreg_value (r : regb) (lsb msb sign endian : Z) : M Z :=
      let! data := reg_fetch r in
      let! reg := mlift (int_from_slice data endian sign) in
      let! len := reg_length r in
      mlift (let? (l, m) := field_norm len endian lsb msb in Ok (bm_apply l m sign reg)).
    Definition mreg_set (r : regb) (lsb msb sign endian v : Z) : M unit :=
      let! data := reg_fetch r in
      let! old := mlift (int_from_slice data endian sign) in
      let! len := reg_length r in
      let! nv := mlift (let? (l, m) := field_norm len endian lsb msb in bm_masked l m sign old v) in
      let! _ := alloc_check len in
      let! buf := mlift (bytes_from_int nv len endian sign) in
      reg_store r buf.
    Definition mreg_min (r : regb) (lsb msb sign endian : Z) : M Z :=
      let! len := reg_length r in
      mlift (let? (l, m) := field_norm len endian lsb msb in Ok (bm_min l m sign)).
    Definition mreg_max (r : regb) (lsb msb sign endian : Z) : M Z :=
      let! len := reg_length r in
      mlift (let? (l, m) := field_norm len endian lsb msb in Ok (bm_max l m sign)).

    (* FloatReg *)
    Definition fltreg_value (r : regb) (endian : Z) : M Z :=
      let! data := reg_fetch r in mlift (float_from_slice data endian).
    Definition fltreg_set (r : regb) (endian x : Z) : M unit :=
      let! len := reg_length r in
      let! _ := alloc_check len in
      let! buf := mlift (bytes_from_float x len endian) in
      reg_store r buf.

    (* StringReg (from_utf8_lossy is not modelled: a non-ASCII string is printed as a marker,
       see show_ans) *)
    Definition strreg_value (r : regb) : M (list Z) :=
      let! data := reg_fetch r in mret (until_nul data).
    Definition strreg_set (r : regb) (s : list Z) : M unit :=
      let! maxlen := reg_length r in
      if negb (is_ascii s) || has_nul s then merr Mem.E_INVALID_DATA
      else if (0 <=? maxlen) && (maxlen <? zlen s) then merr Mem.E_INVALID_DATA
      else
        let! _ := alloc_check maxlen in                      (* bytes.resize(max_length as usize) *)
        reg_store r (s ++ repeat 0 (Z.to_nat (maxlen - zlen s))).

    (* ---- formulas (utils.rs) ---------------------------------------------------------------- *)
    Definition find_entry_by_val (ents : list eentry) (v : Z) : option nat := find_val_from O ents v.
    Definition find_entry_by_sym (ents : list eentry) (s : list Z) : option eentry :=
      find (fun e => ident_eq (ee_sym e) s) ents.
    Definition entry_numeric (e : eentry) : Z :=
      match ee_num e with Some b => b | None => i2f (ee_val e) end.

    (* expr_from_nid *)
    Definition expr_from_nid (n : nat) : M expr :=
      let b := body_of n in
      if is_int b then (let! a := call (QIntValue n) in let! x := as_z a in mret (EInt x))
      else if is_flt b then (let! a := call (QFltValue n) in let! x := as_z a in mret (EFloat x))
      else if is_bool b then (let! a := call (QBoolValue n) in let! x := as_b a in mret (EInt (if x then 1 else 0)))
      else match b with
           | NEnumeration ents _ =>
             let! a := call (QEnumEntry n) in let! k := as_e a in
             match nth_error ents k with
             | Some e => mret (EFloat (entry_numeric e))
             | None => mpanic
             end
           | _ => merr Mem.E_INVALID_NODE
           end.

    (* VariableKind::get_value *)
    Definition var_value (k : varkind) (n : nat) : M expr :=
      let b := body_of n in
      match k with
      | VkValue => expr_from_nid n
      | VkMin =>
        if is_int b then (let! a := call (QIntMin n) in let! x := as_z a in mret (EInt x))
        else if is_flt b then (let! a := call (QFltMin n) in let! x := as_z a in mret (EFloat x))
        else merr Mem.E_INVALID_NODE
      | VkMax =>
        if is_int b then (let! a := call (QIntMax n) in let! x := as_z a in mret (EInt x))
        else if is_flt b then (let! a := call (QFltMax n) in let! x := as_z a in mret (EFloat x))
        else merr Mem.E_INVALID_NODE
      | VkInc =>
        if is_int b then
          (let! a := call (QIntInc n) in let! o := as_oz a in
           match o with Some x => mret (EInt x) | None => merr Mem.E_INVALID_NODE end)
        else if is_flt b then
          (let! a := call (QFltInc n) in let! o := as_oz a in
           match o with Some x => mret (EFloat x) | None => merr Mem.E_INVALID_NODE end)
        else merr Mem.E_INVALID_NODE
      | VkEnum name =>
        match b with
        | NEnumeration ents _ =>
          match find_entry_by_sym ents name with
          | Some e => mret (EInt (ee_val e))
          | None => merr Mem.E_INVALID_NODE
          end
        | _ => merr Mem.E_INVALID_NODE
        end
      end.

    (* the HashMap as an association list, newest binding first ([lookup] finds the newest) *)
    Fixpoint collect_vars (vars : list (ident * nat)) (env : list (ident * expr)) : M (list (ident * expr)) :=
      match vars with
      | [] => mret env
      | (name, n) :: r =>
        let! k := mlift (var_kind name) in
        let! e := var_value k n in
        collect_vars r ((name, e) :: env)
      end.

    Definition push_all (l env : list (ident * expr)) : list (ident * expr) := rev l ++ env.

    (* FormulaEnvCollector::collect after the optional TO / FROM insertion in [env0] *)
    Definition collect_env (k : knife) (env0 : list (ident * expr)) : M (list (ident * expr)) :=
      let! env1 := collect_vars (k_vars k) env0 in
      mret (push_all (k_exprs k) (push_all (k_consts k) env1)).

    Definition eval_formula (k : knife) (env : list (ident * expr)) (f : expr) : M res :=
      match eval fops true (S (length (k_exprs k))) env f with
      | Ok r => mret r
      | Err e => merr (if e =? Formula.E_FUEL then E_EXPR_CYCLE else e)
      | Panic => mpanic
      end.

    Definition knife_value (k : knife) (f : expr) : M res :=
      let! env := collect_env k [] in eval_formula k env f.

    Definition conv_value (k : knife) (ffrom : expr) (p : nat) : M res :=
      let! to := expr_from_nid p in
      let! env := collect_env k [(S_TO, to)] in
      eval_formula k env ffrom.

    (* utils::set_eval_result *)
    Definition set_eval_result (p : nat) (r : res) : M unit :=
      let b := body_of p in
      if is_int b then (let! a := call (QIntSet p (as_integer fops r)) in as_u a)
      else if is_flt b then (let! a := call (QFltSet p (as_float fops r)) in as_u a)
      else if is_bool b then (let! a := call (QBoolSet p (as_bool r)) in as_u a)
      else if is_enum b then (let! a := call (QEnumSet p (as_integer fops r)) in as_u a)
      else merr Mem.E_INVALID_NODE.

    Definition conv_set (k : knife) (fto : expr) (p : nat) (from : expr) : M unit :=
      let! env := collect_env k [(S_FROM, from)] in
      let! r := eval_formula k env fto in
      set_eval_result p r.

    (* FormulaEnvCollector::is_readable: res &= is_nid_readable(v)? over all variables *)
    Fixpoint vars_readable (vars : list (ident * nat)) (acc : bool) : M bool :=
      match vars with
      | [] => mret acc
      | (_, n) :: r => let! x := nid_readable_strict n in vars_readable r (acc && x)
      end.

    Definition elem_readable (n : nat) : bool := negb (acc_of n =? 1).

    (* ---- the node's own is_readable ------------------------------------------------------------ *)
    Definition node_readable (n : nat) : M bool :=
      match body_of n with
      | NInteger v _ _ _ | NFloat v _ _ _ => if elem_readable n then vk_readable v else mret false
      | NIntReg r _ _ | NMaskedIntReg r _ _ _ _ | NFloatReg r _ | NStringReg r => reg_readable n r
      | NBoolean v _ _ | NEnumeration _ v => if elem_readable n then src_readable v else mret false
      | NString v =>
        if elem_readable n then
          match v with
          | SImm _ => mret true
          | SNode m => if is_str (body_of m) then (let! a := call (QReadable m) in as_b a)
                       else merr Mem.E_INVALID_NODE
          end
        else mret false
      | NIntSwissKnife k _ | NSwissKnife k _ =>
        if elem_readable n then vars_readable (k_vars k) true else mret false
      | NIntConverter k _ _ p | NConverter k _ _ p =>
        if elem_readable n then
          let! a := nid_readable_strict p in
          if a then vars_readable (k_vars k) true else mret false
        else mret false
      | _ => merr E_NO_IFACE
      end.

    (* ---- one request ----------------------------------------------------------------------------- *)
    Definition step (q : req) : M ans :=
      match q with
      | QIntValue n =>
        match body_of n with
        | NInteger v _ _ _ => let! x := vk_get_i v in mret (AZ x)
        | NIntReg r sign endian => let! x := intreg_value r sign endian in mret (AZ x)
        | NMaskedIntReg r lsb msb sign endian => let! x := mreg_value r lsb msb sign endian in mret (AZ x)
        | NIntSwissKnife k f => let! r := knife_value k f in mret (AZ (as_integer fops r))
        | NIntConverter k _ ffrom p => let! r := conv_value k ffrom p in mret (AZ (as_integer fops r))
        | _ => merr E_NO_IFACE
        end
      | QIntSet n x =>
        match body_of n with
        | NInteger v _ _ _ => let! _ := vk_set_i v x in mret AUnit
        | NIntReg r sign endian => let! _ := intreg_set r sign endian x in mret AUnit
        | NMaskedIntReg r lsb msb sign endian => let! _ := mreg_set r lsb msb sign endian x in mret AUnit
        | NIntSwissKnife _ _ => merr E_NOT_WRITABLE
        | NIntConverter k fto _ p => let! _ := conv_set k fto p (EInt x) in mret AUnit
        | _ => merr E_NO_IFACE
        end
      | QIntMin n =>
        match body_of n with
        | NInteger _ mn _ _ => let! x := src_get_i mn in mret (AZ x)
        | NIntReg _ sign _ => mret (AZ (if sign =? 1 then I64MIN else 0))
        | NMaskedIntReg r lsb msb sign endian => let! x := mreg_min r lsb msb sign endian in mret (AZ x)
        | NIntSwissKnife k f => let! r := knife_value k f in mret (AZ (as_integer fops r))
        | NIntConverter _ _ _ _ => mret (AZ I64MIN)
        | _ => merr E_NO_IFACE
        end
      | QIntMax n =>
        match body_of n with
        | NInteger _ _ mx _ => let! x := src_get_i mx in mret (AZ x)
        | NIntReg _ _ _ => mret (AZ I64MAX)
        | NMaskedIntReg r lsb msb sign endian => let! x := mreg_max r lsb msb sign endian in mret (AZ x)
        | NIntSwissKnife k f => let! r := knife_value k f in mret (AZ (as_integer fops r))
        | NIntConverter _ _ _ _ => mret (AZ I64MAX)
        | _ => merr E_NO_IFACE
        end
      | QIntInc n =>
        match body_of n with
        | NInteger _ _ _ inc => let! x := isrc_get_i inc in mret (AOZ (Some x))
        | NIntReg _ _ _ | NMaskedIntReg _ _ _ _ _ | NIntSwissKnife _ _ | NIntConverter _ _ _ _ => mret (AOZ None)
        | _ => merr E_NO_IFACE
        end
      | QFltValue n =>
        match body_of n with
        | NFloat v _ _ _ => let! x := vk_get_f v in mret (AZ x)
        | NFloatReg r endian => let! x := fltreg_value r endian in mret (AZ x)
        | NSwissKnife k f => let! r := knife_value k f in mret (AZ (as_float fops r))
        | NConverter k _ ffrom p => let! r := conv_value k ffrom p in mret (AZ (as_float fops r))
        | _ => merr E_NO_IFACE
        end
      | QFltSet n x =>
        match body_of n with
        | NFloat v _ _ _ => let! _ := vk_set_f v x in mret AUnit
        | NFloatReg r endian => let! _ := fltreg_set r endian x in mret AUnit
        | NSwissKnife _ _ => merr E_NOT_WRITABLE
        | NConverter k fto _ p => let! _ := conv_set k fto p (EFloat x) in mret AUnit
        | _ => merr E_NO_IFACE
        end
      | QFltMin n =>
        match body_of n with
        | NFloat _ mn _ _ => let! x := src_get_f mn in mret (AZ x)
        | NFloatReg _ _ | NConverter _ _ _ _ => mret (AZ F64_MIN_BITS)
        | NSwissKnife k f => let! r := knife_value k f in mret (AZ (as_float fops r))
        | _ => merr E_NO_IFACE
        end
      | QFltMax n =>
        match body_of n with
        | NFloat _ _ mx _ => let! x := src_get_f mx in mret (AZ x)
        | NFloatReg _ _ | NConverter _ _ _ _ => mret (AZ F64_MAX_BITS)
        | NSwissKnife k f => let! r := knife_value k f in mret (AZ (as_float fops r))
        | _ => merr E_NO_IFACE
        end
      | QFltInc n =>
        match body_of n with
        | NFloat _ _ _ (Some inc) => let! x := isrc_get_f inc in mret (AOZ (Some x))
        | NFloat _ _ _ None | NFloatReg _ _ | NSwissKnife _ _ | NConverter _ _ _ _ => mret (AOZ None)
        | _ => merr E_NO_IFACE
        end
      | QBoolValue n =>
        match body_of n with
        | NBoolean v on off =>
          let! x := src_get_i v in
          if x =? on then mret (AB true)
          else if x =? off then mret (AB false)
          else merr Mem.E_INVALID_NODE
        | _ => merr E_NO_IFACE
        end
      | QBoolSet n b =>
        match body_of n with
        | NBoolean v on off => let! _ := src_set_i v (if b then on else off) in mret AUnit
        | _ => merr E_NO_IFACE
        end
      | QEnumValue n =>
        match body_of n with
        | NEnumeration _ v => let! x := src_get_i v in mret (AZ x)
        | _ => merr E_NO_IFACE
        end
      | QEnumEntry n =>
        match body_of n with
        | NEnumeration ents v =>
          let! x := src_get_i v in
          match find_entry_by_val ents x with
          | Some k => mret (AE k)
          | None => merr Mem.E_INVALID_NODE
          end
        | _ => merr E_NO_IFACE
        end
      | QEnumSet n x =>
        match body_of n with
        | NEnumeration ents v =>
          match find_entry_by_val ents x with
          | Some _ => let! _ := src_set_i v x in mret AUnit
          | None => merr Mem.E_INVALID_DATA
          end
        | _ => merr E_NO_IFACE
        end
      | QStrValue n =>
        match body_of n with
        | NString (SImm vid) => let! s := vid_str vid in mret (AL s)
        | NString (SNode m) =>
          if is_str (body_of m) then call (QStrValue m) else merr Mem.E_INVALID_NODE
        | NStringReg r => let! s := strreg_value r in mret (AL s)
        | _ => merr E_NO_IFACE
        end
      | QStrSet n s =>
        match body_of n with
        | NString (SImm vid) => let! _ := vid_set vid (VS s) in mret AUnit
        | NString (SNode m) =>
          if is_str (body_of m) then call (QStrSet m s) else merr Mem.E_INVALID_NODE
        | NStringReg r => let! _ := strreg_set r s in mret AUnit
        | _ => merr E_NO_IFACE
        end
      | QStrMaxLen n =>
        match body_of n with
        | NString (SImm _) => mret (AZ I64MAX)
        | NString (SNode m) =>
          if is_str (body_of m) then call (QStrMaxLen m) else merr Mem.E_INVALID_NODE
        | NStringReg r => let! x := reg_length r in mret (AZ x)
        | _ => merr E_NO_IFACE
        end
      | QCmdExec n =>
        match body_of n with
        | NCommand v cv => let! x := src_get_i cv in let! _ := src_set_i v x in mret AUnit
        | _ => merr E_NO_IFACE
        end
      | QCmdDone n =>
        match body_of n with
        | NCommand (SImm _) _ => mret (AB true)
        | NCommand (SNode m) cv =>
          let! rd := nid_readable m in
          if rd then
            let! c := src_get_i cv in
            let! x := nid_get_i m in
            mret (AB (negb (c =? x)))
          else mret (AB true)
        | _ => merr E_NO_IFACE
        end
      | QRegRead n len =>
        match regb_of (body_of n) with
        | Some r => let! bs := ireg_read r len in mret (AL bs)
        | None => merr E_NO_IFACE
        end
      | QRegWrite n bs =>
        match regb_of (body_of n) with
        | Some r => let! _ := reg_store r bs in mret AUnit
        | None => merr E_NO_IFACE
        end
      | QRegAddr n =>
        match regb_of (body_of n) with
        | Some r => let! a := reg_address r in mret (AZ a)
        | None => merr E_NO_IFACE
        end
      | QRegLen n =>
        match regb_of (body_of n) with
        | Some r => let! a := reg_length r in mret (AZ a)
        | None => merr E_NO_IFACE
        end
      | QReadable n => let! b := node_readable n in mret (AB b)
      end.
  End Step.

  Fixpoint run (fuel : nat) (q : req) : M ans :=
    match fuel with
    | O => merr E_FUEL
    | S f => step (run f) q
    end.

  (* ---- operation histories (harness format) --------------------------------------------------- *)
  Inductive op := OReq (q : req) | OReject (k : Z).

  Definition is_flt_req (q : req) : bool :=
    match q with QFltValue _ | QFltMin _ | QFltMax _ | QFltInc _ => true | _ => false end.

  Definition show_ans (q : req) (a : ans) : list Z :=
    match q, a with
    | _, AUnit => [0]
    | _, AZ z => [0; if is_flt_req q then canon_nan z else z]
    | _, AOZ None => [0; 0]
    | _, AOZ (Some z) => [0; 1; if is_flt_req q then canon_nan z else z]
    | _, AB b => [0; if b then 1 else 0]
    | QRegRead _ _, AL l => 0 :: l
    | _, AL l => if is_ascii l then 0 :: zlen l :: l else [0; -1]
    | QEnumEntry n, AE k =>
      match body_of n with
      | NEnumeration ents _ =>
        match nth_error ents k with
        | Some e => 0 :: ee_val e :: zlen (ee_sym e) :: ee_sym e
        | None => [2]
        end
      | _ => [2]
      end
    | _, AE _ => [2]
    end.

  Definition run_top (fuel : nat) (o : op) (s : state) : list Z * state :=
    match o with
    | OReject k => (lpz [0], {| s_vals := s_vals s; s_dev := dev_reject (s_dev s) k |})
    | OReq q =>
      match node_of (req_node q) with
      | None => (lpz [1; E_NO_NODE], s)
      | Some _ =>
        match run fuel q s with
        | (Ok a, s') => (lpz (show_ans q a), s')
        | (Err e, s') => (lpz [1; e], s')
        | (Panic, s') => (lpz [2], s')
        end
      end
    end.

  Fixpoint run_tops (fuel : nat) (ops : list op) (s : state) : list Z * state :=
    match ops with
    | [] => ([], s)
    | o :: rest =>
      let '(r, s1) := run_top fuel o s in
      let '(rs, s2) := run_tops fuel rest s1 in
      (r ++ rs, s2)
    end.

  Definition run_graph (vals : list vslot) (base : Z) (image : list Z) (ops : list op) : list Z :=
    let '(o, s) := run_tops (S (S (length nodes))) ops {| s_vals := vals; s_dev := mk_dev base image |} in
    o ++ show_dev (s_dev s).
End Interp.

(* ---- the reference relation of a node store (used by the statements of C03) ---------------------- *)
Definition refs_src (x : src) : list nat := match x with SNode n => [n] | SImm _ => [] end.
Definition refs_isrc (x : isrc) : list nat := match x with INode n => [n] | IImm _ => [] end.
Definition refs_vk (v : vkind) : list nat :=
  match v with
  | VValue _ => []
  | VPValue p cs => p :: cs
  | VPIndex i ents d => i :: flat_map (fun e => refs_src (snd e)) ents ++ refs_src d
  end.
Definition refs_addr (a : addr) : list nat :=
  match a with
  | AAddr x => refs_isrc x
  | AKnife n => [n]
  | AIndex off i => i :: match off with Some o => refs_isrc o | None => [] end
  end.
Definition refs_regb (r : regb) : list nat := flat_map refs_addr (rb_addrs r) ++ refs_isrc (rb_len r).
Definition refs_knife (k : knife) : list nat := map snd (k_vars k).
(* the nodes to which evaluating a node can send a request (the port is accessed directly) *)
Definition refs_body (b : body) : list nat :=
  match b with
  | NInteger v mn mx inc => refs_vk v ++ refs_src mn ++ refs_src mx ++ refs_isrc inc
  | NFloat v mn mx inc =>
    refs_vk v ++ refs_src mn ++ refs_src mx ++ match inc with Some i => refs_isrc i | None => [] end
  | NIntReg r _ _ | NMaskedIntReg r _ _ _ _ | NFloatReg r _ | NStringReg r | NRegister r => refs_regb r
  | NBoolean v _ _ | NEnumeration _ v | NString v => refs_src v
  | NCommand v cv => refs_src v ++ refs_src cv
  | NIntSwissKnife k _ | NSwissKnife k _ => refs_knife k
  | NIntConverter k _ _ p | NConverter k _ _ p => p :: refs_knife k
  | NPort _ | NOther => []
  end.

(* acyclic: a rank function that decreases along every reference *)
Definition ranked (nodes : list node) (rk : nat -> nat) : Prop :=
  forall n nd, nth_error nodes n = Some nd ->
               Forall (fun m => (rk m < rk n)%nat) (refs_body (nd_body nd)).
