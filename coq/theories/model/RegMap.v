(* Model of cameleon/src/u3v/register_map.rs (after the "fix:" commits 54740da, 814d26f, 85342f7,
   fff5796, 29d7437): the accessors of Abrm / Sbrm / Sirm / ManifestTable / ManifestEntry over a
   recording in-memory DeviceControl, the ParseBytes / DumpBytes codecs, the capability gates and
   the setters.  The (offset, length) register tables come from gen/RegTables.v, regenerated from
   device/src/u3v/register_map.rs on every run.

   Each getter of the Rust code is `self.read_register(device, <map>::<REG>)` (optionally under a
   capability test and `.map(Some)`), i.e. a triple (register map, table entry, ParseBytes
   instance): [getter_desc].  read_register = address computation (checked add of the base;
   Abrm adds no base), one device read of the table length, parse_bytes.

   Definitions with suffix _v0 describe the pinned code before the repairs and are used by the
   *_refuted lemmas only. *)
From Cam Require Export Outcome Bytes Mem U3VTables RegTables.

Notation U64 := 18446744073709551616 (only parsing).

(* ---- the recording device -------------------------------------------------------------------- *)
(* memory: a total function from addresses to bytes; the device logs every access (newest first),
   fails the access with index [rd_fail] and any access whose range leaves the address space. *)

Definition mem := Z -> Z.

Record rdev := { rd_mem : mem; rd_log : list access; rd_count : Z; rd_fail : Z }.

Definition mread (m : mem) (a : Z) (n : nat) : list Z := map (fun i => m (a + Z.of_nat i)) (seq 0 n).

Definition mwrite (m : mem) (a : Z) (bs : list Z) : mem :=
  fun x => if (a <=? x) && (x <? a + zlen bs) then nth (Z.to_nat (x - a)) bs 0 else m x.

Definition rdev_check (d : rdev) (a n : Z) : outcome unit :=
  if rd_count d =? rd_fail d then Err CE_IO
  else if U64 <? a + n then Err CE_IO
  else Ok tt.

Definition rdev_read (d : rdev) (a n : Z) : outcome (list Z) * rdev :=
  let d' := {| rd_mem := rd_mem d; rd_log := RdAcc a n :: rd_log d; rd_count := rd_count d + 1;
               rd_fail := rd_fail d |} in
  match rdev_check d a n with
  | Ok _ => (Ok (mread (rd_mem d) a (Z.to_nat n)), d')
  | Err e => (Err e, d')
  | Panic => (Panic, d')
  end.

Definition rdev_write (d : rdev) (a : Z) (bs : list Z) : outcome unit * rdev :=
  match rdev_check d a (zlen bs) with
  | Ok _ => (Ok tt, {| rd_mem := mwrite (rd_mem d) a bs; rd_log := WrAcc a bs :: rd_log d;
                       rd_count := rd_count d + 1; rd_fail := rd_fail d |})
  | Err e => (Err e, {| rd_mem := rd_mem d; rd_log := WrAcc a bs :: rd_log d;
                        rd_count := rd_count d + 1; rd_fail := rd_fail d |})
  | Panic => (Panic, d)
  end.

(* ---- ParseBytes ------------------------------------------------------------------------------ *)

(* impl_parse_bytes_for_numeric: bytes.try_into().unwrap() panics unless the slice has the
   size of the type; from_le_bytes *)
Definition parse_uint (size : Z) (bs : list Z) : outcome Z :=
  if zlen bs =? size then Ok (of_le bs) else Panic.

Inductive dec :=
| DVer32 | DFileVer | DStr | DU32 | DU64 | DDurMs | DSpeed | DAlign | DBool0 | DFileInfo | DSha1.

(* match raw { 0 => Ok(A), 1 => Ok(B), _ => Err(InvalidDevice) } *)
Definition enum2 (raw : Z) : outcome Z :=
  if raw =? 0 then Ok 0 else if raw =? 1 then Ok 1 else Err CE_INVALID_DEVICE.

Definition decode (k : dec) (bs : list Z) : outcome val :=
  match k with
  | DVer32 =>      (* Abrm::gencp_version, Sbrm::u3v_version *)
    let? w := parse_uint 4 bs in
    let minor := Z.land w 0xffff in
    let major := Z.land (Z.shiftr w 16) 0xffff in
    Ok (VVer major minor 0)
  | DFileVer =>    (* ManifestEntry::genicam_file_version *)
    let? w := parse_uint 4 bs in
    let subminor := Z.land w 0xffff in
    let minor := Z.land (Z.shiftr w 16) 0xff in
    let major := Z.land (Z.shiftr w 24) 0xff in
    Ok (VVer major minor subminor)
  | DStr =>        (* ParseBytes for String: up to the first NUL, must be UTF-8 *)
    let s := until_nul bs in
    if utf8_valid s then Ok (VStr s) else Err CE_INVALID_DEVICE
  | DU32 => let? w := parse_uint 4 bs in Ok (VInt w)
  | DU64 => let? w := parse_uint 8 bs in Ok (VInt w)
  | DDurMs => let? w := parse_uint 4 bs in Ok (VInt w)          (* Duration::from_millis *)
  | DSpeed =>      (* ParseBytes for BusSpeed *)
    let? w := parse_uint 4 bs in
    (* match raw { 0b1 => LowSpeed, 0b10 => FullSpeed, 0b100 => HighSpeed, 0b1000 => SuperSpeed,
                   0b10000 => SuperSpeedPlus, other => Err(InvalidDevice) } *)
    if w =? 1 then Ok (VSpeed 0) else if w =? 2 then Ok (VSpeed 1) else if w =? 4 then Ok (VSpeed 2)
    else if w =? 8 then Ok (VSpeed 3) else if w =? 16 then Ok (VSpeed 4) else Err CE_INVALID_DEVICE
  | DAlign =>      (* Sirm::payload_size_alignment *)
    let? w := parse_uint 4 bs in
    let exp := Z.shiftr w 24 in
    if 32 <=? exp then Err CE_INVALID_DEVICE else Ok (VInt (Z.shiftl 1 exp))
  | DBool0 =>      (* Sirm::is_stream_enable: (si_ctrl & 1) == 1 *)
    let? w := parse_uint 4 bs in Ok (VBool (Z.land w 1 =? 1))
  | DFileInfo =>   (* GenICamFileInfo(u32): file_type, compression_type, schema_version *)
    let? w := parse_uint 4 bs in
    Ok (VFileInfo (enum2 (Z.land w 7)) (enum2 (Z.land (Z.shiftr w 10) 63))
                  (Z.land (Z.shiftr w 24) 0xff) (Z.land (Z.shiftr w 16) 0xff))
  | DSha1 =>       (* ManifestEntry::sha1_hash *)
    if forallb (fun b => b =? 0) bs then Ok (VHash None) else Ok (VHash (Some bs))
  end.

(* the pinned code: all version fields masked with 0xff; 1 << exp overflowing for exp >= 64 *)
Definition decode_ver32_v0 (bs : list Z) : outcome val :=
  let? w := parse_uint 4 bs in Ok (VVer (Z.land (Z.shiftr w 16) 0xff) (Z.land w 0xff) 0).
Definition decode_filever_v0 (bs : list Z) : outcome val :=
  let? w := parse_uint 4 bs in
  Ok (VVer (Z.land (Z.shiftr w 24) 0xff) (Z.land (Z.shiftr w 16) 0xff) (Z.land w 0xff)).
Definition decode_align_v0 (bs : list Z) : outcome val :=
  let? w := parse_uint 4 bs in
  let exp := Z.shiftr w 24 in
  if 64 <=? exp then Panic else Ok (VInt (Z.shiftl 1 exp)).

(* is_bit_set!(val, bit) *)
Definition bit_set (w k : Z) : bool := Z.land (Z.shiftr w k) 1 =? 1.

(* DeviceConfiguration(u64) *)
Definition cfg_is_multi_event_enabled (w : Z) : bool := bit_set w 1.
Definition cfg_set_multi_event_enable_bit (w : Z) : Z := Z.lor w (Z.shiftl 1 1).
Definition cfg_disable_multi_event (w : Z) : Z := Z.land w (U64 - 1 - Z.shiftl 1 1).   (* & !(1 << 1) in u64 *)

(* ---- accessor descriptions -------------------------------------------------------------------- *)

Record gdesc := { g_map : regmap; g_reg : Z * Z; g_dec : dec; g_gate : option Z }.

Definition getter_desc (g : getter) : gdesc :=
  let mk := Build_gdesc in
  match g with
  | GGencpVersion => mk ABRM abrm_GENCP_VERSION DVer32 None
  | GManufacturerName => mk ABRM abrm_MANUFACTURER_NAME DStr None
  | GModelName => mk ABRM abrm_MODEL_NAME DStr None
  | GFamilyName => mk ABRM abrm_FAMILY_NAME DStr (Some 8)
  | GDeviceVersion => mk ABRM abrm_DEVICE_VERSION DStr None
  | GManufacturerInfo => mk ABRM abrm_MANUFACTURER_INFO DStr None
  | GSerialNumber => mk ABRM abrm_SERIAL_NUMBER DStr None
  | GUserDefinedName => mk ABRM abrm_USER_DEFINED_NAME DStr (Some 0)
  | GManifestTableAddress => mk ABRM abrm_MANIFEST_TABLE_ADDRESS DU64 None
  | GSbrmAddress => mk ABRM abrm_SBRM_ADDRESS DU64 None
  | GTimestamp => mk ABRM abrm_TIMESTAMP DU64 None
  | GTimestampIncrement => mk ABRM abrm_TIMESTAMP_INCREMENT DU64 None
  | GDeviceSoftwareInterfaceVersion => mk ABRM abrm_DEVICE_SOFTWARE_INTERFACE_VERSION DStr (Some 14)
  | GMaximumDeviceResponseTime => mk ABRM abrm_MAXIMUM_DEVICE_RESPONSE_TIME DDurMs None
  | GDeviceConfiguration => mk ABRM abrm_DEVICE_CONFIGURATION DU64 None
  | GU3vVersion => mk SBRM sbrm_U3V_VERSION DVer32 None
  | GMaximumCommandTransferLength => mk SBRM sbrm_MAXIMUM_COMMAND_TRANSFER_LENGTH DU32 None
  | GMaximumAcknowledgeTransferLength => mk SBRM sbrm_MAXIMUM_ACKNOWLEDGE_TRANSFER_LENGTH DU32 None
  | GNumberOfStreamChannel => mk SBRM sbrm_NUMBER_OF_STREAM_CHANNELS DU32 None
  | GSirmAddress => mk SBRM sbrm_SIRM_ADDRESS DU64 (Some 0)
  | GSirmLength => mk SBRM sbrm_SIRM_LENGTH DU32 (Some 0)
  | GEirmAddress => mk SBRM sbrm_EIRM_ADDRESS DU64 (Some 1)
  | GEirmLength => mk SBRM sbrm_EIRM_LENGTH DU32 (Some 1)
  | GIidc2Address => mk SBRM sbrm_IIDC2_ADDRESS DU64 (Some 2)
  | GCurrentSpeed => mk SBRM sbrm_CURRENT_SPEED DSpeed None
  | GPayloadSizeAlignment => mk SIRM sirm_SI_INFO DAlign None
  | GIsStreamEnable => mk SIRM sirm_SI_CONTROL DBool0 None
  | GRequiredPayloadSize => mk SIRM sirm_REQUIRED_PAYLOAD_SIZE DU64 None
  | GRequiredLeaderSize => mk SIRM sirm_REQUIRED_LEADER_SIZE DU32 None
  | GRequiredTrailerSize => mk SIRM sirm_REQUIRED_TRAILER_SIZE DU32 None
  | GMaximumLeaderSize => mk SIRM sirm_MAXIMUM_LEADER_SIZE DU32 None
  | GMaximumTrailerSize => mk SIRM sirm_MAXIMUM_TRAILER_SIZE DU32 None
  | GPayloadTransferSize => mk SIRM sirm_PAYLOAD_TRANSFER_SIZE DU32 None
  | GPayloadTransferCount => mk SIRM sirm_PAYLOAD_TRANSFER_COUNT DU32 None
  | GPayloadFinalTransfer1Size => mk SIRM sirm_PAYLOAD_FINAL_TRANSFER1_SIZE DU32 None
  | GPayloadFinalTransfer2Size => mk SIRM sirm_PAYLOAD_FINAL_TRANSFER2_SIZE DU32 None
  | GEntryCount => mk MTAB (0, 8) DU64 None                          (* ManifestTable::entries: (0, 8) *)
  | GGenicamFileVersion => mk MENT manifest_entry_GENICAM_FILE_VERSION DFileVer None
  | GFileAddress => mk MENT manifest_entry_REGISTER_ADDRESS DU64 None
  | GFileSize => mk MENT manifest_entry_FILE_SIZE DU64 None
  | GFileInfo => mk MENT manifest_entry_FILE_FORMAT_INFO DFileInfo None
  | GSha1Hash => mk MENT (fst manifest_entry_SHA1_HASH, 20) DSha1 None   (* [u8; 20] buffer *)
  end.

(* the struct an accessor is called on: base address (unused by Abrm) and the capability word
   read by the constructor (Abrm: device capability, Sbrm: U3V capability) *)
Record ctx := { c_base : Z; c_cap : Z }.

(* register_address(base, offset): checked_add; Abrm uses the table offset as the address *)
Definition reg_address (m : regmap) (base off : Z) : outcome Z :=
  match m with
  | ABRM => Ok off
  | _ => if base + off <? U64 then Ok (base + off) else Err CE_INVALID_DEVICE
  end.

(* pinned code: `offset + base` with overflow checks *)
Definition reg_address_v0 (m : regmap) (base off : Z) : outcome Z :=
  match m with
  | ABRM => Ok off
  | _ => if base + off <? U64 then Ok (base + off) else Panic
  end.

(* read_register(device, addr, len) + T::parse_bytes *)
Definition read_decode (m : regmap) (reg : Z * Z) (k : dec) (c : ctx) (d : rdev) : outcome val * rdev :=
  match reg_address m (c_base c) (fst reg) with
  | Ok addr =>
    let '(r, d') := rdev_read d addr (snd reg) in
    (match r with Ok bs => decode k bs | Err e => Err e | Panic => Panic end, d')
  | Err e => (Err e, d)
  | Panic => (Panic, d)
  end.

Definition run_get (g : getter) (c : ctx) (d : rdev) : outcome val * rdev :=
  let ds := getter_desc g in
  match g_gate ds with
  | None => read_decode (g_map ds) (g_reg ds) (g_dec ds) c d
  | Some b =>
    if bit_set (c_cap c) b then
      let '(r, d') := read_decode (g_map ds) (g_reg ds) (g_dec ds) c d in (omap VSome r, d')
    else (Ok VNone, d)
  end.

(* ---- constructors and derived accessors ------------------------------------------------------ *)

Definition val_int (v : val) : Z := match v with VInt z => z | _ => 0 end.

Definition bind2 {A B} (x : outcome A * rdev) (f : A -> rdev -> outcome B * rdev) : outcome B * rdev :=
  match x with
  | (Ok a, d) => f a d
  | (Err e, d) => (Err e, d)
  | (Panic, d) => (Panic, d)
  end.

(* Abrm::new: reads DEVICE_CAPABILITY *)
Definition abrm_new (d : rdev) : outcome ctx * rdev :=
  bind2 (read_decode ABRM abrm_DEVICE_CAPABILITY DU64 {| c_base := 0; c_cap := 0 |} d)
        (fun v d => (Ok {| c_base := 0; c_cap := val_int v |}, d)).

(* Sbrm::new(device, sbrm_addr): reads U3VCP_CAPABILITY_REGISTER *)
Definition sbrm_new (base : Z) (d : rdev) : outcome ctx * rdev :=
  bind2 (read_decode SBRM sbrm_U3VCP_CAPABILITY_REGISTER DU64 {| c_base := base; c_cap := 0 |} d)
        (fun v d => (Ok {| c_base := base; c_cap := val_int v |}, d)).

Definition plain_ctx (base : Z) : ctx := {| c_base := base; c_cap := 0 |}.   (* Sirm / ManifestTable / ManifestEntry ::new *)

(* Abrm::sbrm *)
Definition abrm_sbrm (c : ctx) (d : rdev) : outcome ctx * rdev :=
  bind2 (run_get GSbrmAddress c d) (fun v d => sbrm_new (val_int v) d).

(* Abrm::manifest_table *)
Definition abrm_manifest_table (c : ctx) (d : rdev) : outcome ctx * rdev :=
  bind2 (run_get GManifestTableAddress c d) (fun v d => (Ok (plain_ctx (val_int v)), d)).

(* Sbrm::sirm *)
Definition sbrm_sirm (c : ctx) (d : rdev) : outcome (option ctx) * rdev :=
  bind2 (run_get GSirmAddress c d)
        (fun v d => (Ok (match v with VSome a => Some (plain_ctx (val_int a)) | _ => None end), d)).

(* DeviceCapability / U3VCapablitiy observers *)
Definition device_capability_bits (c : ctx) : list bool :=
  [bit_set (c_cap c) 0; bit_set (c_cap c) 8; bit_set (c_cap c) 12; bit_set (c_cap c) 13; bit_set (c_cap c) 14].
Definition u3v_capability_bits (c : ctx) : list bool :=
  [bit_set (c_cap c) 0; bit_set (c_cap c) 1; bit_set (c_cap c) 2].

(* ManifestTable::entries: entry count, address of the first entry; the iterator yields
   ManifestEntry::new(first + i * 64) for i < count, which cannot overflow after the up-front check *)
Definition entries (c : ctx) (d : rdev) : outcome (Z * Z) * rdev :=
  bind2 (run_get GEntryCount c d) (fun v d =>
    let n := val_int v in
    match reg_address MTAB (c_base c) 8 with
    | Ok first =>
      if (1 <=? n) && negb (((n - 1) * 64 <? U64) && (first + (n - 1) * 64 <? U64))
      then (Err CE_INVALID_DEVICE, d) else (Ok (n, first), d)
    | Err e => (Err e, d)
    | Panic => (Panic, d)
    end).

Definition entry_ctx (first i : Z) : ctx := plain_ctx (first + i * 64).

(* pinned code: unchecked `manifest_address + 8`, and `first + i * 64` evaluated by the iterator *)
Definition entry_addr_v0 (first i : Z) : outcome Z :=
  if (i * 64 <? U64) && (first + i * 64 <? U64) then Ok (first + i * 64) else Panic.

(* ---- DumpBytes and setters --------------------------------------------------------------------- *)

(* impl_dump_bytes_for_numeric: debug_assert_eq!(data.len(), buf.len()); copy_from_slice *)
Definition dump_uint (size : nat) (v : Z) (len : Z) : outcome (list Z) :=
  if len =? Z.of_nat size then Ok (le_bytes size v) else Panic.

(* DumpBytes for &str into vec![0; len].  v0 = pinned code, which accepts embedded NUL *)
Definition dump_str_with (v0 : bool) (s : list Z) (len : Z) : outcome (list Z) :=
  if negb (is_ascii s) || (negb v0 && has_nul s) then Err CE_INVALID_DATA
  else if len <? zlen s then Err CE_INVALID_DATA
  else Ok (s ++ repeat 0 (Z.to_nat (len - zlen s))).
Definition dump_str := dump_str_with false.

(* write_register: address, vec![0; len], dump_bytes, device.write *)
Definition write_register (m : regmap) (reg : Z * Z) (dump : Z -> outcome (list Z)) (c : ctx) (d : rdev)
  : outcome unit * rdev :=
  match reg_address m (c_base c) (fst reg) with
  | Ok addr =>
    match dump (snd reg) with
    | Ok bs => rdev_write d addr bs
    | Err e => (Err e, d)
    | Panic => (Panic, d)
    end
  | Err e => (Err e, d)
  | Panic => (Panic, d)
  end.

Definition run_set_with (v0 : bool) (s : setter) (c : ctx) (d : rdev) : outcome unit * rdev :=
  match s with
  | SUserDefinedName n =>
    if negb (bit_set (c_cap c) 0) then (Ok tt, d)
    else write_register ABRM abrm_USER_DEFINED_NAME (dump_str_with v0 n) c d
  | STimestampLatch => write_register ABRM abrm_TIMESTAMP_LATCH (dump_uint 4 1) c d
  | SDeviceConfiguration raw => write_register ABRM abrm_DEVICE_CONFIGURATION (dump_uint 8 raw) c d
  | SEnableStream => write_register SIRM sirm_SI_CONTROL (dump_uint 4 1) c d
  | SDisableStream => write_register SIRM sirm_SI_CONTROL (dump_uint 4 0) c d
  | SMaximumLeaderSize v => write_register SIRM sirm_MAXIMUM_LEADER_SIZE (dump_uint 4 v) c d
  | SMaximumTrailerSize v => write_register SIRM sirm_MAXIMUM_TRAILER_SIZE (dump_uint 4 v) c d
  | SPayloadTransferSize v => write_register SIRM sirm_PAYLOAD_TRANSFER_SIZE (dump_uint 4 v) c d
  | SPayloadTransferCount v => write_register SIRM sirm_PAYLOAD_TRANSFER_COUNT (dump_uint 4 v) c d
  | SPayloadFinalTransfer1Size v => write_register SIRM sirm_PAYLOAD_FINAL_TRANSFER1_SIZE (dump_uint 4 v) c d
  | SPayloadFinalTransfer2Size v => write_register SIRM sirm_PAYLOAD_FINAL_TRANSFER2_SIZE (dump_uint 4 v) c d
  end.
Definition run_set := run_set_with false.

(* ---- runner for the correspondence (mirrors rust/h_regmap/src/main.rs) -------------------------- *)

(* memory(a) = last explicit segment covering a, else (seed + 131 a) mod 256 *)
Fixpoint seg_lookup (segs : list (Z * list Z)) (a : Z) : option Z :=
  match segs with
  | [] => None
  | (s, bs) :: r =>
    match seg_lookup r a with
    | Some b => Some b
    | None => if (s <=? a) && (a <? s + zlen bs) then nth_error bs (Z.to_nat (a - s)) else None
    end
  end.

Definition mem_of (seed : Z) (segs : list (Z * list Z)) : mem :=
  fun a => match seg_lookup segs a with Some b => b | None => (seed + 131 * a) mod 256 end.

Definition b2z (b : bool) : Z := if b then 1 else 0.

Fixpoint show_val (v : val) : list Z :=
  match v with
  | VInt z => [z]
  | VVer a b c => [a; b; c]
  | VStr s => zlen s :: s
  | VBool b => [b2z b]
  | VSpeed k => [k]
  | VFileInfo ft ct a b => show_outcome (fun z => [z]) ft ++ show_outcome (fun z => [z]) ct ++ [a; b; 0]
  | VHash None => [0]
  | VHash (Some h) => 1 :: h
  | VNone => [0]
  | VSome x => 1 :: show_val x
  end.

Definition show_res (x : outcome val) : list Z := show_outcome show_val x.

Definition show_log (d : rdev) : list Z :=
  (-7) :: zlen (rd_log d) :: flat_map show_access (rev (rd_log d)).

Definition finish (x : list Z * rdev) : list Z := fst x ++ show_log (snd x).

(* tryo!: an Err / Panic of a step ends the case *)
Definition step {A} (x : outcome A * rdev) (k : A -> rdev -> list Z * rdev) : list Z * rdev :=
  match x with
  | (Ok a, d) => k a d
  | (Err e, d) => ([1; e], d)
  | (Panic, d) => ([2], d)
  end.

Definition getter_of_code (op : Z) : option getter :=
  match op with
  | 1 => Some GGencpVersion | 2 => Some GManufacturerName | 3 => Some GModelName | 4 => Some GFamilyName
  | 5 => Some GDeviceVersion | 6 => Some GManufacturerInfo | 7 => Some GSerialNumber
  | 8 => Some GUserDefinedName | 9 => Some GManifestTableAddress | 10 => Some GSbrmAddress
  | 11 => Some GTimestamp | 12 => Some GTimestampIncrement | 13 => Some GDeviceSoftwareInterfaceVersion
  | 14 => Some GMaximumDeviceResponseTime | 15 => Some GDeviceConfiguration
  | 20 => Some GU3vVersion | 21 => Some GMaximumCommandTransferLength
  | 22 => Some GMaximumAcknowledgeTransferLength | 23 => Some GNumberOfStreamChannel
  | 24 => Some GSirmAddress | 25 => Some GSirmLength | 26 => Some GEirmAddress | 27 => Some GEirmLength
  | 28 => Some GIidc2Address | 29 => Some GCurrentSpeed
  | 40 => Some GPayloadSizeAlignment | 41 => Some GIsStreamEnable | 42 => Some GRequiredPayloadSize
  | 43 => Some GRequiredLeaderSize | 44 => Some GRequiredTrailerSize | 45 => Some GMaximumLeaderSize
  | 46 => Some GMaximumTrailerSize | 47 => Some GPayloadTransferSize | 48 => Some GPayloadTransferCount
  | 49 => Some GPayloadFinalTransfer1Size | 50 => Some GPayloadFinalTransfer2Size
  | 61 => Some GGenicamFileVersion | 62 => Some GFileAddress | 63 => Some GFileSize | 64 => Some GFileInfo
  | 65 => Some GSha1Hash
  | _ => None
  end.

Definition show_get (op : Z) (x : outcome val) : list Z :=
  match op, x with
  | 14, Ok (VInt w) => [0; w; 0]                                   (* millis, sub-millisecond nanos *)
  | 15, Ok (VInt w) => [0; b2z (cfg_is_multi_event_enabled w)]
  | _, _ => show_res x
  end.

Fixpoint first_sizes (k : nat) (i n first : Z) (d : rdev) : list Z * rdev :=
  match k with
  | O => ([], d)
  | S k' =>
    if i <? n then
      let '(r, d1) := run_get GFileSize (entry_ctx first i) d in
      let '(o, d2) := first_sizes k' (i + 1) n first d1 in
      (show_res r ++ o, d2)
    else ([], d)
  end.

Definition run_entries (c : ctx) (d : rdev) : list Z * rdev :=
  step (entries c d) (fun nf d =>
    let '(n, first) := nf in
    let '(o, d') := first_sizes 3 0 n first d in
    (0 :: Z.min n 1000 :: o, d')).

Definition sirm_setter (op v : Z) : option (setter * getter) :=
  match op with
  | 80 => Some (SEnableStream, GIsStreamEnable)
  | 81 => Some (SDisableStream, GIsStreamEnable)
  | 82 => Some (SMaximumLeaderSize v, GMaximumLeaderSize)
  | 83 => Some (SMaximumTrailerSize v, GMaximumTrailerSize)
  | 84 => Some (SPayloadTransferSize v, GPayloadTransferSize)
  | 85 => Some (SPayloadTransferCount v, GPayloadTransferCount)
  | 86 => Some (SPayloadFinalTransfer1Size v, GPayloadFinalTransfer1Size)
  | 87 => Some (SPayloadFinalTransfer2Size v, GPayloadFinalTransfer2Size)
  | _ => None
  end.

Definition rm_body (op base : Z) (args : list Z) (d : rdev) : list Z * rdev :=
  if ((1 <=? op) && (op <=? 16)) || (op =? 32) || (op =? 33) || ((70 <=? op) && (op <=? 72)) then
    step (abrm_new d) (fun c d =>
      match op with
      | 16 => (0 :: map b2z (device_capability_bits c), d)
      | 32 => step (abrm_sbrm c d) (fun s d => (0 :: map b2z (u3v_capability_bits s), d))
      | 33 => step (abrm_manifest_table c d) (fun t d => run_entries t d)
      | 70 => step (run_set (SUserDefinedName args) c d) (fun _ d =>
                let '(r, d') := run_get GUserDefinedName c d in (0 :: show_res r, d'))
      | 71 => step (run_set STimestampLatch c d) (fun _ d => ([0], d))
      | 72 => step (run_get GDeviceConfiguration c d) (fun v d =>
                let w := val_int v in
                let mode := hd 0 args in
                let w' := if mode =? 1 then cfg_set_multi_event_enable_bit w
                          else if mode =? 2 then cfg_disable_multi_event w else w in
                step (run_set (SDeviceConfiguration w') c d) (fun _ d =>
                  let '(r, d') := run_get GDeviceConfiguration c d in
                  ([0; b2z (cfg_is_multi_event_enabled w); b2z (cfg_is_multi_event_enabled w')]
                     ++ show_get 15 r, d')))
      | _ => match getter_of_code op with
             | Some g => let '(r, d') := run_get g c d in (show_get op r, d')
             | None => ([9], d)
             end
      end)
  else if (20 <=? op) && (op <=? 31) then
    step (sbrm_new base d) (fun c d =>
      match op with
      | 30 => (0 :: map b2z (u3v_capability_bits c), d)
      | 31 => step (sbrm_sirm c d) (fun o d =>
                match o with
                | None => ([0; 0], d)
                | Some s => let '(r, d') := run_get GRequiredLeaderSize s d in (0 :: 1 :: show_res r, d')
                end)
      | _ => match getter_of_code op with
             | Some g => let '(r, d') := run_get g c d in (show_get op r, d')
             | None => ([9], d)
             end
      end)
  else if (80 <=? op) && (op <=? 87) then
    match sirm_setter op (hd 0 args) with
    | Some (s, g) =>
      step (run_set s (plain_ctx base) d) (fun _ d =>
        let '(r, d') := run_get g (plain_ctx base) d in (0 :: show_res r, d'))
    | None => ([9], d)
    end
  else if op =? 60 then run_entries (plain_ctx base) d
  else match getter_of_code op with
       | Some g => let '(r, d') := run_get g (plain_ctx base) d in (show_get op r, d')
       | None => ([9], d)
       end.

Definition rm_run (op base fail seed : Z) (segs : list (Z * list Z)) (args : list Z) : list Z :=
  finish (rm_body op base args
            {| rd_mem := mem_of seed segs; rd_log := []; rd_count := 0; rd_fail := fail |}).
