(* Meaning of the operations that tools/translate_streamparams.py emits for the transfer-layout part of
   cameleon/src/u3v/stream_handle.rs (gen/StreamParamsSrc.v), on top of model/RdOps.v.  No proofs here.

     pool                  what an AsyncPool has been given so far: the ranges (lo, hi) of the buffers of the transfers
                           submitted, oldest first (device/src/u3v/async_read.rs keeps them in submission order);
     sp_submit res blen lo hi p
                           `async_pool.submit(&mut buf[lo..hi])?` on a buffer of blen bytes: the slice is taken first
                           (a panic when it leaves the buffer - nothing is submitted then), then the transfer is
                           submitted; `res k` is the result of the k-th submission counted over the pool (None: Ok,
                           Some e: an error, already converted by `?` into the StreamError class e), an error leaves
                           the function at once;
     r_for n body s        `for _ in 0..n { .. }` whose body maps the mutated locals s to their new values;
     opt_filter / opt_list `Option::filter`, an Option used as an iterator (`chain(Some(x).filter(..))`);
                           `std::iter::repeat(x).take(n)` is `repeat x (Z.to_nat n)`, `chain` is `++`;
     fc_*                  the calls StreamParams::from_control makes into cameleon/src/u3v/register_map.rs, with the
                           meaning model/Control.v gives them (Abrm::new reads the register it is given and keeps nothing
                           the translated code uses; Abrm::sbrm = abrm_sbrm; Sbrm::sirm = sbrm_sirm_address followed by
                           Sirm::new; a Sirm getter reads (offset, length) relative to the Sirm address through
                           register_address; an Abrm getter reads an absolute register);
     hstep / hs_run        StreamHandle::start_streaming_loop / stop_streaming_loop as the list of their statements, run
                           on the handle state of model/StreamStart.v (the parameters and cancellation_tx.is_some()):
                           what a statement does to the thread, the channel and the log is not part of that state (the
                           transition system of model/StreamLoop.v has it); sending the cancellation is taken to succeed
                           (the loop thread holds the receiver until it ends). *)
From Cam Require Export Outcome RustInt Bytes RdOps Control StreamStart.

Definition pool := list (Z * Z).

Definition sp_submit (res : Z -> option Z) (blen lo hi : Z) (p : pool) : outcome (unit * pool) :=
  if (0 <=? lo) && (lo <=? hi) && (hi <=? blen) then
    match res (zlen p) with
    | None => Ok (tt, p ++ [(lo, hi)])
    | Some e => Err e
    end
  else Panic.

Fixpoint r_for {St} (n : nat) (body : St -> outcome St) (s : St) : outcome St :=
  match n with
  | O => Ok s
  | S k => match body s with Ok s' => r_for k body s' | Err e => Err e | Panic => Panic end
  end.

Definition opt_filter {A} (f : A -> bool) (o : option A) : option A :=
  match o with Some a => if f a then Some a else None | None => None end.

Definition opt_list {A} (o : option A) : list A := match o with Some a => [a] | None => [] end.

(* StreamParams::from_control *)
Definition fc_abrm_new (reg : Z * Z) : M unit := do _ <- read_reg (fst reg) (snd reg); ret tt.
Definition fc_abrm_sbrm (abrm : unit) : M (Z * Z) := abrm_sbrm.
Definition fc_sbrm_sirm (sbrm : Z * Z) : M (option Z) := sbrm_sirm_address sbrm.
Definition fc_ok_or {A} (o : option A) (e : Z) : M A := match o with Some a => ret a | None => fail e end.
Definition fc_sirm_read (sirm : Z) (reg : Z * Z) : M Z := do a <- sirm_reg sirm (fst reg); read_reg a (snd reg).
Definition fc_abrm_read (abrm : unit) (reg : Z * Z) : M Z := read_reg (fst reg) (snd reg).

(* StreamHandle::start_streaming_loop / stop_streaming_loop, statement by statement *)
Inductive hstep :=
| HS_load_params (e : Z)        (* self.params = StreamParams::from_control(ctrl).map_err(|e| <error e>)?; *)
| HS_fail_if_running (e : Z)    (* if self.is_loop_running() { return Err(<error e>); } *)
| HS_new_channel (cap : Z)      (* let (cancellation_tx, cancellation_rx) = mpsc::sync_channel(cap); *)
| HS_store_tx                   (* self.cancellation_tx = Some(cancellation_tx); *)
| HS_build_loop                 (* let strm_loop = StreamingLoop { inner: self.inner.clone(), params: self.params.clone(), sender, cancellation_rx }; *)
| HS_spawn                      (* std::thread::spawn(|| { strm_loop.run(); }); *)
| HS_log                        (* info!(..); *)
| HS_if_running (body : list hstep)   (* if self.is_loop_running() { .. } *)
| HS_take_tx                    (* let cancellation_tx = self.cancellation_tx.take().unwrap(); *)
| HS_send_cancel (e : Z).       (* cancellation_tx.send(()).map_err(|_| <error e>)?; *)

Definition set_running (h : shandle) (b : bool) : shandle := {| sh_params := sh_params h; sh_running := b |}.

Fixpoint hs_run (fuel : nat) (steps : list hstep) (x : hst) : outcome unit * hst :=
  match fuel with
  | O => (Err (-1), x)
  | S f =>
    match steps with
    | [] => (Ok tt, x)
    | st :: rest =>
      let '(s, h) := x in
      match st with
      | HS_load_params e =>
        match stream_params s with
        | (Ok p, s') => hs_run f rest (s', {| sh_params := p; sh_running := sh_running h |})
        | (Err _, s') => (Err e, (s', h))
        | (Panic, s') => (Panic, (s', h))
        end
      | HS_fail_if_running e => if sh_running h then (Err e, x) else hs_run f rest x
      | HS_store_tx => hs_run f rest (s, set_running h true)
      | HS_take_tx => if sh_running h then hs_run f rest (s, set_running h false) else (Panic, x)
      | HS_if_running body => if sh_running h then hs_run f (body ++ rest) x else hs_run f rest x
      | HS_new_channel _ | HS_build_loop | HS_spawn | HS_log | HS_send_cancel _ => hs_run f rest x
      end
    end
  end.
