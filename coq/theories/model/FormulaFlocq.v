(* The float_ops instance used by the C05 correspondence (never by a theorem): IEEE binary64
   arithmetic from Flocq on bit patterns (round to nearest even), conversions built from
   binary_normalize / Btrunc / Bnearbyint, and per-case oracle tables for what Flocq does not
   provide: libm results (sin ... log10, powf, fmod) and correctly rounded decimal literals.  The
   tables are produced by the check (tools/c05.py, C libm through ctypes / Python float()); a missing
   entry yields the pattern MISSING, which no f64 operation of the implementation can produce,
   so an incomplete table shows up as a disagreement.  Every result is NaN-canonicalised. *)
From Coq Require Import ZArith List.
From Flocq Require Import IEEE754.BinarySingleNaN IEEE754.Binary IEEE754.Bits.
From Cam Require Import Outcome Formula.
Open Scope Z_scope.

Definition MISSING : Z := 18444492273895866368 + 57005.   (* 0xFFF8_0000_0000_DEAD *)

Definition canon (b : Z) : Z := if fb_is_nan b then F_NAN else b.

Definition fl2 (op : mode -> binary64 -> binary64 -> binary64) (a b : Z) : Z :=
  canon (bits_of_b64 (op mode_NE (b64_of_bits a) (b64_of_bits b))).

Definition fl_of_int (z : Z) : Z :=
  bits_of_b64 (Binary.binary_normalize 53 1024 (eq_refl _) (eq_refl _) mode_NE z 0 false).

Definition fl_trunc_z (b : Z) : Z :=
  match b64_of_bits b with
  | B754_infinity _ _ s => if s then - 2 ^ 64 else 2 ^ 64
  | B754_nan _ _ _ _ _ => 0
  | x => Binary.Btrunc 53 1024 x
  end.

Definition fl_nearby (m : mode) (b : Z) : Z :=
  canon (bits_of_b64 (Binary.Bnearbyint 53 1024 (eq_refl _) unop_nan_pl64 m (b64_of_bits b))).

Fixpoint tbl_lookup (t : list (Z * Z * Z * Z)) (code a b : Z) : Z :=
  match t with
  | [] => MISSING
  | (c, x, y, r) :: t' => if (c =? code) && (x =? a) && (y =? b) then r else tbl_lookup t' code a b
  end.

Definition flocq_ops (tbl : list (Z * Z * Z * Z)) (lits : list (list Z * Z)) : float_ops := {|
  f_add := fl2 b64_plus;
  f_sub := fl2 b64_minus;
  f_mul := fl2 b64_mult;
  f_div := fl2 b64_div;
  f_rem := fun a b => tbl_lookup tbl 201 (canon a) (canon b);
  f_pow := fun a b => tbl_lookup tbl 200 (canon a) (canon b);
  f_cmp := fun a b => b64_compare (b64_of_bits a) (b64_of_bits b);
  f_of_int := fl_of_int;
  f_trunc_z := fl_trunc_z;
  f_fun := fun k a =>
    match k with
    | USqrt => canon (bits_of_b64 (b64_sqrt mode_NE (b64_of_bits a)))
    | UTrunc => fl_nearby mode_ZR a
    | UFloor => fl_nearby mode_DN a
    | UCeil => fl_nearby mode_UP a
    | URound => fl_nearby mode_NA a
    | _ => tbl_lookup tbl (100 + unop_code k) (canon a) 0
    end;
  f_lit := fun s => match lookup s lits with Some b => b | None => MISSING end
|}.
