(* Model of the register value codecs (genapi/src/utils.rs) and of the register-backed
   nodes IntReg / FloatReg / StringReg / Register / MaskedIntReg (value, set_value, read,
   write) over the recording device, without caching (CachingMode::NoCache, or a store
   built with no_cache(); caching is the subject of model/Cache.v).
   Floats are carried as IEEE-754 bit patterns; binary32 <-> binary64 conversion is
   written out in integer arithmetic (round to nearest, ties to even). *)
From Cam Require Export Outcome Bytes Mem BitField.

(* endian: 0 little, 1 big;  sign: 0 unsigned, 1 signed *)

Definition supported_int_len (len : Z) : bool :=
  (len =? 1) || (len =? 2) || (len =? 4) || (len =? 8).

Definition order (endian : Z) (bs : list Z) : list Z := if endian =? 0 then bs else rev bs.

(* int_from_slice *)
Definition int_from_slice (bs : list Z) (endian sign : Z) : outcome Z :=
  let len := zlen bs in
  if negb (supported_int_len len) then Err E_INVALID_BUFFER else
  let u := of_le (order endian bs) in
  if sign =? 1 then Ok (sw (8 * len) u)
  else Ok (if len =? 8 then sw 64 u else u).        (* u64 as i64 *)

(* bytes_from_int into a buffer of [len] bytes *)
Definition bytes_from_int (v len endian sign : Z) : outcome (list Z) :=
  if negb (supported_int_len len) then Err E_INVALID_BUFFER else
  Ok (order endian (le_bytes (Z.to_nat len) (v mod 2 ^ (8 * len)))).

(* ---- IEEE-754 binary64 / binary32 bit patterns ------------------------------------- *)

Definition f64_sign (b : Z) : Z := b / 2 ^ 63.
Definition f64_exp (b : Z) : Z := (b / 2 ^ 52) mod 2 ^ 11.
Definition f64_man (b : Z) : Z := b mod 2 ^ 52.
Definition f32_sign (b : Z) : Z := b / 2 ^ 31.
Definition f32_exp (b : Z) : Z := (b / 2 ^ 23) mod 2 ^ 8.
Definition f32_man (b : Z) : Z := b mod 2 ^ 23.

(* f64::from(f32) : exact.  NaN keeps sign and payload (shifted), quiet bit set by hardware. *)
Definition widen (b : Z) : Z :=
  let s := f32_sign b in let e := f32_exp b in let m := f32_man b in
  if e =? 255 then
    if m =? 0 then s * 2 ^ 63 + 2047 * 2 ^ 52
    else s * 2 ^ 63 + 2047 * 2 ^ 52 + 2 ^ 51 + (m mod 2 ^ 22) * 2 ^ 29      (* quiet NaN *)
  else if e =? 0 then
    if m =? 0 then s * 2 ^ 63
    else
      (* subnormal m * 2^-149 : normalise *)
      let k := Z.log2 m in
      s * 2 ^ 63 + (k - 149 + 1023) * 2 ^ 52 + (m - 2 ^ k) * 2 ^ (52 - k)
  else s * 2 ^ 63 + (e - 127 + 1023) * 2 ^ 52 + m * 2 ^ 29.

(* round-to-nearest-even division by 2^k *)
Definition rne_shift (x k : Z) : Z :=
  let q := x / 2 ^ k in let r := x mod 2 ^ k in let h := 2 ^ (k - 1) in
  if k <=? 0 then x * 2 ^ (- k)
  else if (h <? r) || ((r =? h) && Z.odd q) then q + 1 else q.

(* value as f32 : round to nearest even; overflow to infinity; NaN quieted *)
Definition narrow (b : Z) : Z :=
  let s := f64_sign b in let e := f64_exp b in let m := f64_man b in
  if e =? 2047 then
    if m =? 0 then s * 2 ^ 31 + 255 * 2 ^ 23
    else s * 2 ^ 31 + 255 * 2 ^ 23 + 2 ^ 22 + (m / 2 ^ 29) mod 2 ^ 22
  else
    let sig := if e =? 0 then m else 2 ^ 52 + m in         (* value = sig * 2^(ee - 1075) *)
    let ee := if e =? 0 then 1 else e in
    (* target exponent field t = ee - 896 for normals; below 1 the result is subnormal *)
    let t := ee - 896 in
    if 1 <=? t then
      let r := rne_shift sig 29 in                          (* 24-bit significand, maybe 2^24 *)
      let bits := (t - 1) * 2 ^ 23 + r in                   (* carries propagate into the exponent *)
      if 255 * 2 ^ 23 <=? bits then s * 2 ^ 31 + 255 * 2 ^ 23 else s * 2 ^ 31 + bits
    else
      let sh := 29 + (1 - t) in
      if 80 <? sh then s * 2 ^ 31 else s * 2 ^ 31 + rne_shift sig sh.

(* float_from_slice / bytes_from_float on bit patterns *)
Definition float_from_slice (bs : list Z) (endian : Z) : outcome Z :=
  let len := zlen bs in
  if len =? 8 then Ok (of_le (order endian bs))
  else if len =? 4 then Ok (widen (of_le (order endian bs)))
  else Err E_INVALID_BUFFER.

Definition bytes_from_float (bits len endian : Z) : outcome (list Z) :=
  if len =? 8 then Ok (order endian (le_bytes 8 bits))
  else if len =? 4 then Ok (order endian (le_bytes 4 (narrow bits)))
  else Err E_INVALID_BUFFER.

Definition is_nan64 (b : Z) : bool := (f64_exp b =? 2047) && negb (f64_man b =? 0).
Definition canon_nan (b : Z) : Z := if is_nan64 b then 0x7ff8000000000000 else b.

(* ---- nodes ------------------------------------------------------------------------------ *)

(* one register shared by a list of nodes (siblings) *)
Record regcfg := { r_addr : Z; r_len : Z; r_endian : Z }.

(* kind: 0 IntReg, 1 FloatReg, 2 StringReg, 3 Register, 4 MaskedIntReg *)
Record nodecfg := { n_kind : Z; n_sign : Z; n_lsb : Z; n_msb : Z }.

(* RegisterBase::read_and_cache with NoCache: buffer length check, then the port read *)
Definition reg_read (r : regcfg) (buflen : Z) (d : dev) : outcome (list Z) * dev :=
  if negb (buflen =? r_len r) then (Err E_INVALID_BUFFER, d) else dev_read d (r_addr r) (r_len r).

(* RegisterBase::write_and_cache with NoCache *)
Definition reg_write (r : regcfg) (bs : list Z) (d : dev) : outcome unit * dev :=
  if negb (zlen bs =? r_len r) then (Err E_INVALID_BUFFER, d) else dev_write d (r_addr r) bs.

Definition bind2 {A B} (x : outcome A * dev) (f : A -> dev -> outcome B * dev) : outcome B * dev :=
  match x with
  | (Ok a, d) => f a d
  | (Err e, d) => (Err e, d)
  | (Panic, d) => (Panic, d)
  end.

Definition ret {A} (x : outcome A) (d : dev) : outcome A * dev := (x, d).

Definition int_value (r : regcfg) (n : nodecfg) (d : dev) : outcome Z * dev :=
  bind2 (reg_read r (r_len r) d) (fun bs d => ret (int_from_slice bs (r_endian r) (n_sign n)) d).

Definition int_set_value (r : regcfg) (n : nodecfg) (v : Z) (d : dev) : outcome unit * dev :=
  match bytes_from_int v (r_len r) (r_endian r) (n_sign n) with
  | Ok bs => reg_write r bs d
  | Err e => (Err e, d)
  | Panic => (Panic, d)
  end.

Definition float_value (r : regcfg) (d : dev) : outcome Z * dev :=
  bind2 (reg_read r (r_len r) d) (fun bs d => ret (float_from_slice bs (r_endian r)) d).

Definition float_set_value (r : regcfg) (bits : Z) (d : dev) : outcome unit * dev :=
  match bytes_from_float bits (r_len r) (r_endian r) with
  | Ok bs => reg_write r bs d
  | Err e => (Err e, d)
  | Panic => (Panic, d)
  end.

Fixpoint until_nul (bs : list Z) : list Z :=
  match bs with
  | [] => []
  | b :: r => if b =? 0 then [] else b :: until_nul r
  end.

(* StringReg::value on an ASCII image (from_utf8_lossy is the identity there) *)
Definition string_value (r : regcfg) (d : dev) : outcome (list Z) * dev :=
  bind2 (reg_read r (r_len r) d) (fun bs d => ret (Ok (until_nul bs)) d).

Definition is_ascii (s : list Z) : bool := forallb (fun c => c <? 128) s.
Definition has_nul (s : list Z) : bool := existsb (fun c => c =? 0) s.

(* StringReg::set_value.  [v0] = pinned code, which accepts embedded NUL characters. *)
Definition string_set_value_with (v0 : bool) (r : regcfg) (s : list Z) (d : dev) : outcome unit * dev :=
  if negb (is_ascii s) || (negb v0 && has_nul s) then (Err E_INVALID_DATA, d)
  else if r_len r <? zlen s then (Err E_INVALID_DATA, d)
  else reg_write r (s ++ repeat 0 (Z.to_nat (r_len r - zlen s))) d.

Definition string_set_value := string_set_value_with false.

(* MaskedIntReg *)
Definition norm_field (r : regcfg) (n : nodecfg) : outcome (Z * Z) :=
  let? l := norm_bit (r_len r) (r_endian r) (n_lsb n) in
  let? m := norm_bit (r_len r) (r_endian r) (n_msb n) in
  if m <? l then Panic                                      (* usize underflow of msb - lsb *)
  else Ok (l, m).

Definition mir_value (r : regcfg) (n : nodecfg) (d : dev) : outcome Z * dev :=
  bind2 (int_value r n d) (fun reg d =>
    ret (let? (l, m) := norm_field r n in Ok (bm_apply l m (n_sign n) reg)) d).

Definition mir_set_value (r : regcfg) (n : nodecfg) (v : Z) (d : dev) : outcome unit * dev :=
  bind2 (int_value r n d) (fun old d =>
    match (let? (l, m) := norm_field r n in bm_masked l m (n_sign n) old v) with
    | Ok nv => int_set_value r n nv d
    | Err e => (Err e, d)
    | Panic => (Panic, d)
    end).

Definition mir_min (r : regcfg) (n : nodecfg) : outcome Z :=
  let? (l, m) := norm_field r n in Ok (bm_min l m (n_sign n)).
Definition mir_max (r : regcfg) (n : nodecfg) : outcome Z :=
  let? (l, m) := norm_field r n in Ok (bm_max l m (n_sign n)).

(* ---- history runner ----------------------------------------------------------------------- *)

Definition E_NO_IFACE : Z := 90.

Definition lpz (l : list Z) : list Z := zlen l :: l.

Definition sh_unit (x : outcome unit) : list Z := lpz (show_outcome (fun _ => []) x).
Definition sh_z (x : outcome Z) : list Z := lpz (show_outcome (fun z => [z]) x).
Definition sh_bytes (x : outcome (list Z)) : list Z := lpz (show_outcome (fun l => l) x).
Definition sh_str (x : outcome (list Z)) : list Z := lpz (show_outcome (fun l => zlen l :: l) x).

(* one operation: opcode, node, arguments.  Returns printed result and device. *)
Definition run_op (r : regcfg) (nodes : list nodecfg) (op : list Z) (d : dev) : list Z * dev :=
  match op with
  | [20; k] => (lpz [0], dev_reject d k)
  | opc :: ni :: args =>
    match nth_error nodes (Z.to_nat ni) with
    | None => (lpz [1; 91], d)
    | Some n =>
      let k := n_kind n in
      let isint := (k =? 0) || (k =? 4) in
      match opc, args with
      | 1, [] => if k =? 0 then let '(x, d) := int_value r n d in (sh_z x, d)
                 else if k =? 4 then let '(x, d) := mir_value r n d in (sh_z x, d)
                 else (lpz [1; E_NO_IFACE], d)
      | 2, [v] => if k =? 0 then let '(x, d) := int_set_value r n v d in (sh_unit x, d)
                  else if k =? 4 then let '(x, d) := mir_set_value r n v d in (sh_unit x, d)
                  else (lpz [1; E_NO_IFACE], d)
      | 3, [] => if k =? 0 then (sh_z (Ok (if n_sign n =? 1 then - 2 ^ 63 else 0)), d)
                 else if k =? 4 then (sh_z (mir_min r n), d) else (lpz [1; E_NO_IFACE], d)
      | 4, [] => if k =? 0 then (sh_z (Ok (2 ^ 63 - 1)), d)
                 else if k =? 4 then (sh_z (mir_max r n), d) else (lpz [1; E_NO_IFACE], d)
      | 5, [] => if k =? 1 then let '(x, d) := float_value r d in (sh_z (omap canon_nan x), d)
                 else (lpz [1; E_NO_IFACE], d)
      | 6, [b] => if k =? 1 then let '(x, d) := float_set_value r b d in (sh_unit x, d)
                  else (lpz [1; E_NO_IFACE], d)
      | 7, [] => if k =? 2 then let '(x, d) := string_value r d in (sh_str x, d)
                 else (lpz [1; E_NO_IFACE], d)
      | 8, s => if k =? 2 then let '(x, d) := string_set_value r s d in (sh_unit x, d)
                else (lpz [1; E_NO_IFACE], d)
      | 9, [len] => let '(x, d) := reg_read r len d in (sh_bytes x, d)
      | 10, bs => let '(x, d) := reg_write r bs d in (sh_unit x, d)
      | _, _ => (lpz [1; 92], d)
      end
    end
  | _ => (lpz [1; 92], d)
  end.

Fixpoint run_ops (r : regcfg) (nodes : list nodecfg) (ops : list (list Z)) (d : dev) : list Z * dev :=
  match ops with
  | [] => ([], d)
  | op :: rest =>
    let '(o, d1) := run_op r nodes op d in
    let '(os, d2) := run_ops r nodes rest d1 in
    (o ++ os, d2)
  end.

Definition run_history (r : regcfg) (nodes : list nodecfg) (base : Z) (image : list Z)
           (ops : list (list Z)) : list Z :=
  let '(o, d) := run_ops r nodes ops (mk_dev base image) in o ++ show_dev d.
