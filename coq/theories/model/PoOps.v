(* Vocabulary of the ELEMENT SCHEDULES that tools/translate_parseorder.py emits for the `impl Parse for X` blocks of
   genapi/src/parser/*.rs (gen/ParseOrderSrc.v), and their meaning over the child cursor of model/GenApiParse.v.
   Hand-written, no proofs.

   A Parse impl is straight-line code over the cursor of ONE element: every statement either consumes children
   (`node.parse`, `node.parse_if(TAG)`, `node.parse_while(TAG)`, `node.next_if(TAG)`), reads an attribute of the element
   (`node.attribute_of(ATTR)`) or of the next child (`node.peek().unwrap().attribute_of(ATTR)`), or post-processes what
   was read before.  The translator emits the statements in program order as [(local, step)], together with the struct
   literal the impl ends with ([(field, local)]): a result landing in the wrong field is a different schedule.

   Values are untyped ([val]): a struct is the list of its fields BY RUST FIELD NAME, an enum value the Rust variant
   name.  NodeId = the node's name, a value id (IntegerId / FloatId / StringId) = the stored value (the abstractions of
   model/GenApiParse.v).  Nodes handed to `node_builder.store_node` while parsing (embedded IntSwissKnife, EnumEntry)
   are collected in a log ([W] = parser of a value and a log).

   What is NOT given a meaning here but taken from an environment [env]: the Parse impl of another type ([e_ref]: the
   proofs instantiate it with the injected parsers of the hand-written model and show that it is closed under the
   translated schedules), the text -> variant tables ([e_lit]: gen/ElemNames.v), IntegerRepresentation::deduce_min /
   deduce_max ([e_deduce]), the value `node_builder.fresh_id()` returns ([e_fresh]), the tag an impl asserts at its head
   ([e_tag]: src_po_tags of the generated file).  The leaf impls (String, NodeId,
   bool, i64, u64, f64, IntegerId, FloatId, Expr) have the meaning of the model's leaf parsers; their source text is
   pinned by the translator. *)
From Cam Require Export GenApiParse.
From Coq Require Export String.
Open Scope Z_scope.

Inductive val :=
| VStr (s : str)                       (* String, &str, NodeId (the name), Expr / Formula text *)
| VBool (b : bool)
| VInt (z : Z)                         (* i64 / u64, IntegerId *)
| VFlt (f : fval)                      (* f64, FloatId *)
| VEnum (variant : str)                (* field-less enum: the Rust variant name *)
| VNone | VSome (v : val)              (* Option *)
| VList (l : list val)                 (* Vec *)
| VCtor (name : string) (args : list val)      (* enum variant with payload: Imm(..), PNode(..), Value(..), SingleBit(..) *)
| VRec (fields : list (string * val)). (* struct / struct-like variant: fields by name, in the order of the literal *)

Definition log := list val.
Definition W := P (val * log).

(* Rust type of what a step parses (Option / Vec are expressed by the step kind) *)
Inductive ety :=
| TString | TNodeId | TBool | TI64 | TU64 | TF64 | TIntegerId | TFloatId | TExpr
| TEnum (name : string)                (* enum with a text table in parser/elem_type.rs *)
| TVar                                 (* the type parameter T of a generic impl *)
| TRef (name : string) (arg : option ety).     (* any other type with a Parse impl; one generic argument at most *)

Inductive dflt_v := DNone | DVal (v : val).

(* what is done with an attribute text *)
Inductive aconv :=
| CvRaw                                (* &str kept as it is / .into() / .to_string() / Into::into : String *)
| CvIntern                             (* node_builder.get_or_intern(s) *)
| CvEnum (name : string)               (* text.into() through `impl From<&str> for <name>` *)
| CvBool                               (* convert_to_bool *)
| CvUint                               (* convert_to_uint *)
| CvInt                                (* convert_to_int *)
| CvImmInt                             (* ImmOrPNode::Imm(convert_to_int(s)) *)
| CvPNode.                             (* ImmOrPNode::PNode(node_builder.get_or_intern(s)) *)

Inductive step :=
| SAttrReq (attr : str) (cv : aconv)                 (* cv(node.attribute_of(A).unwrap()) *)
| SAttrOpt (attr : str) (cv : aconv) (d : dflt_v)    (* node.attribute_of(A).map(cv) [.unwrap_or_default()] *)
| SPeekAttrReq (attr : str) (cv : aconv)             (* cv(node.peek().unwrap().attribute_of(A).unwrap()) *)
| SPeekAttrOpt (attr : str) (cv : aconv)             (* node.peek().unwrap().attribute_of(A).map(cv) *)
| SReq (ty : ety)                                    (* node.parse() *)
| SOpt (tags : list str) (ty : ety) (d : dflt_v)     (* node.parse_if(T1)[.or_else(|| node.parse_if(T2))..][.unwrap_or..] *)
| SRep (tags : list str) (ty : ety)                  (* node.parse_while(T) /
                                                        while let Some(x) = node.parse_if(T1)[.or_else(..)] { v.push(x) } *)
| SOptHex (tag : str)                                (* node.next_if(T).map(|n| u64::from_str_radix(&n.text().view(), 16).unwrap()) *)
| SValueOrRef (tag : str) (yes no : string)          (* node.next_if(T).map_or_else(|| no(intern(node.next_text().unwrap().view())),
                                                                                   |n| yes(store(n.text().view()))) *)
| SHexOrRef (tag ptag : str) (yes no : string)       (* node.next_if(T).map_or_else(|| node.next_if(PT).map(|n| no(intern(text))),
                                                                                   |n| Some(yes(from_str_radix(text, 16).unwrap()))) *)
| SRepNested (tag : str) (impl : string) (variant : string) (idpath : list string)
                                                     (* while let Some(mut n) = node.next_if(T) { let e: Impl = n.parse();
                                                        let id = e.<idpath>; store_node(id, NodeData::Variant(e.into())); v.push(id) } *)
| SRepAllNested (impl : string)                      (* while let Some(mut n) = node.next() { v.push(n.parse::<Impl>()) } *)
| SIntern (from : string)                            (* node_builder.get_or_intern(local) *)
| SFreshName (from : string)                         (* format!("${}_{}", local, node_builder.fresh_id()) *)
| SRecord (fields : list (string * string))          (* a struct literal over locals *)
| SDeduce (fn : string) (x from : string)            (* x.unwrap_or_else(|| ImmOrPNode::Imm(store(from.fn()))) *)
| SExtend (a b : string)                             (* a.extend(b) *)
| STake (r : string) (field : string)                (* std::mem::take(&mut r.field) : the value; r.field becomes empty *)
| SCleared (r : string) (field : string)             (* r after std::mem::take(&mut r.field) *)
| SBoolSel (v on off : string)                       (* match v { Imm(b) => Imm(store(if b { on } else { off })), PNode(p) => PNode(p) } *)
| SXor (a b : string)                                (* a.xor(b) *)
| SAssertEmpty (r : string) (field : string).        (* debug_assert!(r.field.is_empty()) : the local is rebound to itself *)

(* condition on the text of the next child (ImmOrPNode sniffing) *)
Inductive cond :=
| CAlpha                               (* text.view().chars().next().unwrap().is_alphabetic() *)
| CTextEq (s : str)                    (* text == "s" *)
| CBoolWord                            (* convert_to_bool_opt(&text.view()).is_some() *)
| CNot (c : cond)
| COr (a b : cond).                    (* || : left to right, short circuit *)

Inductive arm :=
| AParse (ctor : string) (ty : ety)                                   (* Self::Ctor(node.parse()) *)
| ANested (ctor : string) (impl : string) (variant : string) (idpath : list string).
                                       (* let x: Impl = node.next().unwrap().parse(); let id = x.<idpath>;
                                          store_node(id, NodeData::Variant(x.into())); Self::Ctor(id) *)

Inductive body :=
| BStruct (steps : list (string * step)) (result : list (string * string))
| BSniff (c : cond) (yes no : string * ety)                            (* if c(peeked text) { Self::Y(node.parse()) } else { Self::N(node.parse()) } *)
| BTagMatch (arms : list (list str * arm))                             (* match node.peek().unwrap().tag_name() { T | T => .., _ => unreachable!() } *)
| BOptElse (tag : str) (ty : ety) (ctor : string)
           (steps : list (string * step)) (ctor2 : string) (result : list (string * string)).
                                       (* node.parse_if(T).map_or_else(|| { steps; Self::Ctor2 { result } }, Self::Ctor) *)

Record env := mkEnv {
  e_ref : Z -> string -> option ety -> list (str * str) -> W;   (* first argument: what fresh_id() returns next *)
  e_lit : string -> list (str * str);
  e_deduce : string -> val -> val;
  e_tag : string -> option str;          (* the tag an impl asserts at its head: debug_assert_eq!(node.tag_name(), TAG) *)
  e_fresh : Z }.

(* ------------------------------------------------------------------------------------------------ *)
Definition locals := list (string * val).

Fixpoint lookup (x : string) (l : locals) : val :=
  match l with
  | [] => VNone
  | (k, v) :: r => if String.eqb x k then v else lookup x r
  end.

Definition field (f : string) (v : val) : val := match v with VRec l => lookup f l | _ => VNone end.
Fixpoint path (p : list string) (v : val) : val :=
  match p with [] => v | f :: r => path r (field f v) end.

Fixpoint set_field (f : string) (x : val) (l : locals) : locals :=
  match l with
  | [] => []
  | (k, v) :: r => if String.eqb f k then (k, x) :: r else (k, v) :: set_field f x r
  end.

Definition pure {A} (p : P A) (f : A -> val) : W := mapP (fun a => (f a, @nil val)) p.
Definition wmap (f : val -> val) (w : W) : W := mapP (fun vl => (f (fst vl), snd vl)) w.

Definition subst (targ : option ety) (t : ety) : ety :=
  match t with
  | TVar => match targ with Some a => a | None => TVar end
  | TRef n (Some TVar) => TRef n targ
  | _ => t
  end.

Definition enum_sem (tbl : list (str * str)) : W :=
  let! t := next_text in
  match assoc_str t tbl with Some v => ret (VEnum v, []) | None => fail end.

Definition elem_sem (E : env) (targ : option ety) (attrs : list (str * str)) (t : ety) : W :=
  match subst targ t with
  | TString => pure p_string VStr
  | TNodeId => pure p_nodeid VStr
  | TBool => pure p_bool VBool
  | TI64 | TIntegerId => pure p_i64 VInt
  | TU64 => pure p_u64 VInt
  | TF64 | TFloatId => pure p_f64 VFlt
  | TExpr => pure p_string VStr
  | TEnum n => enum_sem (e_lit E n)
  | TVar => fail
  | TRef n a => e_ref E (e_fresh E) n a attrs
  end.

Definition conv_sem (E : env) (cv : aconv) (s : str) : outcome val :=
  match cv with
  | CvRaw | CvIntern => Ok (VStr s)
  | CvEnum n => match assoc_str s (e_lit E n) with Some v => Ok (VEnum v) | None => Panic end
  | CvBool => omap VBool (convert_to_bool s)
  | CvUint => omap VInt (convert_to_uint s)
  | CvInt => omap VInt (convert_to_int s)
  | CvImmInt => omap (fun z => VCtor "Imm" [VInt z]) (convert_to_int s)
  | CvPNode => Ok (VCtor "PNode" [VStr s])
  end.

Definition attr_req (E : env) (cv : aconv) (o : option str) : outcome val :=
  match o with Some s => conv_sem E cv s | None => Panic end.
Definition attr_opt (E : env) (cv : aconv) (d : dflt_v) (o : option str) : outcome val :=
  match o with
  | Some s => omap (fun v => match d with DNone => VSome v | DVal _ => v end) (conv_sem E cv s)
  | None => Ok (match d with DNone => VNone | DVal x => x end)
  end.

(* parse_if(T1).or_else(|| parse_if(T2)).. *)
Fixpoint alt {A} (tags : list str) (p : P A) : P (option A) :=
  match tags with
  | [] => ret None
  | [t] => parse_if t p
  | t :: r => or_else (parse_if t p) (alt r p)
  end.

Definition opt_val (d : dflt_v) (o : option (val * log)) : val * log :=
  match o with
  | Some vl => (match d with DNone => VSome (fst vl) | DVal _ => fst vl end, snd vl)
  | None => (match d with DNone => VNone | DVal x => x end, [])
  end.
Definition list_val (l : list (val * log)) : val * log := (VList (map fst l), List.concat (map snd l)).

(* a nested element parsed by another impl: own attributes, own cursor, left-over children ignored *)
Definition nested (E : env) (impl : string) (attrs : list (str * str)) (ch : list xml) : outcome (val * log) :=
  match e_ref E (e_fresh E) impl None attrs ch with Ok (vl, _) => Ok vl | Err e => Err e | Panic => Panic end.
Definition stored (variant : string) (idpath : list string) (vl : val * log) : val * log :=
  (path idpath (fst vl), snd vl ++ [VCtor variant [fst vl]]).

(* while let Some(n) = node.next_if(T) { nested .. } : fresh_id() is called once per nested element *)
Fixpoint rep_nested (fuel : nat) (E : env) (tag : str) (impl variant : string) (idpath : list string)
  : P (list (val * log)) :=
  match fuel with
  | O => fun _ => Err E_FUEL
  | S f => let! x := next_if tag in
           match x with
           | Some (attrs, ch) =>
               let! e := lift (nested E impl attrs ch) in
               let! r := rep_nested f (mkEnv (e_ref E) (e_lit E) (e_deduce E) (e_tag E) (e_fresh E + 1)) tag impl variant idpath in
               ret (stored variant idpath e :: r)
           | None => ret []
           end
  end.

(* while let Some(n) = node.next() { nested .. } : nothing has looked at the tag of n before, so the tag assertion at
   the head of the nested impl is part of the meaning (a debug build panics on any other element) *)
Definition tag_ok (want : option str) (t : str) : bool := match want with Some x => str_eqb t x | None => true end.
Fixpoint rep_all (E : env) (impl : string) (c : list xml) : outcome (list (val * log)) :=
  match c with
  | [] => Ok []
  | Elem t attrs ch :: r =>
      if tag_ok (e_tag E impl) t then
        let? e := nested E impl attrs ch in let? es := rep_all E impl r in Ok (e :: es)
      else Panic
  | _ :: r => rep_all E impl r
  end.

Definition vimm (ctor : string) (v : val) : val := VCtor ctor [v].

Definition step_sem (E : env) (targ : option ety) (attrs : list (str * str)) (loc : locals) (s : step) : W :=
  match s with
  | SAttrReq a cv => lift (omap (fun v => (v, [])) (attr_req E cv (attribute_of a attrs)))
  | SAttrOpt a cv d => lift (omap (fun v => (v, [])) (attr_opt E cv d (attribute_of a attrs)))
  | SPeekAttrReq a cv => let! o := peek_attr a in lift (omap (fun v => (v, [])) (attr_req E cv o))
  | SPeekAttrOpt a cv => let! o := peek_attr a in lift (omap (fun v => (v, [])) (attr_opt E cv DNone o))
  | SReq ty => elem_sem E targ attrs ty
  | SOpt tags ty d => mapP (opt_val d) (alt tags (elem_sem E targ attrs ty))
  | SRep tags ty => mapP list_val (loop (alt tags (elem_sem E targ attrs ty)))
  | SOptHex tag =>
      let! x := next_if tag in
      match x with
      | Some (_, ch) => let! z := lift (from_str_radix false 16 (text_of ch)) in ret (VSome (VInt z), [])
      | None => ret (VNone, [])
      end
  | SValueOrRef tag yes no =>
      let! x := next_if tag in
      match x with
      | Some (_, ch) => ret (vimm yes (VStr (text_of ch)), [])
      | None => let! t := next_text in ret (vimm no (VStr t), [])
      end
  | SHexOrRef tag ptag yes no =>
      let! x := next_if tag in
      match x with
      | Some (_, ch) => let! z := lift (from_str_radix false 16 (text_of ch)) in ret (VSome (vimm yes (VInt z)), [])
      | None => let! y := next_if ptag in
                match y with
                | Some (_, ch) => ret (VSome (vimm no (VStr (text_of ch))), [])
                | None => ret (VNone, [])
                end
      end
  | SRepNested tag impl variant idpath =>
      fun c => mapP list_val (rep_nested (S (List.length c)) E tag impl variant idpath) c
  | SRepAllNested impl => fun c => omap (fun l => (list_val l, @nil xml)) (rep_all E impl c)
  | SIntern x => ret (lookup x loc, [])
  | SFreshName x =>
      ret (match lookup x loc with VStr s => VStr (36 :: s ++ 95 :: print_dec (e_fresh E)) | v => v end, [])
  | SRecord fs => ret (VRec (map (fun fl => (fst fl, lookup (snd fl) loc)) fs), [])
  | SDeduce fn x from =>
      ret (match lookup x loc with VSome v => v | _ => vimm "Imm" (e_deduce E fn (lookup from loc)) end, [])
  | SExtend a b =>
      ret (match lookup a loc, lookup b loc with VList x, VList y => VList (x ++ y) | v, _ => v end, [])
  | STake r f => ret (field f (lookup r loc), [])
  | SCleared r f => ret (match lookup r loc with VRec l => VRec (set_field f (VList []) l) | v => v end, [])
  | SBoolSel v on off =>
      ret (match lookup v loc with
           | VCtor "Imm" [VBool b] => vimm "Imm" (if b then lookup on loc else lookup off loc)
           | x => x
           end, [])
  | SXor a b =>
      ret (match lookup a loc, lookup b loc with
           | VSome x, VNone => VSome x
           | VNone, VSome y => VSome y
           | _, _ => VNone
           end, [])
  | SAssertEmpty r f =>
      match field f (lookup r loc) with
      | VList (_ :: _) => fail
      | _ => ret (lookup r loc, [])
      end
  end.

(* the statements in program order; the newest binding of a local shadows the older ones *)
Fixpoint run_steps (E : env) (targ : option ety) (attrs : list (str * str)) (ss : list (string * step))
  (loc : locals) (lg : log) (k : locals -> log -> W) : W :=
  match ss with
  | [] => k loc lg
  | (x, s) :: r =>
      let! vl := step_sem E targ attrs loc s in
      run_steps E targ attrs r ((x, fst vl) :: loc) (lg ++ snd vl) k
  end.

Definition record (result : list (string * string)) (loc : locals) : val :=
  VRec (map (fun fl => (fst fl, lookup (snd fl) loc)) result).

Fixpoint cond_sem (c : cond) (t : str) : outcome bool :=
  match c with
  | CAlpha => match t with [] => Panic | ch :: _ => Ok (is_alpha ch) end
  | CTextEq s => Ok (str_eqb t s)
  | CBoolWord => Ok (match convert_to_bool_opt t with Some _ => true | None => false end)
  | CNot a => omap negb (cond_sem a t)
  | COr a b => let? x := cond_sem a t in if x then Ok true else cond_sem b t
  end.

Fixpoint find_arm (t : str) (arms : list (list str * arm)) : option arm :=
  match arms with
  | [] => None
  | (ts, a) :: r => if mem_str t ts then Some a else find_arm t r
  end.

Definition arm_sem (E : env) (targ : option ety) (attrs : list (str * str)) (a : arm) : W :=
  match a with
  | AParse ctor ty => wmap (vimm ctor) (elem_sem E targ attrs ty)
  | ANested ctor impl variant idpath =>
      let! e := next_elem in
      match e with
      | Some (_, attrs', ch) =>
          let! vl := lift (nested E impl attrs' ch) in
          let r := stored variant idpath vl in
          ret (vimm ctor (fst r), snd r)
      | None => fail
      end
  end.

Definition run_body (E : env) (targ : option ety) (attrs : list (str * str)) (b : body) : W :=
  match b with
  | BStruct steps result =>
      run_steps E targ attrs steps [] [] (fun loc lg => ret (record result loc, lg))
  | BSniff c yes no =>
      let! t := peek_text in
      match cond_sem c t with
      | Ok true => wmap (vimm (fst yes)) (elem_sem E targ attrs (snd yes))
      | Ok false => wmap (vimm (fst no)) (elem_sem E targ attrs (snd no))
      | _ => fail
      end
  | BTagMatch arms =>
      let! t := peek_tag in
      match find_arm t arms with
      | Some a => arm_sem E targ attrs a
      | None => fail
      end
  | BOptElse tag ty ctor steps ctor2 result =>
      let! b := parse_if tag (elem_sem E targ attrs ty) in
      match b with
      | Some vl => ret (vimm ctor (fst vl), snd vl)
      | None => run_steps E targ attrs steps [] [] (fun loc lg => ret (vimm ctor2 (record result loc), lg))
      end
  end.
