(* Independent statement of the GenApi formula grammar used by the C05 round-trip theorems:
   the standard's precedence / associativity table, operator spellings, function and constant
   names, and the two printers (minimal and full parentheses) derived from that table alone.
   Nothing here refers to the parser model's own operator tables (level_ops, func_of_name). *)
From Cam Require Import Outcome Formula FormulaSyntax.

(* Precedence levels of the GenApi formula grammar (higher binds tighter):
     0  ?:  (right)      1 ||    2 &&    3 |    4 ^    5 &    6 = <>    7 < <= > >=
     8 << >>    9 + -    10 * / %    11 unary ~ -    12 ** (right, exponent may be a unary)
     13 literals, identifiers, function calls, parentheses.
   Binary levels 1..10 are left associative. *)
Definition binop_level (k : binop) : nat :=
  match k with
  | BOr => 1 | BAnd => 2 | BBitOr => 3 | BXor => 4 | BBitAnd => 5
  | BEq | BNe => 6
  | BLt | BLe | BGt | BGe => 7
  | BShl | BShr => 8
  | BAdd | BSub => 9
  | BMul | BDiv | BRem => 10
  | BPow => 12
  end.
Definition binop_tok (k : binop) : token :=
  match k with
  | BAdd => TPlus | BSub => TMinus | BMul => TStar | BDiv => TSlash | BRem => TPercent
  | BPow => TDoubleStar | BShl => TShl | BShr => TShr | BAnd => TDoubleAnd | BOr => TDoubleOr
  | BEq => TEq | BNe => TNe | BLt => TLt | BLe => TLe | BGt => TGt | BGe => TGe
  | BBitAnd => TAnd | BBitOr => TOr | BXor => TCaret
  end.
(* function names of the GenApi standard (upper-case ASCII) *)
Definition unop_name (k : unop) : ident :=
  match k with
  | UNot => [126]                                  (* no function form; printed as prefix ~ *)
  | UAbs => [65; 66; 83] | USgn => [83; 71; 78] | UNeg => [78; 69; 71]
  | USin => [83; 73; 78] | UCos => [67; 79; 83] | UTan => [84; 65; 78]
  | UAsin => [65; 83; 73; 78] | UAcos => [65; 67; 79; 83] | UAtan => [65; 84; 65; 78]
  | UExp => [69; 88; 80] | ULn => [76; 78] | ULg => [76; 71] | USqrt => [83; 81; 82; 84]
  | UTrunc => [84; 82; 85; 78; 67] | UFloor => [70; 76; 79; 79; 82] | UCeil => [67; 69; 73; 76]
  | URound => [82; 79; 85; 78; 68]
  end.

Definition prec (e : expr) : nat :=
  match e with
  | EIf _ _ _ => 0
  | EBin k _ _ => binop_level k
  | EUn UNot _ | EUn UNeg _ => 11
  | _ => 13
  end.
Definition is_leaf (e : expr) : bool :=
  match e with EInt _ | EFloat _ | EIdent _ => true | _ => false end.

(* [pr full c e]: the tokens of e in a position that accepts level >= c; parentheses are added
   when the level of e is lower (minimal), or around every compound expression (full). *)
Fixpoint pr (full : bool) (c : nat) (e : expr) : list token :=
  let body :=
    match e with
    | EIf a b d => pr full 1 a ++ TQuestion :: pr full 0 b ++ TColon :: pr full 0 d
    | EBin BPow a b => pr full 13 a ++ TDoubleStar :: pr full 11 b
    | EBin k a b => pr full (binop_level k) a ++ binop_tok k :: pr full (S (binop_level k)) b
    | EUn UNot a => TTilde :: pr full 11 a
    | EUn UNeg a => TMinus :: pr full 11 a
    | EUn k a => TIdent (unop_name k) :: TLParen :: pr full 0 a ++ [TRParen]
    | EInt i => [TInteger i]
    | EFloat b => [TFloat b]
    | EIdent s => [TIdent s]
    end in
  if (full && negb (is_leaf e)) || (prec e <? c)%nat then TLParen :: body ++ [TRParen] else body.

Definition pp_min (e : expr) : list token := pr false 0 e.
Definition pp_full (e : expr) : list token := pr true 0 e.

(* functions and constants of the GenApi standard's formula language (SwissKnife / Converter) *)
Definition std_functions : list unop :=
  [UNeg; USin; UCos; UTan; UAsin; UAcos; UAtan; UAbs; USgn; UExp; ULn; ULg; USqrt; UTrunc; UFloor;
   UCeil; URound].
Definition PI_BITS : Z := 4614256656552045848.    (* 0x400921FB54442D18 *)
Definition E_BITS : Z := 4613303445314885481.     (* 0x4005BF0A8B145769 *)
Definition std_constants : list (ident * Z) := [([80; 73], PI_BITS); ([69], E_BITS)].

(* well-formed for the round trip: identifiers are not constant names *)
Fixpoint wf_expr (e : expr) : Prop :=
  match e with
  | EBin _ a b => wf_expr a /\ wf_expr b
  | EUn _ a => wf_expr a
  | EIf a b c => wf_expr a /\ wf_expr b /\ wf_expr c
  | EIdent s => lookup s std_constants = None
  | _ => True
  end.


(* ------------------------------------------------------------------------- *)
(* Spelling of tokens as source bytes (surface syntax of the formula language):
   operators raw or with the XML escapes &amp; &lt; &gt;, identifiers, decimal and 0x integers,
   decimal floats; tokens are separated by white space. *)
Definition op_chars (t : token) : list Z :=
  match t with
  | TLParen => [40] | TRParen => [41] | TPlus => [43] | TMinus => [45] | TStar => [42]
  | TDoubleStar => [42; 42] | TSlash => [47] | TPercent => [37] | TAnd => [38]
  | TDoubleAnd => [38; 38] | TOr => [124] | TDoubleOr => [124; 124] | TCaret => [94]
  | TTilde => [126] | TEq => [61] | TNe => [60; 62] | TColon => [58] | TQuestion => [63]
  | TLt => [60] | TLe => [60; 61] | TGt => [62] | TGe => [62; 61] | TShl => [60; 60]
  | TShr => [62; 62]
  | _ => []
  end.
Definition esc_char (c : Z) : list Z :=
  if c =? 38 then [38; 97; 109; 112; 59]          (* &amp; *)
  else if c =? 60 then [38; 108; 116; 59]         (* &lt; *)
  else if c =? 62 then [38; 103; 116; 59]         (* &gt; *)
  else [c].
Definition xml_escape (cs : list Z) : list Z := flat_map esc_char cs.
Definition is_op (t : token) : Prop := tok_code t < 24.
Definition is_ws (c : Z) : Prop := c = 32 \/ c = 9 \/ c = 10 \/ c = 13.

Section Spelling.
  Variable fops : float_ops.

  Inductive spells : token -> list Z -> Prop :=
  | sp_op t : is_op t -> spells t (op_chars t)
  | sp_op_esc t : is_op t -> spells t (xml_escape (op_chars t))
  | sp_ident c cs :
      is_alpha c = true -> forallb is_ident_char cs = true -> spells (TIdent (c :: cs)) (c :: cs)
  | sp_dec c cs :
      is_digit c = true -> forallb is_digit cs = true -> digits_val 10 (c :: cs) <= I64_MAX ->
      spells (TInteger (digits_val 10 (c :: cs))) (c :: cs)
  | sp_hex h hs :
      is_hex h = true -> forallb is_hex hs = true -> digits_val 16 (h :: hs) <= I64_MAX ->
      spells (TInteger (digits_val 16 (h :: hs))) (48 :: 120 :: h :: hs)
  | sp_float c cs :
      is_digit c = true -> forallb is_num_char cs = true -> count_dots (c :: cs) = 1%nat ->
      spells (TFloat (f_lit fops (c :: cs))) (c :: cs)
  | sp_float_dot d ds :
      is_digit d = true -> forallb is_digit ds = true ->
      spells (TFloat (f_lit fops (46 :: d :: ds))) (46 :: d :: ds).

  (* a source text for a token sequence: every token preceded by at least one white-space
     character, optional trailing white space *)
  Inductive spells_all : list token -> list Z -> Prop :=
  | sa_nil ws : Forall is_ws ws -> spells_all [] ws
  | sa_cons t ts w ws cs src :
      is_ws w -> Forall is_ws ws -> spells t cs -> spells_all ts src ->
      spells_all (t :: ts) (w :: ws ++ cs ++ src).
End Spelling.

(* ------------------------------------------------------------------------- *)
(* Tight spelling: white space only where the lexer needs it.

   A spelled token is a token with one of its spellings.  Operators may mix raw and escaped
   characters (`&amp;&`, `<&gt;`, ...).  [follow_bad a w] says that the (entity-decoded) character
   w directly after the spelling of a would be absorbed into a, or would change it:
     `*` before `*`;  `|` before `|`;  `&` before `&`;  `<` before `>` `=` `<`;  `>` before `=` `>`;
     an identifier before a letter, digit, `.` or `_`;  a decimal number before a digit or `.`
     (and the text `0` before `x`);  a 0x number before a hex digit;  `.5` before a digit.
   [needs_space a b] looks at the first decoded character of b's spelling. *)
Fixpoint variants (cs : list Z) : list (list Z) :=
  match cs with
  | [] => [[]]
  | c :: r =>
      let vs := variants r in
      map (cons c) vs ++
      (if (c =? 38) || (c =? 60) || (c =? 62) then map (app (esc_char c)) vs else [])
  end.

Definition stok : Type := token * list Z.

Definition dec_first (cs : list Z) : Z :=
  match next_char cs with Some (c, _) => c | None => 0 end.
Definition starts_dot (cs : list Z) : bool := match cs with c :: _ => c =? 46 | [] => false end.
Definition is_zero_text (cs : list Z) : bool := match cs with [c] => c =? 48 | _ => false end.
Definition is_hex_text (cs : list Z) : bool :=
  match cs with a :: b :: _ => (a =? 48) && (b =? 120) | _ => false end.

Definition follow_bad (a : stok) (w : Z) : bool :=
  match fst a with
  | TStar => w =? 42
  | TOr => w =? 124
  | TAnd => w =? 38
  | TLt => (w =? 62) || (w =? 61) || (w =? 60)
  | TGt => (w =? 61) || (w =? 62)
  | TIdent _ => is_ident_char w
  | TFloat _ => if starts_dot (snd a) then is_digit w else is_num_char w
  | TInteger _ =>
      if is_hex_text (snd a) then is_hex w
      else is_num_char w || (is_zero_text (snd a) && (w =? 120))
  | _ => false
  end.
Definition needs_space (a b : stok) : bool := follow_bad a (dec_first (snd b)).

Fixpoint render_min_space (l : list stok) : list Z :=
  match l with
  | [] => []
  | a :: r =>
      snd a ++
      match r with
      | [] => []
      | b :: _ => if needs_space a b then [32] else []
      end ++ render_min_space r
  end.

Section TightSpelling.
  Variable fops : float_ops.

  Inductive spellx : token -> list Z -> Prop :=
  | sx_plain t cs : spells fops t cs -> spellx t cs
  | sx_mixed t cs : is_op t -> In cs (variants (op_chars t)) -> spellx t cs.

  Definition spelled (a : stok) : Prop := spellx (fst a) (snd a).

  (* General source texts: any white space may be put in front of a token and at the end; it MUST
     be there only between a and b with needs_space a b. *)
  Inductive spelt : list stok -> list Z -> Prop :=
  | st_nil ws : Forall is_ws ws -> spelt [] ws
  | st_cons a r ws src :
      Forall is_ws ws -> spelled a -> spelt r src ->
      (match r with
       | [] => True
       | b :: _ => needs_space a b = false \/ exists w s, src = w :: s /\ is_ws w
       end) ->
      spelt (a :: r) (ws ++ snd a ++ src).
End TightSpelling.

(* ------------------------------------------------------------------------- *)
(* Loose printing at token level: [prints c e ts] - ts is a print of e for a position that
   accepts level >= c, with the necessary parentheses, any number of redundant ones, the function
   form NEG(x) as well as prefix -x, and an optional unary plus in front of a power-level operand
   wherever the grammar accepts it. *)
Inductive prints : nat -> expr -> list token -> Prop :=
| pt_paren c e ts : prints 0 e ts -> prints c e (TLParen :: ts ++ [TRParen])
| pt_plus c e ts : (c <= 11)%nat -> prints 12 e ts -> prints c e (TPlus :: ts)
| pt_if c a b d ta tb td :
    c = 0%nat -> prints 1 a ta -> prints 0 b tb -> prints 0 d td ->
    prints c (EIf a b d) (ta ++ TQuestion :: tb ++ TColon :: td)
| pt_pow c a b ta tb :
    (c <= 12)%nat -> prints 13 a ta -> prints 11 b tb ->
    prints c (EBin BPow a b) (ta ++ TDoubleStar :: tb)
| pt_bin c k a b ta tb :
    k <> BPow -> (c <= binop_level k)%nat ->
    prints (binop_level k) a ta -> prints (S (binop_level k)) b tb ->
    prints c (EBin k a b) (ta ++ binop_tok k :: tb)
| pt_not c a ta : (c <= 11)%nat -> prints 11 a ta -> prints c (EUn UNot a) (TTilde :: ta)
| pt_neg c a ta : (c <= 11)%nat -> prints 11 a ta -> prints c (EUn UNeg a) (TMinus :: ta)
| pt_fun c k a ta :
    k <> UNot -> prints 0 a ta ->
    prints c (EUn k a) (TIdent (unop_name k) :: TLParen :: ta ++ [TRParen])
| pt_int c i : prints c (EInt i) [TInteger i]
| pt_float c b : prints c (EFloat b) [TFloat b]
| pt_ident c s : lookup s std_constants = None -> prints c (EIdent s) [TIdent s].
