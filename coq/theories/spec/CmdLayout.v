(* Independent decoder of U3V command packets, written from the layout in the
   USB3 Vision specification (prefix 0x43563355 "U3VC", CCD: flags, command id,
   SCD length, request id; then the SCD of ReadMem / WriteMem / ReadMemStacked /
   WriteMemStacked).  All fields little endian. *)
From Cam Require Import Outcome Bytes.

Inductive dcmd :=
| DRead (a n : Z)
| DWrite (a : Z) (data : list Z)
| DReadStacked (es : list (Z * Z))
| DWriteStacked (es : list (Z * list Z)).

(* take an n-byte little-endian field off the front *)
Definition get_le (n : nat) (bs : list Z) : option (Z * list Z) :=
  if Z.of_nat n <=? zlen bs then Some (of_le (firstn n bs), skipn n bs) else None.

Definition get_bytes (n : Z) (bs : list Z) : option (list Z * list Z) :=
  if (0 <=? n) && (n <=? zlen bs) then Some (take n bs, drop n bs) else None.

Fixpoint dec_read_entries (fuel : nat) (bs : list Z) : option (list (Z * Z)) :=
  match bs with
  | [] => Some []
  | _ =>
    match fuel with
    | O => None
    | S f =>
      match get_le 8 bs with
      | Some (a, r1) =>
        match get_le 2 r1 with
        | Some (rsv, r2) =>
          match get_le 2 r2 with
          | Some (n, r3) =>
            if rsv =? 0 then option_map (cons (a, n)) (dec_read_entries f r3) else None
          | None => None
          end
        | None => None
        end
      | None => None
      end
    end
  end.

Fixpoint dec_write_entries (fuel : nat) (bs : list Z) : option (list (Z * list Z)) :=
  match bs with
  | [] => Some []
  | _ =>
    match fuel with
    | O => None
    | S f =>
      match get_le 8 bs with
      | Some (a, r1) =>
        match get_le 2 r1 with
        | Some (rsv, r2) =>
          match get_le 2 r2 with
          | Some (n, r3) =>
            match get_bytes n r3 with
            | Some (d, r4) =>
              if rsv =? 0 then option_map (cons (a, d)) (dec_write_entries f r4) else None
            | None => None
            end
          | None => None
          end
        | None => None
        end
      | None => None
      end
    end
  end.

Definition spec_decode (bs : list Z) : option (dcmd * Z) :=
  match get_le 4 bs with
  | Some (magic, r1) =>
    match get_le 2 r1 with
    | Some (flag, r2) =>
      match get_le 2 r2 with
      | Some (kind, r3) =>
        match get_le 2 r3 with
        | Some (sl, r4) =>
          match get_le 2 r4 with
          | Some (id, scd) =>
            if (magic =? 0x43563355) && (flag =? 0x4000) && (zlen scd =? sl) then
              if kind =? 0x0800 then
                match dec_read_entries 1 scd with
                | Some [(a, n)] => Some (DRead a n, id)
                | _ => None
                end
              else if kind =? 0x0802 then
                match get_le 8 scd with
                | Some (a, d) => Some (DWrite a d, id)
                | None => None
                end
              else if kind =? 0x0806 then
                option_map (fun es => (DReadStacked es, id)) (dec_read_entries (length scd) scd)
              else if kind =? 0x0808 then
                option_map (fun es => (DWriteStacked es, id)) (dec_write_entries (length scd) scd)
              else None
            else None
          | None => None
          end
        | None => None
        end
      | None => None
      end
    | None => None
    end
  | None => None
  end.

(* Length of the acknowledge a conforming device sends for a command:
   12-byte header + SCD; a pending acknowledge (4-byte SCD) is allowed for any command. *)
Definition conforming_ack_lens (c : dcmd) : list Z :=
  12 + 4 ::
  match c with
  | DRead _ n => [12 + n]
  | DWrite _ _ => [12 + 4]
  | DReadStacked es => [12 + fold_right (fun e acc => snd e + acc) 0 es]
  | DWriteStacked es => [12 + 4 * zlen es]
  end.
