(* Independent specification for C13, typed in by hand from the standards (not derived from the code):

   - GenCP 1.x, "Technology Agnostic Bootstrap Register Map" (ABRM), the manifest table and
     manifest entry layout, the Device Capability / Device Configuration bit assignments;
   - USB3 Vision 1.x, "Technology Specific Bootstrap Register Map" (SBRM), "Streaming Interface
     Register Map" (SIRM), "Event Interface Register Map" (EIRM), U3VCP capability bits, current
     speed bits, SI_INFO / SI_CONTROL fields.

   Field extraction is written with div / mod on the little-endian value of the register
   (the code uses shifts and masks), registers are (offset, length) pairs, bit 0 is the least
   significant bit of the little-endian value. *)
From Cam Require Export Outcome Bytes.

(* ---- register tables: (offset, length in bytes), in address order ------------------------- *)

Definition std_abrm : list (Z * Z) := [
  (0x0000, 4);   (* GenCP Version *)
  (0x0004, 64);  (* Manufacturer Name *)
  (0x0044, 64);  (* Model Name *)
  (0x0084, 64);  (* Family Name *)
  (0x00C4, 64);  (* Device Version *)
  (0x0104, 64);  (* Manufacturer Info *)
  (0x0144, 64);  (* Serial Number *)
  (0x0184, 64);  (* User Defined Name *)
  (0x01C4, 8);   (* Device Capability *)
  (0x01CC, 4);   (* Maximum Device Response Time *)
  (0x01D0, 8);   (* Manifest Table Address *)
  (0x01D8, 8);   (* SBRM Address *)
  (0x01E0, 8);   (* Device Configuration *)
  (0x01E8, 4);   (* Heartbeat Timeout *)
  (0x01EC, 4);   (* Message Channel ID *)
  (0x01F0, 8);   (* Timestamp *)
  (0x01F8, 4);   (* Timestamp Latch *)
  (0x01FC, 8);   (* Timestamp Increment *)
  (0x0204, 4);   (* Access Privilege *)
  (0x0208, 4);   (* Protocol Endianness *)
  (0x020C, 4);   (* Implementation Endianness *)
  (0x0210, 64)   (* Device Software Interface Version *)
].

Definition std_sbrm : list (Z * Z) := [
  (0x00, 4);   (* U3V Version *)
  (0x04, 8);   (* U3VCP Capability Register *)
  (0x0C, 8);   (* U3VCP Configuration Register *)
  (0x14, 4);   (* Maximum Command Transfer Length *)
  (0x18, 4);   (* Maximum Acknowledge Transfer Length *)
  (0x1C, 4);   (* Number of Stream Channels *)
  (0x20, 8);   (* SIRM Address *)
  (0x28, 4);   (* SIRM Length *)
  (0x2C, 8);   (* EIRM Address *)
  (0x34, 4);   (* EIRM Length *)
  (0x38, 8);   (* IIDC2 Address *)
  (0x40, 4)    (* Current Speed *)
].

Definition std_eirm : list (Z * Z) := [
  (0x00, 4);   (* EI Control *)
  (0x04, 4);   (* Maximum Event Transfer Length *)
  (0x08, 4)    (* Event Test Control *)
].

Definition std_sirm : list (Z * Z) := [
  (0x00, 4);   (* SI Info *)
  (0x04, 4);   (* SI Control *)
  (0x08, 8);   (* SI Required Payload Size *)
  (0x10, 4);   (* SI Required Leader Size *)
  (0x14, 4);   (* SI Required Trailer Size *)
  (0x18, 4);   (* SI Maximum Leader Size *)
  (0x1C, 4);   (* SI Payload Transfer Size *)
  (0x20, 4);   (* SI Payload Transfer Count *)
  (0x24, 4);   (* SI Payload Final Transfer1 Size *)
  (0x28, 4);   (* SI Payload Final Transfer2 Size *)
  (0x2C, 4)    (* SI Maximum Trailer Size *)
].

(* a manifest entry is 64 bytes; the last 20 are reserved *)
Definition std_manifest_entry : list (Z * Z) := [
  (0x00, 4);   (* GenICam File Version *)
  (0x04, 4);   (* Schema / File Type / File Format *)
  (0x08, 8);   (* Register Address of the file *)
  (0x10, 8);   (* File Size *)
  (0x18, 20)   (* SHA1 Hash *)
].

(* manifest table: 8-byte entry count, then the 64-byte entries *)
Definition std_manifest_count : Z * Z := (0, 8).
Definition std_manifest_first_entry : Z := 8.
Definition std_manifest_entry_size : Z := 64.

(* ---- the API vocabulary -------------------------------------------------------------------- *)

Inductive regmap := ABRM | SBRM | SIRM | MTAB | MENT.

Inductive getter :=
| GGencpVersion | GManufacturerName | GModelName | GFamilyName | GDeviceVersion | GManufacturerInfo
| GSerialNumber | GUserDefinedName | GManifestTableAddress | GSbrmAddress | GTimestamp
| GTimestampIncrement | GDeviceSoftwareInterfaceVersion | GMaximumDeviceResponseTime
| GDeviceConfiguration
| GU3vVersion | GMaximumCommandTransferLength | GMaximumAcknowledgeTransferLength
| GNumberOfStreamChannel | GSirmAddress | GSirmLength | GEirmAddress | GEirmLength | GIidc2Address
| GCurrentSpeed
| GPayloadSizeAlignment | GIsStreamEnable | GRequiredPayloadSize | GRequiredLeaderSize
| GRequiredTrailerSize | GMaximumLeaderSize | GMaximumTrailerSize | GPayloadTransferSize
| GPayloadTransferCount | GPayloadFinalTransfer1Size | GPayloadFinalTransfer2Size
| GEntryCount
| GGenicamFileVersion | GFileAddress | GFileSize | GFileInfo | GSha1Hash.

Definition all_getters : list getter := [
  GGencpVersion; GManufacturerName; GModelName; GFamilyName; GDeviceVersion; GManufacturerInfo;
  GSerialNumber; GUserDefinedName; GManifestTableAddress; GSbrmAddress; GTimestamp;
  GTimestampIncrement; GDeviceSoftwareInterfaceVersion; GMaximumDeviceResponseTime;
  GDeviceConfiguration;
  GU3vVersion; GMaximumCommandTransferLength; GMaximumAcknowledgeTransferLength;
  GNumberOfStreamChannel; GSirmAddress; GSirmLength; GEirmAddress; GEirmLength; GIidc2Address;
  GCurrentSpeed;
  GPayloadSizeAlignment; GIsStreamEnable; GRequiredPayloadSize; GRequiredLeaderSize;
  GRequiredTrailerSize; GMaximumLeaderSize; GMaximumTrailerSize; GPayloadTransferSize;
  GPayloadTransferCount; GPayloadFinalTransfer1Size; GPayloadFinalTransfer2Size;
  GEntryCount;
  GGenicamFileVersion; GFileAddress; GFileSize; GFileInfo; GSha1Hash ].

(* error classes of cameleon::ControlError *)
Definition CE_IO : Z := 42.
Definition CE_INVALID_DEVICE : Z := 45.
Definition CE_INVALID_DATA : Z := 47.

(* decoded values *)
Inductive val :=
| VInt (z : Z)                                  (* u32 / u64 / usize / milliseconds *)
| VVer (major minor patch : Z)                  (* semver::Version *)
| VStr (s : list Z)                             (* the UTF-8 bytes of the String *)
| VBool (b : bool)
| VSpeed (k : Z)                                (* 0 Low, 1 Full, 2 High, 3 Super, 4 SuperPlus *)
| VFileInfo (ftype comp : outcome Z) (smajor sminor : Z)
| VHash (h : option (list Z))
| VNone
| VSome (v : val).

(* ---- which register each accessor is about (standard's assignment) ------------------------ *)

Definition std_getter_reg (g : getter) : regmap * (Z * Z) :=
  match g with
  | GGencpVersion => (ABRM, (0x0000, 4))
  | GManufacturerName => (ABRM, (0x0004, 64))
  | GModelName => (ABRM, (0x0044, 64))
  | GFamilyName => (ABRM, (0x0084, 64))
  | GDeviceVersion => (ABRM, (0x00C4, 64))
  | GManufacturerInfo => (ABRM, (0x0104, 64))
  | GSerialNumber => (ABRM, (0x0144, 64))
  | GUserDefinedName => (ABRM, (0x0184, 64))
  | GMaximumDeviceResponseTime => (ABRM, (0x01CC, 4))
  | GManifestTableAddress => (ABRM, (0x01D0, 8))
  | GSbrmAddress => (ABRM, (0x01D8, 8))
  | GDeviceConfiguration => (ABRM, (0x01E0, 8))
  | GTimestamp => (ABRM, (0x01F0, 8))
  | GTimestampIncrement => (ABRM, (0x01FC, 8))
  | GDeviceSoftwareInterfaceVersion => (ABRM, (0x0210, 64))
  | GU3vVersion => (SBRM, (0x00, 4))
  | GMaximumCommandTransferLength => (SBRM, (0x14, 4))
  | GMaximumAcknowledgeTransferLength => (SBRM, (0x18, 4))
  | GNumberOfStreamChannel => (SBRM, (0x1C, 4))
  | GSirmAddress => (SBRM, (0x20, 8))
  | GSirmLength => (SBRM, (0x28, 4))
  | GEirmAddress => (SBRM, (0x2C, 8))
  | GEirmLength => (SBRM, (0x34, 4))
  | GIidc2Address => (SBRM, (0x38, 8))
  | GCurrentSpeed => (SBRM, (0x40, 4))
  | GPayloadSizeAlignment => (SIRM, (0x00, 4))
  | GIsStreamEnable => (SIRM, (0x04, 4))
  | GRequiredPayloadSize => (SIRM, (0x08, 8))
  | GRequiredLeaderSize => (SIRM, (0x10, 4))
  | GRequiredTrailerSize => (SIRM, (0x14, 4))
  | GMaximumLeaderSize => (SIRM, (0x18, 4))
  | GPayloadTransferSize => (SIRM, (0x1C, 4))
  | GPayloadTransferCount => (SIRM, (0x20, 4))
  | GPayloadFinalTransfer1Size => (SIRM, (0x24, 4))
  | GPayloadFinalTransfer2Size => (SIRM, (0x28, 4))
  | GMaximumTrailerSize => (SIRM, (0x2C, 4))
  | GEntryCount => (MTAB, (0, 8))
  | GGenicamFileVersion => (MENT, (0x00, 4))
  | GFileInfo => (MENT, (0x04, 4))
  | GFileAddress => (MENT, (0x08, 8))
  | GFileSize => (MENT, (0x10, 8))
  | GSha1Hash => (MENT, (0x18, 20))
  end.

(* the table the register must be a member of *)
Definition std_table (m : regmap) : list (Z * Z) :=
  match m with
  | ABRM => std_abrm
  | SBRM => std_sbrm
  | SIRM => std_sirm
  | MTAB => [std_manifest_count]
  | MENT => std_manifest_entry
  end.

(* capability bits (bit number in the capability register of the map: ABRM Device Capability,
   SBRM U3VCP Capability) *)
Definition CAP_USER_DEFINED_NAME : Z := 0.
Definition CAP_FAMILY_NAME : Z := 8.
Definition CAP_MULTI_EVENT : Z := 12.
Definition CAP_STACKED_COMMANDS : Z := 13.
Definition CAP_DEVICE_SOFTWARE_INTERFACE_VERSION : Z := 14.
Definition U3VCAP_SIRM : Z := 0.
Definition U3VCAP_EIRM : Z := 1.
Definition U3VCAP_IIDC2 : Z := 2.
Definition CFG_MULTI_EVENT_ENABLE : Z := 1.

(* optional registers: the accessor returns an Option and is gated by this capability bit *)
Definition std_getter_gate (g : getter) : option Z :=
  match g with
  | GFamilyName => Some CAP_FAMILY_NAME
  | GUserDefinedName => Some CAP_USER_DEFINED_NAME
  | GDeviceSoftwareInterfaceVersion => Some CAP_DEVICE_SOFTWARE_INTERFACE_VERSION
  | GSirmAddress | GSirmLength => Some U3VCAP_SIRM
  | GEirmAddress | GEirmLength => Some U3VCAP_EIRM
  | GIidc2Address => Some U3VCAP_IIDC2
  | _ => None
  end.

Definition spec_bit (w k : Z) : bool := (w / 2 ^ k) mod 2 =? 1.

(* ---- field layouts -------------------------------------------------------------------------- *)

(* first NUL terminates; a register without NUL is used in full *)
Fixpoint until_nul (bs : list Z) : list Z :=
  match bs with
  | [] => []
  | b :: r => if b =? 0 then [] else b :: until_nul r
  end.

(* Well-formed UTF-8 (Unicode, table 3-7): what std::str::from_utf8 accepts. *)
Definition in_rng (lo hi b : Z) : bool := (lo <=? b) && (b <=? hi).
Definition cont (b : Z) : bool := in_rng 0x80 0xBF b.

Fixpoint utf8_valid (bs : list Z) : bool :=
  match bs with
  | [] => true
  | b0 :: r =>
    if in_rng 0 0x7F b0 then utf8_valid r
    else if in_rng 0xC2 0xDF b0 then
      match r with b1 :: r1 => cont b1 && utf8_valid r1 | _ => false end
    else if in_rng 0xE0 0xEF b0 then
      match r with
      | b1 :: b2 :: r2 =>
        (if b0 =? 0xE0 then in_rng 0xA0 0xBF b1
         else if b0 =? 0xED then in_rng 0x80 0x9F b1
         else cont b1) && cont b2 && utf8_valid r2
      | _ => false
      end
    else if in_rng 0xF0 0xF4 b0 then
      match r with
      | b1 :: b2 :: b3 :: r3 =>
        (if b0 =? 0xF0 then in_rng 0x90 0xBF b1
         else if b0 =? 0xF4 then in_rng 0x80 0x8F b1
         else cont b1) && cont b2 && cont b3 && utf8_valid r3
      | _ => false
      end
    else false
  end.

(* Unicode scalar values and their UTF-8 encoding (Unicode 3.9, table 3-6): the meaning of
   utf8_valid (theorem C13_string_spec: utf8_valid accepts exactly the encodings of scalar values) *)
Definition scalar (c : Z) : Prop := 0 <= c < 0xD800 \/ 0xE000 <= c < 0x110000.

Definition utf8_encode (c : Z) : list Z :=
  if c <? 0x80 then [c]
  else if c <? 0x800 then [0xC0 + c / 64; 0x80 + c mod 64]
  else if c <? 0x10000 then [0xE0 + c / 4096; 0x80 + (c / 64) mod 64; 0x80 + c mod 64]
  else [0xF0 + c / 262144; 0x80 + (c / 4096) mod 64; 0x80 + (c / 64) mod 64; 0x80 + c mod 64].

Definition is_ascii (s : list Z) : bool := forallb (fun c => c <? 128) s.
Definition has_nul (s : list Z) : bool := existsb (fun c => c =? 0) s.

(* what kind of content the register of an accessor has *)
Inductive kind :=
| KVersion32        (* minor: bits 0..15, major: bits 16..31 *)
| KFileVersion      (* sub-minor: bits 0..15, minor: bits 16..23, major: bits 24..31 *)
| KString           (* NUL-terminated (or full length) string *)
| KUInt             (* little-endian unsigned integer of the register's length *)
| KMillis           (* duration in ms *)
| KSpeed            (* exactly one of bits 0..4 *)
| KAlignment        (* SI_INFO: bits 24..31 = exponent of the payload size alignment *)
| KStreamEnable     (* SI_CONTROL: bit 0 *)
| KFileInfo         (* file type: bits 0..2; file format: bits 10..15; schema minor: 16..23; major: 24..31 *)
| KHash.            (* 20 bytes, all zero = not available *)

Definition std_kind (g : getter) : kind :=
  match g with
  | GGencpVersion | GU3vVersion => KVersion32
  | GGenicamFileVersion => KFileVersion
  | GManufacturerName | GModelName | GFamilyName | GDeviceVersion | GManufacturerInfo
  | GSerialNumber | GUserDefinedName | GDeviceSoftwareInterfaceVersion => KString
  | GMaximumDeviceResponseTime => KMillis
  | GCurrentSpeed => KSpeed
  | GPayloadSizeAlignment => KAlignment
  | GIsStreamEnable => KStreamEnable
  | GFileInfo => KFileInfo
  | GSha1Hash => KHash
  | _ => KUInt
  end.

Definition spec_enum2 (raw : Z) : outcome Z :=
  if raw =? 0 then Ok 0 else if raw =? 1 then Ok 1 else Err CE_INVALID_DEVICE.

(* [bs] = the bytes of the register (exactly its length) *)
Definition spec_decode (k : kind) (bs : list Z) : outcome val :=
  let w := of_le bs in
  match k with
  | KVersion32 => Ok (VVer (w / 2 ^ 16) (w mod 2 ^ 16) 0)
  | KFileVersion => Ok (VVer (w / 2 ^ 24) ((w / 2 ^ 16) mod 2 ^ 8) (w mod 2 ^ 16))
  | KString =>
    let s := until_nul bs in
    if utf8_valid s then Ok (VStr s) else Err CE_INVALID_DEVICE
  | KUInt => Ok (VInt w)
  | KMillis => Ok (VInt w)
  | KSpeed =>
    if w =? 2 ^ 0 then Ok (VSpeed 0) else if w =? 2 ^ 1 then Ok (VSpeed 1)
    else if w =? 2 ^ 2 then Ok (VSpeed 2) else if w =? 2 ^ 3 then Ok (VSpeed 3)
    else if w =? 2 ^ 4 then Ok (VSpeed 4) else Err CE_INVALID_DEVICE
  | KAlignment =>
    (* the sizes to be aligned are 32-bit registers: an alignment of 2^32 or more is unusable *)
    let e := w / 2 ^ 24 in
    if e <? 32 then Ok (VInt (2 ^ e)) else Err CE_INVALID_DEVICE
  | KStreamEnable => Ok (VBool (spec_bit w 0))
  | KFileInfo =>
    Ok (VFileInfo (spec_enum2 (w mod 2 ^ 3)) (spec_enum2 ((w / 2 ^ 10) mod 2 ^ 6))
                  (w / 2 ^ 24) ((w / 2 ^ 16) mod 2 ^ 8))
  | KHash => if forallb (fun b => b =? 0) bs then Ok (VHash None) else Ok (VHash (Some bs))
  end.

(* an accessor of an optional register wraps its value in Some *)
Definition spec_wrap (g : getter) (v : outcome val) : outcome val :=
  match std_getter_gate g with
  | Some _ => omap VSome v
  | None => v
  end.

(* ---- setters -------------------------------------------------------------------------------- *)

Inductive setter :=
| SUserDefinedName (name : list Z)
| STimestampLatch
| SDeviceConfiguration (raw : Z)
| SEnableStream | SDisableStream
| SMaximumLeaderSize (v : Z) | SMaximumTrailerSize (v : Z) | SPayloadTransferSize (v : Z)
| SPayloadTransferCount (v : Z) | SPayloadFinalTransfer1Size (v : Z) | SPayloadFinalTransfer2Size (v : Z).

Definition std_setter_reg (s : setter) : regmap * (Z * Z) :=
  match s with
  | SUserDefinedName _ => (ABRM, (0x0184, 64))
  | STimestampLatch => (ABRM, (0x01F8, 4))
  | SDeviceConfiguration _ => (ABRM, (0x01E0, 8))
  | SEnableStream | SDisableStream => (SIRM, (0x04, 4))
  | SMaximumLeaderSize _ => (SIRM, (0x18, 4))
  | SMaximumTrailerSize _ => (SIRM, (0x2C, 4))
  | SPayloadTransferSize _ => (SIRM, (0x1C, 4))
  | SPayloadTransferCount _ => (SIRM, (0x20, 4))
  | SPayloadFinalTransfer1Size _ => (SIRM, (0x24, 4))
  | SPayloadFinalTransfer2Size _ => (SIRM, (0x28, 4))
  end.

(* the argument is acceptable (u32 / u64 ranges come from the Rust types; a name must be ASCII
   without NUL and fit the register) *)
Definition setter_arg_ok (s : setter) : bool :=
  match s with
  | SUserDefinedName n => is_ascii n && negb (has_nul n) && (zlen n <=? 64) && forallb (fun c => 0 <=? c) n
  | SDeviceConfiguration raw => (0 <=? raw) && (raw <? 2 ^ 64)
  | SMaximumLeaderSize v | SMaximumTrailerSize v | SPayloadTransferSize v | SPayloadTransferCount v
  | SPayloadFinalTransfer1Size v | SPayloadFinalTransfer2Size v => (0 <=? v) && (v <? 2 ^ 32)
  | _ => true
  end.

(* the little-endian image that must be written to exactly the register *)
Definition std_setter_image (s : setter) : list Z :=
  match s with
  | SUserDefinedName n => n ++ repeat 0 (Z.to_nat (64 - zlen n))
  | STimestampLatch => le_bytes 4 1
  | SDeviceConfiguration raw => le_bytes 8 raw
  | SEnableStream => le_bytes 4 1
  | SDisableStream => le_bytes 4 0
  | SMaximumLeaderSize v | SMaximumTrailerSize v | SPayloadTransferSize v | SPayloadTransferCount v
  | SPayloadFinalTransfer1Size v | SPayloadFinalTransfer2Size v => le_bytes 4 v
  end.

(* the paired getter and the value it must return afterwards *)
Definition std_setter_getter (s : setter) : option (getter * val) :=
  match s with
  | SUserDefinedName n => Some (GUserDefinedName, VSome (VStr n))
  | STimestampLatch => None
  | SDeviceConfiguration raw => Some (GDeviceConfiguration, VInt raw)
  | SEnableStream => Some (GIsStreamEnable, VBool true)
  | SDisableStream => Some (GIsStreamEnable, VBool false)
  | SMaximumLeaderSize v => Some (GMaximumLeaderSize, VInt v)
  | SMaximumTrailerSize v => Some (GMaximumTrailerSize, VInt v)
  | SPayloadTransferSize v => Some (GPayloadTransferSize, VInt v)
  | SPayloadTransferCount v => Some (GPayloadTransferCount, VInt v)
  | SPayloadFinalTransfer1Size v => Some (GPayloadFinalTransfer1Size, VInt v)
  | SPayloadFinalTransfer2Size v => Some (GPayloadFinalTransfer2Size, VInt v)
  end.
