(* C18 — specification, written from the property text (not from the code):

     "A feature is reported readable exactly when it is implemented, available, its imposed and
      register access modes permit reading, and everything it draws its value from is readable; it
      is reported writable exactly when it is additionally not locked, the access modes permit
      writing and its value target(s) are writable.  ... constants are never writable ..."

   The store / node datatypes are those of model/Access.v (they are data, not behaviour); the
   classification of kinds, the choice of the indexed entry and the truth of a controlling node are
   restated here.  The current values are abstract:
     ival m = Some v   the node m, read as a number, currently has the value v
     bval m = Some b   the Boolean node m currently has the value b
   (None: the node cannot be evaluated).  The theorems instantiate them with the model's [val] /
   [bool_value]. *)
From Cam Require Import Outcome Access.

Definition IntegerKind (k : kind) : Prop :=
  match k with KInteger | KIntReg | KMaskedIntReg | KIntConverter | KIntSwissKnife => True | _ => False end.
Definition FloatKind (k : kind) : Prop :=
  match k with KFloat | KFloatReg | KConverter | KSwissKnife => True | _ => False end.
Definition StringKind (k : kind) : Prop :=
  match k with KString | KStringReg => True | _ => False end.
(* a node that can stand for a number: integer, float or enumeration feature *)
Definition NumericKind (k : kind) : Prop := IntegerKind k \/ FloatKind k \/ k = KEnumeration.
(* a node that can be a formula variable / converter target: number or boolean *)
Definition VarKind (k : kind) : Prop := NumericKind k \/ k = KBoolean.
Definition RegisterKind (k : kind) : Prop :=
  match k with KIntReg | KMaskedIntReg | KFloatReg | KStringReg => True | _ => False end.

(* kinds whose value comes from a <Value> / <pValue> / <pIndex> element *)
Definition ValuedKind (k : kind) : Prop :=
  match k with KInteger | KFloat | KBoolean | KEnumeration | KCommand | KString => True | _ => False end.

(* the entry of a pIndex selected by the current index: the first <ValueIndexed Index=i>, else the default *)
Definition entry_for (i : Z) (es : list (Z * iop)) (d : iop) : iop :=
  match find (fun e => fst e =? i) es with
  | Some e => snd e
  | None => d
  end.

Section Spec.
Variable s : store.
Variable ival : nat -> option Z.
Variable bval : nat -> option bool.

Definition kd (m : nat) : kind := kind_of s m.

(* a controlling node says "yes": a Boolean that is true, or an integer feature whose value is 1 *)
Definition Truth (c : nat) : Prop :=
  (kd c = KBoolean /\ bval c = Some true) \/ (IntegerKind (kd c) /\ ival c = Some 1).
(* ... can be evaluated at all *)
Definition Decided (c : nat) : Prop :=
  (kd c = KBoolean /\ bval c <> None) \/ (IntegerKind (kd c) /\ ival c <> None).

Definition Implemented (nd : node) : Prop := forall c, p_impl nd = Some c -> Truth c.
Definition Available (nd : node) : Prop := forall c, p_avail nd = Some c -> Truth c.
Definition Locked (nd : node) : Prop := exists c, p_lock nd = Some c /\ Truth c.

Definition BaseR (nd : node) : Prop :=
  Implemented nd /\ Available nd /\ (imposed nd = RO \/ imposed nd = RW).
Definition BaseW (nd : node) : Prop :=
  Implemented nd /\ Available nd /\ ~ Locked nd /\ (imposed nd = WO \/ imposed nd = RW).

(* --- what a value is drawn from ------------------------------------------------------------ *)
(* an immediate / a value held by the description is readable; a node must be a readable number *)
Definition SrcOk (R : nat -> Prop) (i : iop) : Prop :=
  forall m, i = INode m -> NumericKind (kd m) /\ R m.
Definition StrSrcOk (R : nat -> Prop) (i : iop) : Prop :=
  forall m, i = INode m -> StringKind (kd m) /\ R m.
Definition VarOk (R : nat -> Prop) (m : nat) : Prop := VarKind (kd m) /\ R m.
Definition VarsOk (R : nat -> Prop) (l : list nat) : Prop := forall m, In m l -> VarOk R m.

Definition ValueReadable (R : nat -> Prop) (v : vsrc) : Prop :=
  (forall i, v = VOne i -> SrcOk R i) /\
  (forall p cs, v = VPValue p cs -> SrcOk R (INode p)) /\
  (forall idx es d, v = VPIndex idx es d ->
     IntegerKind (kd idx) /\ R idx /\ exists i, ival idx = Some i /\ SrcOk R (entry_for i es d)).

Inductive Readable : nat -> Prop :=
| R_valued : forall n nd, nth_error s n = Some nd ->
    nkind nd = KInteger \/ nkind nd = KFloat ->
    BaseR nd -> ValueReadable Readable (nvalue nd) -> Readable n
| R_simple : forall n nd i, nth_error s n = Some nd ->
    nkind nd = KBoolean \/ nkind nd = KEnumeration ->
    BaseR nd -> nvalue nd = VOne i -> SrcOk Readable i -> Readable n
| R_string : forall n nd i, nth_error s n = Some nd ->
    nkind nd = KString ->
    BaseR nd -> nvalue nd = VOne i -> StrSrcOk Readable i -> Readable n
| R_register : forall n nd, nth_error s n = Some nd ->
    RegisterKind (nkind nd) ->
    BaseR nd -> regmode nd <> WO -> Readable n
| R_converter : forall n nd, nth_error s n = Some nd ->
    nkind nd = KIntConverter \/ nkind nd = KConverter ->
    BaseR nd -> VarOk Readable (conv_pvalue nd) -> VarsOk Readable (vars nd) -> Readable n
| R_swissknife : forall n nd, nth_error s n = Some nd ->
    nkind nd = KIntSwissKnife \/ nkind nd = KSwissKnife ->
    BaseR nd -> VarsOk Readable (vars nd) -> Readable n.

(* --- what a value is written to ------------------------------------------------------------ *)
(* a constant (immediate) is never a target; a value held by the description is; a node must be a
   writable number *)
Definition TargetOk (W : nat -> Prop) (i : iop) : Prop :=
  (forall v, i <> IImm v) /\ forall m, i = INode m -> NumericKind (kd m) /\ W m.
Definition StrTargetOk (W : nat -> Prop) (i : iop) : Prop :=
  (forall v, i <> IImm v) /\ forall m, i = INode m -> StringKind (kd m) /\ W m.

Definition ValueWritable (W : nat -> Prop) (v : vsrc) : Prop :=
  (forall i, v = VOne i -> TargetOk W i) /\
  (forall p cs, v = VPValue p cs -> forall m, m = p \/ In m cs -> NumericKind (kd m) /\ W m) /\
  (forall idx es d, v = VPIndex idx es d ->
     IntegerKind (kd idx) /\ Readable idx /\ exists i, ival idx = Some i /\ TargetOk W (entry_for i es d)).

Inductive Writable : nat -> Prop :=
| W_valued : forall n nd, nth_error s n = Some nd ->
    nkind nd = KInteger \/ nkind nd = KFloat ->
    BaseW nd -> ValueWritable Writable (nvalue nd) -> Writable n
| W_simple : forall n nd i, nth_error s n = Some nd ->
    nkind nd = KBoolean \/ nkind nd = KEnumeration \/ nkind nd = KCommand ->
    BaseW nd -> nvalue nd = VOne i -> TargetOk Writable i -> Writable n
| W_string : forall n nd i, nth_error s n = Some nd ->
    nkind nd = KString ->
    BaseW nd -> nvalue nd = VOne i -> StrTargetOk Writable i -> Writable n
| W_register : forall n nd, nth_error s n = Some nd ->
    RegisterKind (nkind nd) ->
    BaseW nd -> regmode nd <> RO -> Writable n
| W_converter : forall n nd, nth_error s n = Some nd ->
    nkind nd = KIntConverter \/ nkind nd = KConverter ->
    BaseW nd -> VarOk Writable (conv_pvalue nd) -> VarsOk Readable (vars nd) -> Writable n.
(* no rule for swiss knives: they are never writable *)

End Spec.

(* --- acyclic stores ------------------------------------------------------------------------- *)
(* every node a node refers to *)
Definition iop_refs (i : iop) : list nat := match i with INode m => [m] | _ => [] end.
Definition vsrc_refs (v : vsrc) : list nat :=
  match v with
  | VOne i => iop_refs i
  | VPValue p cs => p :: cs
  | VPIndex idx es d => idx :: flat_map (fun e => iop_refs (snd e)) es ++ iop_refs d
  end.
Definition opt_refs (o : option nat) : list nat := match o with Some c => [c] | None => [] end.
Definition refs (nd : node) : list nat :=
  opt_refs (p_impl nd) ++ opt_refs (p_avail nd) ++ opt_refs (p_lock nd) ++
  match nkind nd with
  | KInteger | KFloat | KBoolean | KEnumeration | KCommand | KString => vsrc_refs (nvalue nd)
  | KIntConverter | KConverter => conv_pvalue nd :: vars nd
  | KIntSwissKnife | KSwissKnife => vars nd
  | _ => []
  end.
(* a rank that decreases along every reference (e.g. the position in a topologically sorted store) *)
Definition Acyclic (s : store) (rank : nat -> nat) : Prop :=
  forall n nd m, nth_error s n = Some nd -> In m (refs nd) -> (rank m < rank n)%nat.

(* every pIsLocked node of the store can currently be evaluated *)
Definition LocksDecided (s : store) (ival : nat -> option Z) (bval : nat -> option bool) : Prop :=
  forall n nd c, nth_error s n = Some nd -> p_lock nd = Some c -> Decided s ival bval c.

(* --- stores on which the queries cannot fail ------------------------------------------------- *)
(* "Every controlling node and every value source reachable from n evaluates without error and the
   references are well-kinded."  [NodeOk] is the local condition on one node, [Evaluable n] asks it
   of n and of every node n refers to, transitively. *)
Section EvaluableSpec.
Variable s : store.
Variable ival : nat -> option Z.
Variable bval : nat -> option bool.

(* the kind offers an access query at all (Register, Category, Port, EnumEntry, Node do not) *)
Definition HasQuery (k : kind) : Prop := match k with KRegister | KOther => False | _ => True end.

Definition RefKind (P : kind -> Prop) (i : iop) : Prop := forall m, i = INode m -> P (kind_of s m).

Definition ValueOk (v : vsrc) : Prop :=
  match v with
  | VOne i => RefKind NumericKind i
  | VPValue p cs => forall m, m = p \/ In m cs -> NumericKind (kind_of s m)
  | VPIndex idx es d =>
    IntegerKind (kind_of s idx) /\ ival idx <> None /\
    (forall j e, In (j, e) es -> RefKind NumericKind e) /\ RefKind NumericKind d
  end.

Definition NodeOk (nd : node) : Prop :=
  HasQuery (nkind nd) /\
  (* pIsImplemented / pIsAvailable / pIsLocked are Boolean or integer features that evaluate *)
  (forall c, p_impl nd = Some c \/ p_avail nd = Some c \/ p_lock nd = Some c -> Decided s ival bval c) /\
  match nkind nd with
  | KInteger | KFloat => ValueOk (nvalue nd)
  | KBoolean | KEnumeration | KCommand => exists i, nvalue nd = VOne i /\ RefKind NumericKind i
  | KString => exists i, nvalue nd = VOne i /\ RefKind StringKind i
  | KIntConverter | KConverter =>
    VarKind (kind_of s (conv_pvalue nd)) /\ forall m, In m (vars nd) -> VarKind (kind_of s m)
  | KIntSwissKnife | KSwissKnife => forall m, In m (vars nd) -> VarKind (kind_of s m)
  | _ => True
  end.

Inductive Evaluable : nat -> Prop :=
| Ev_node : forall n nd, nth_error s n = Some nd -> NodeOk nd ->
    (forall m, In m (refs nd) -> Evaluable m) -> Evaluable n.

End EvaluableSpec.
