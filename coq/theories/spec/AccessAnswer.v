(* C18 — the complete answer of the access queries, for every store and state (no hypothesis that
   anything evaluates): which outcome — Ok true, Ok false, an error of which class, a panic — and
   where it comes from.

   Written as fuel-free relations [RAns n o] / [WAns n o] ("is_readable / is_writable of n answers
   o") over abstract current values
       cv c : outcome bool   what the controlling node c says (a Boolean's value / integer = 1),
                             or how its evaluation fails
       xv m : outcome Z      the value of the index node m, or how its evaluation fails
   The order of evaluation is part of the statement:
     - [seq a b]: a first; b is looked at only when a answered Ok true  (Rust `a? && b?`)
     - [amp os]:  all of os in order, the first failure wins, otherwise the conjunction (`x &= f()?`)
   A node's answer is  seq (implemented) (seq (available) (seq [not locked] (seq (imposed mode) rest)))
   so the first controlling node that fails to evaluate, in the order pIsImplemented, pIsAvailable,
   pIsLocked, determines the error, and nothing after it is consulted. *)
From Cam Require Import Outcome Access AccessSpec.

Definition seq (a b : outcome bool) : outcome bool :=
  match a with Ok true => b | _ => a end.

Fixpoint first_failure (os : list (outcome bool)) : option (outcome bool) :=
  match os with
  | [] => None
  | Ok _ :: r => first_failure r
  | x :: _ => Some x
  end.
Definition says_yes (o : outcome bool) : bool := match o with Ok true => true | _ => false end.
Definition amp (os : list (outcome bool)) : outcome bool :=
  match first_failure os with
  | Some x => x
  | None => Ok (forallb says_yes os)
  end.

(* a failed evaluation of a number, as the failure of the query that needed it *)
Definition after_value (x : outcome Z) (o : outcome bool) : outcome bool :=
  match x with Ok _ => o | Err e => Err e | Panic => Panic end.

Definition E_KIND : Z := 32.      (* InvalidNode: a reference of a kind that cannot stand there *)
Definition E_NOQUERY : Z := 90.   (* the node has no such query (harness-level code) *)

Section Answer.
Variable s : store.
Variable cv : nat -> outcome bool.
Variable xv : nat -> outcome Z.

Definition ctl_ans (r : option nat) (dflt : bool) : outcome bool :=
  match r with None => Ok dflt | Some c => cv c end.
Definition not_ans (o : outcome bool) : outcome bool :=
  match o with Ok b => Ok (negb b) | x => x end.
Definition reads (m : amode) : bool := match m with WO => false | _ => true end.
Definition writes (m : amode) : bool := match m with RO => false | _ => true end.

(* implemented, then available, then the imposed access mode *)
Definition base_r_ans (nd : node) : outcome bool :=
  seq (ctl_ans (p_impl nd) true) (seq (ctl_ans (p_avail nd) true) (Ok (reads (imposed nd)))).
(* implemented, available, not locked, imposed access mode *)
Definition base_w_ans (nd : node) : outcome bool :=
  seq (ctl_ans (p_impl nd) true) (seq (ctl_ans (p_avail nd) true)
    (seq (not_ans (ctl_ans (p_lock nd) false)) (Ok (writes (imposed nd))))).

(* --- answers of references, given the answers [A] of nodes --------------------------------- *)
(* a number drawn from a node: the node's answer if it is a numeric feature, "no" otherwise *)
Definition NumAns (A : nat -> outcome bool -> Prop) (m : nat) (o : outcome bool) : Prop :=
  (NumericKind (kd s m) -> A m o) /\ (~ NumericKind (kd s m) -> o = Ok false).
(* [lit]: the answer for a literal (readable: yes, writable: no); a held value: yes *)
Definition IopAns (A : nat -> outcome bool -> Prop) (lit : bool) (i : iop) (o : outcome bool) : Prop :=
  (forall v, i = IImm v -> o = Ok lit) /\ (forall k, i = ISlot k -> o = Ok true) /\
  (forall m, i = INode m -> NumAns A m o).
Definition StrAns (A : nat -> outcome bool -> Prop) (lit : bool) (i : iop) (o : outcome bool) : Prop :=
  (forall v, i = IImm v -> o = Ok lit) /\ (forall k, i = ISlot k -> o = Ok true) /\
  (forall m, i = INode m ->
     (StringKind (kd s m) -> A m o) /\ (~ StringKind (kd s m) -> o = Err E_KIND)).
(* a formula variable / converter target *)
Definition VarAns (A : nat -> outcome bool -> Prop) (m : nat) (o : outcome bool) : Prop :=
  (VarKind (kd s m) -> A m o) /\ (~ VarKind (kd s m) -> o = Err E_KIND).

Definition IsOne (v : vsrc) : Prop := exists i, v = VOne i.

Inductive RAns : nat -> outcome bool -> Prop :=
| RA_dangling : forall n, nth_error s n = None -> RAns n (Err E_NOQUERY)
| RA_noquery : forall n nd, nth_error s n = Some nd ->
    nkind nd = KCommand \/ nkind nd = KRegister \/ nkind nd = KOther -> RAns n (Err E_NOQUERY)
| RA_one : forall n nd i o, nth_error s n = Some nd ->
    nkind nd = KInteger \/ nkind nd = KFloat \/ nkind nd = KBoolean \/ nkind nd = KEnumeration ->
    nvalue nd = VOne i -> IopAns RAns true i o -> RAns n (seq (base_r_ans nd) o)
| RA_pvalue : forall n nd p cs o, nth_error s n = Some nd ->
    nkind nd = KInteger \/ nkind nd = KFloat ->
    nvalue nd = VPValue p cs -> NumAns RAns p o -> RAns n (seq (base_r_ans nd) o)
| RA_pindex : forall n nd idx es d oi oe, nth_error s n = Some nd ->
    nkind nd = KInteger \/ nkind nd = KFloat ->
    nvalue nd = VPIndex idx es d -> IntegerKind (kd s idx) ->
    RAns idx oi -> (forall i, xv idx = Ok i -> IopAns RAns true (entry_for i es d) oe) ->
    RAns n (seq (base_r_ans nd) (seq oi (after_value (xv idx) oe)))
| RA_pindex_kind : forall n nd idx es d, nth_error s n = Some nd ->
    nkind nd = KInteger \/ nkind nd = KFloat ->
    nvalue nd = VPIndex idx es d -> ~ IntegerKind (kd s idx) ->
    RAns n (seq (base_r_ans nd) (Err E_KIND))
| RA_shape : forall n nd, nth_error s n = Some nd ->
    nkind nd = KBoolean \/ nkind nd = KEnumeration \/ nkind nd = KString ->
    ~ IsOne (nvalue nd) -> RAns n (seq (base_r_ans nd) (Err E_KIND))
| RA_string : forall n nd i o, nth_error s n = Some nd -> nkind nd = KString ->
    nvalue nd = VOne i -> StrAns RAns true i o -> RAns n (seq (base_r_ans nd) o)
| RA_register : forall n nd, nth_error s n = Some nd -> RegisterKind (nkind nd) ->
    RAns n (seq (base_r_ans nd) (Ok (reads (regmode nd))))
| RA_converter : forall n nd op os, nth_error s n = Some nd ->
    nkind nd = KIntConverter \/ nkind nd = KConverter ->
    VarAns RAns (conv_pvalue nd) op -> Forall2 (VarAns RAns) (vars nd) os ->
    RAns n (seq (base_r_ans nd) (seq op (amp os)))
| RA_swissknife : forall n nd os, nth_error s n = Some nd ->
    nkind nd = KIntSwissKnife \/ nkind nd = KSwissKnife ->
    Forall2 (VarAns RAns) (vars nd) os -> RAns n (seq (base_r_ans nd) (amp os)).

Inductive WAns : nat -> outcome bool -> Prop :=
| WA_dangling : forall n, nth_error s n = None -> WAns n (Err E_NOQUERY)
| WA_noquery : forall n nd, nth_error s n = Some nd ->
    nkind nd = KRegister \/ nkind nd = KOther -> WAns n (Err E_NOQUERY)
| WA_formula : forall n nd, nth_error s n = Some nd ->
    nkind nd = KIntSwissKnife \/ nkind nd = KSwissKnife -> WAns n (Ok false)
| WA_one : forall n nd i o, nth_error s n = Some nd ->
    nkind nd = KInteger \/ nkind nd = KFloat \/ nkind nd = KBoolean \/ nkind nd = KEnumeration \/
    nkind nd = KCommand ->
    nvalue nd = VOne i -> IopAns WAns false i o -> WAns n (seq (base_w_ans nd) o)
| WA_pvalue : forall n nd p cs os, nth_error s n = Some nd ->
    nkind nd = KInteger \/ nkind nd = KFloat ->
    nvalue nd = VPValue p cs -> Forall2 (NumAns WAns) (p :: cs) os ->
    WAns n (seq (base_w_ans nd) (amp os))
| WA_pindex : forall n nd idx es d oi oe, nth_error s n = Some nd ->
    nkind nd = KInteger \/ nkind nd = KFloat ->
    nvalue nd = VPIndex idx es d -> IntegerKind (kd s idx) ->
    RAns idx oi -> (forall i, xv idx = Ok i -> IopAns WAns false (entry_for i es d) oe) ->
    WAns n (seq (base_w_ans nd) (seq oi (after_value (xv idx) oe)))
| WA_pindex_kind : forall n nd idx es d, nth_error s n = Some nd ->
    nkind nd = KInteger \/ nkind nd = KFloat ->
    nvalue nd = VPIndex idx es d -> ~ IntegerKind (kd s idx) ->
    WAns n (seq (base_w_ans nd) (Err E_KIND))
| WA_shape : forall n nd, nth_error s n = Some nd ->
    nkind nd = KBoolean \/ nkind nd = KEnumeration \/ nkind nd = KCommand \/ nkind nd = KString ->
    ~ IsOne (nvalue nd) -> WAns n (seq (base_w_ans nd) (Err E_KIND))
| WA_string : forall n nd i o, nth_error s n = Some nd -> nkind nd = KString ->
    nvalue nd = VOne i -> StrAns WAns false i o -> WAns n (seq (base_w_ans nd) o)
| WA_register : forall n nd, nth_error s n = Some nd -> RegisterKind (nkind nd) ->
    WAns n (seq (base_w_ans nd) (Ok (writes (regmode nd))))
| WA_converter : forall n nd op os, nth_error s n = Some nd ->
    nkind nd = KIntConverter \/ nkind nd = KConverter ->
    VarAns WAns (conv_pvalue nd) op -> Forall2 (VarAns RAns) (vars nd) os ->
    WAns n (seq (base_w_ans nd) (seq op (amp os))).

End Answer.
