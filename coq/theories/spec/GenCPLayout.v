(* Independent specification of GenCP / USB3 Vision acknowledge and event packets,
   written from the packet layout tables (fixed offsets, little endian):

     acknowledge:  0 prefix 0x43563355 | 4 status | 6 command id | 8 SCD length |
                   10 request id | 12.. SCD
     event:        0 prefix 0x45563355 | 4 flags | 6 command id 0x0C00 | 8 SCD length |
                   10 request id | 12.. events: size(2) id(2) timestamp(8) data

   status code: bit 15 = error/fatal, bits 14..13 = namespace (0 GenCP, 1 technology
   (USB3 Vision), 2 device specific, 3 reserved), bits 12..0 = code. *)
From Cam Require Import Outcome Bytes.

Definition le_at (off n : nat) (bs : list Z) : Z := of_le (firstn n (skipn off bs)).

(* ---- status ------------------------------------------------------------- *)

Definition spec_namespace (code : Z) : Z := (code / 8192) mod 4.
Definition spec_fatal (code : Z) : bool := 32768 <=? code.

(* kind numbering as in model/Ack.v: 0..11 GenCP, 100..104 USB3 Vision, 200 device specific *)
Definition spec_status (code : Z) : option Z :=
  if spec_namespace code =? 0 then
    if code =? 0 then Some 0 else
    if code =? 32768 + 1 then Some 1 else       (* GENCP_NOT_IMPLEMENTED *)
    if code =? 32768 + 2 then Some 2 else       (* GENCP_INVALID_PARAMETER *)
    if code =? 32768 + 3 then Some 3 else       (* GENCP_INVALID_ADDRESS *)
    if code =? 32768 + 4 then Some 4 else       (* GENCP_WRITE_PROTECT *)
    if code =? 32768 + 5 then Some 5 else       (* GENCP_BAD_ALIGNMENT *)
    if code =? 32768 + 6 then Some 6 else       (* GENCP_ACCESS_DENIED *)
    if code =? 32768 + 7 then Some 7 else       (* GENCP_BUSY *)
    if code =? 32768 + 11 then Some 8 else      (* GENCP_MSG_TIMEOUT *)
    if code =? 32768 + 14 then Some 9 else      (* GENCP_INVALID_HEADER *)
    if code =? 32768 + 15 then Some 10 else     (* GENCP_WRONG_CONFIG *)
    if code =? 32768 + 4095 then Some 11 else   (* GENCP_ERROR *)
    None
  else if spec_namespace code =? 1 then
    if code =? 32768 + 8192 + 1 then Some 100 else   (* U3V_STATUS_RESEND_NOT_SUPPORTED *)
    if code =? 32768 + 8192 + 2 then Some 101 else   (* U3V_STATUS_DSI_ENDPOINT_HALTED *)
    if code =? 32768 + 8192 + 3 then Some 102 else   (* U3V_STATUS_SI_PAYLOAD_SIZE_NOT_ALIGNED *)
    if code =? 32768 + 8192 + 4 then Some 103 else   (* U3V_STATUS_SI_REGISTERS_INCONSISTENT *)
    if code =? 32768 + 8192 + 5 then Some 104 else   (* U3V_STATUS_DATA_DISCARDED / event endpoint halted *)
    None
  else if spec_namespace code =? 2 then Some 200
  else None.

Definition spec_ack_kind (id : Z) : option Z :=
  if id =? 2049 then Some 0          (* READMEM_ACK  0x0801 *)
  else if id =? 2051 then Some 1     (* WRITEMEM_ACK 0x0803 *)
  else if id =? 2053 then Some 4     (* PENDING_ACK  0x0805 *)
  else if id =? 2055 then Some 2     (* READMEM_STACKED_ACK 0x0807 *)
  else if id =? 2057 then Some 3     (* WRITEMEM_STACKED_ACK 0x0809 *)
  else None.

(* ---- acknowledge header --------------------------------------------------- *)

Record sack := {
  sa_code : Z; sa_status : Z; sa_kind : Z; sa_scd_len : Z; sa_request_id : Z; sa_scd : list Z
}.

Definition spec_ack (bs : list Z) : option sack :=
  if (length bs <? 12)%nat then None else
  if negb (le_at 0 4 bs =? 1129722709) then None else       (* 0x43563355 *)
  match spec_status (le_at 4 2 bs), spec_ack_kind (le_at 6 2 bs) with
  | Some st, Some k =>
    Some {| sa_code := le_at 4 2 bs; sa_status := st; sa_kind := k; sa_scd_len := le_at 8 2 bs;
            sa_request_id := le_at 10 2 bs; sa_scd := skipn 12 bs |}
  | _, _ => None
  end.

(* typed SCD contents, by offset *)
Definition spec_view_data (a : sack) : option (list Z) :=
  if zlen (sa_scd a) <? sa_scd_len a then None else Some (firstn (Z.to_nat (sa_scd_len a)) (sa_scd a)).

Definition spec_view_write (a : sack) : option Z :=
  if (length (sa_scd a) <? 4)%nat then None
  else if le_at 0 2 (sa_scd a) =? 0 then Some (le_at 2 2 (sa_scd a)) else None.

(* ---- encoders: what a conforming device emits ------------------------------- *)

Definition enc_ack (code id rid : Z) (scd : list Z) : list Z :=
  le_bytes 4 1129722709 ++ le_bytes 2 code ++ le_bytes 2 id ++ le_bytes 2 (zlen scd) ++
  le_bytes 2 rid ++ scd.

Definition enc_write_scd (len : Z) : list Z := le_bytes 2 0 ++ le_bytes 2 len.
Definition enc_write_stacked_scd (lens : list Z) : list Z := flat_map enc_write_scd lens.

Record sevent := { se_id : Z; se_timestamp : Z; se_data : list Z }.

(* multi-event form: every event carries its own size *)
Definition enc_event (e : sevent) : list Z :=
  le_bytes 2 (12 + zlen (se_data e)) ++ le_bytes 2 (se_id e) ++ le_bytes 8 (se_timestamp e) ++ se_data e.

Definition enc_event_packet (flag rid : Z) (evs : list sevent) : list Z :=
  let scd := flat_map enc_event evs in
  le_bytes 4 1163277141 ++ le_bytes 2 flag ++ le_bytes 2 3072 ++ le_bytes 2 (zlen scd) ++
  le_bytes 2 rid ++ scd.

(* single-event form: event_size = 0, the data runs to the end of the SCD *)
Definition enc_single_event_packet (flag rid : Z) (e : sevent) : list Z :=
  let scd := le_bytes 2 0 ++ le_bytes 2 (se_id e) ++ le_bytes 8 (se_timestamp e) ++ se_data e in
  le_bytes 4 1163277141 ++ le_bytes 2 flag ++ le_bytes 2 3072 ++ le_bytes 2 (zlen scd) ++
  le_bytes 2 rid ++ scd.
