(* Specification vocabulary of C14: the U3V manifest table as it lies in device memory (USB3
   Vision: 8-byte entry count, then 64-byte entries: file version 4, file-format info 4, register
   address 8, file size 8, SHA-1 20, reserved 20), "the newest DeviceXml entry" (greatest
   (major, minor, sub-minor), the first among equals), and what is assumed about
   DeviceControl::read (the subject of C06 / C07) by the theorems of C14. *)
From Cam Require Export Control.

(* what a read of n bytes at a returns on a device whose memory is segs; a zero-length read
   performs no transaction *)
Definition mem_read (segs : list (Z * list Z)) (a n : Z) : option (list Z) :=
  if (a <? 0) || (2 ^ 64 <? a + n) then None      (* outside the 64 bit address space: refused by the host *)
  else if n <=? 0 then Some [] else seg_read segs a n.

(* a little-endian unsigned register of n bytes at address a holding v *)
Definition u_field (segs : list (Z * list Z)) (a : Z) (n : nat) (v : Z) : Prop :=
  0 <= v < 256 ^ Z.of_nat n /\ mem_read segs a (Z.of_nat n) = Some (le_bytes n v).

Record mentry := { me_ver : Z; me_info : Z; me_addr : Z; me_size : Z; me_hash : list Z }.

Definition entry_at (segs : list (Z * list Z)) (a : Z) (e : mentry) : Prop :=
  0 <= a /\ a + 64 <= 2 ^ 64 /\
  u_field segs a 4 (me_ver e) /\ u_field segs (a + 4) 4 (me_info e) /\
  u_field segs (a + 8) 8 (me_addr e) /\ u_field segs (a + 16) 8 (me_size e) /\
  mem_read segs (a + 24) 20 = Some (me_hash e).

Fixpoint entries_at (segs : list (Z * list Z)) (a : Z) (es : list mentry) : Prop :=
  match es with
  | [] => True
  | e :: r => entry_at segs a e /\ entries_at segs (a + 64) r
  end.

(* the manifest table at address t consists of the entries es *)
Definition table_at (segs : list (Z * list Z)) (t : Z) (es : list mentry) : Prop :=
  0 <= t /\ u_field segs t 8 (zlen es) /\ entries_at segs (t + 8) es.

(* file type (bits 0..2 of the file-format info): 0 = device XML, 1 = buffer XML *)
Definition is_dev (e : mentry) : Prop := me_info e mod 8 = 0.
Definition valid_type (e : mentry) : Prop := me_info e mod 8 = 0 \/ me_info e mod 8 = 1.
(* file format (bits 10..15): 0 = uncompressed, 1 = zip *)
Definition file_format (e : mentry) : Z := (me_info e / 2 ^ 10) mod 64.

(* file version: major = bits 31..24, minor = bits 23..16, sub-minor = bits 15..0 *)
Definition vkey (e : mentry) : Z * Z * Z :=
  ((me_ver e / 2 ^ 24) mod 256, (me_ver e / 2 ^ 16) mod 256, me_ver e mod 2 ^ 16).
Definition lex_lt (a b : Z * Z * Z) : Prop :=
  let '(a1, a2, a3) := a in let '(b1, b2, b3) := b in
  a1 < b1 \/ (a1 = b1 /\ (a2 < b2 \/ (a2 = b2 /\ a3 < b3))).
Definition lex_le (a b : Z * Z * Z) : Prop := lex_lt a b \/ a = b.

(* entry number i is the newest device XML of the table: no device XML entry has a greater
   version and every earlier one has a smaller version *)
Definition newest_at (es : list mentry) (i : nat) (e : mentry) : Prop :=
  nth_error es i = Some e /\ is_dev e /\
  (forall j e', nth_error es j = Some e' -> is_dev e' -> lex_le (vkey e') (vkey e)) /\
  (forall j e', (j < i)%nat -> nth_error es j = Some e' -> is_dev e' -> lex_lt (vkey e') (vkey e)).

(* the SHA-1 register: all zero = no hash available *)
Definition hash_absent (h : list Z) : Prop := Forall (fun b => b = 0) h.

(* Assumptions about DeviceControl::read on the states called good ("an opened handle whose
   ABRM is cached, talking to such a device"), independent of the packet-buffer length:
   - honest: a read may fail at any transaction, never panics, and when it succeeds it returns
     the device memory and leaves the memory as it was;
   - conforming: moreover every read inside the device memory succeeds. *)
Definition honest_reads (good : st -> Prop) : Prop :=
  (forall c w n, good (c, w) -> good (c_set_buflen c n, w)) /\
  (forall s, good s -> c_abrm (fst s) <> None) /\
  (forall a n s r s', good s -> ctl_read a n s = (r, s') ->
     good s' /\ w_segs (snd s') = w_segs (snd s) /\ r <> Panic /\
     forall d, r = Ok d -> mem_read (w_segs (snd s)) a n = Some d).

Definition conforming_reads (good : st -> Prop) : Prop :=
  honest_reads good /\
  (forall a n s d, good s -> mem_read (w_segs (snd s)) a n = Some d ->
     exists s', ctl_read a n s = (Ok d, s')).

(* the manifest table address known to the handle: the cached one, else ABRM register 0x1D0 *)
Definition manifest_known (mt : option Z) (segs : list (Z * list Z)) (t : Z) : Prop :=
  match mt with Some a => a = t | None => u_field segs 464 8 t end.

(* What the retrieval must return for entry e: the file read completely from the advertised
   address and size, hash-checked when a hash is present, unzipped when flagged as zip (the
   archive must hold exactly one readable file), as text.  [sha1], [unzip] and the bytes-to-text
   conversion [text_of] (String::from_utf8_lossy; the identity on well-formed UTF-8) are parameters. *)
Section Document.
Variable sha1 : list Z -> list Z.
Variable unzip : list Z -> option (list (option (list Z))).
Variable text_of : list Z -> list Z.

Definition doc_rel (format : Z) (file text : list Z) : Prop :=
  (format = 0 /\ text = text_of file) \/
  (format = 1 /\ exists xml, unzip file = Some [Some xml] /\ text = text_of xml).

Definition doc_spec (segs : list (Z * list Z)) (e : mentry) (text : list Z) : Prop :=
  exists file, mem_read segs (me_addr e) (me_size e) = Some file /\
               (hash_absent (me_hash e) \/ sha1 file = me_hash e) /\
               doc_rel (file_format e) file text.

(* text is the document of the newest device XML entry of the table es (all of whose entries
   have a valid file type) *)
Definition result_spec (segs : list (Z * list Z)) (es : list mentry) (text : list Z) : Prop :=
  exists i e, newest_at es i e /\ Forall valid_type es /\ doc_spec segs e text.
End Document.
