(* Specification vocabulary of C04 (register caching is observationally transparent):
   the hypothesis [Declared] on a register system, the coherence invariant, subsequences.
   Definitions only. *)
From Cam Require Export Cache.

(* two byte ranges share a byte *)
Definition overlap (a l a' l' : Z) : Prop := a < a' + l' /\ a' < a + l.

(* The description declares its dependencies: whenever a cache key of register m (its address
   under some value of the index variables) can overlap the range written by register n (its
   address under some, possibly other, value of the index variables), n is a pInvalidator of m -
   except for the very key n writes, which write_and_cache maintains itself. *)
Definition Declared (y : system) : Prop :=
  forall n m rn rm vs vs' a a',
    node_at y n = Some (NReg rn) -> node_at y m = Some (NReg rm) ->
    address rn vs = Ok a -> address rm vs' = Ok a' ->
    overlap a (g_len rn) a' (g_len rm) ->
    (n = m /\ a = a') \/ In n (g_inval rm).

(* the bytes the device holds at [a, a+l), if the range lies in the image *)
Definition peek (d : dev) (a l : Z) : option (list Z) :=
  if in_image d a l then Some (take l (drop (a - d_base d) (d_mem d))) else None.

(* DESIGN: Coh s := every cache entry equals device memory at its key *)
Definition Coh (s : cst) : Prop :=
  forall n a l bs, In ((n, a, l), bs) (c_cache s) -> peek (c_dev s) a l = Some bs.

(* the full invariant: coherence, and every key is a key the code can produce for a register
   that may be cached *)
Definition entry_ok (y : system) (d : dev) (e : key * list Z) : Prop :=
  (exists r, node_at y (key_node (fst e)) = Some (NReg r) /\ key_len (fst e) = g_len r /\
             cacheable r = true /\ 0 <= g_len r /\ exists vs, address r vs = Ok (key_addr (fst e)))
  /\ peek d (key_addr (fst e)) (key_len (fst e)) = Some (snd e).

Definition Inv (y : system) (s : cst) : Prop := Forall (entry_ok y (c_dev s)) (c_cache s).

(* l1 is a subsequence of l2 *)
Inductive sublist {A : Type} : list A -> list A -> Prop :=
| sub_nil : sublist [] []
| sub_skip : forall x l1 l2, sublist l1 l2 -> sublist l1 (x :: l2)
| sub_cons : forall x l1 l2, sublist l1 l2 -> sublist (x :: l1) (x :: l2).

(* a decidable sufficient condition for [Declared] on systems without index variables *)
Definition overlapb (a l a' l' : Z) : bool := (a <? a' + l') && (a' <? a + l).

Definition static_pair_ok (y : system) (n m : nat) : bool :=
  match nth_error (y_nodes y) n, nth_error (y_nodes y) m with
  | Some (NReg rn), Some (NReg rm) =>
    negb (overlapb (g_base rn) (g_len rn) (g_base rm) (g_len rm)) || (n =? m)%nat
    || zmem (Z.of_nat n) (g_inval rm)
  | _, _ => true
  end.

Definition no_index (c : cnode) : bool :=
  match c with NReg r => match g_index r with [] => true | _ => false end | _ => true end.

Definition declared_static (y : system) : bool :=
  forallb no_index (y_nodes y) &&
  forallb (fun n => forallb (static_pair_ok y n) (seq 0 (length (y_nodes y)))) (seq 0 (length (y_nodes y))).
