(* Specification vocabulary of C04 (register caching is observationally transparent):
   the hypothesis [Declared] on a register system, the coherence invariant, subsequences.
   Definitions only. *)
From Cam Require Export Cache.

(* two byte ranges share a byte *)
Definition overlap (a l a' l' : Z) : Prop := a < a' + l' /\ a' < a + l.

(* The description declares its dependencies, as the property text words it ("pInvalidator for
   every node that can alter ANOTHER register's bytes"): whenever a cache key of register m (its
   address and its length under some value of the index / length variables) can overlap the range
   written by a DIFFERENT register n (its address and length under some, possibly other, value of
   the variables), n is a pInvalidator of m.  One valuation [vs] gives both the address and the
   length of a register, so a variable that is selector and length at once is treated exactly.
   Nothing is asked of a register with respect to its own keys (one address under several lengths,
   selector positions closer than the length): write_and_cache maintains them itself - since the
   third "fix:" commit (fix_own); before it, it did not (P_C04.refuted_ownkeys). *)
Definition Declared (y : system) : Prop :=
  forall n m rn rm vs vs' a a',
    node_at y n = Some (NReg rn) -> node_at y m = Some (NReg rm) -> n <> m ->
    address rn vs = Ok a -> address rm vs' = Ok a' ->
    overlap a (len_of rn vs) a' (len_of rm vs') ->
    In n (g_inval rm).

(* the same under its descriptive name *)
Definition DeclaredOthers (y : system) : Prop := Declared y.

(* the stronger hypothesis the theorems needed before fix_own: a register whose own keys can
   overlap is its own pInvalidator as well *)
Definition DeclaredOwnKeys (y : system) : Prop :=
  forall n m rn rm vs vs' a a',
    node_at y n = Some (NReg rn) -> node_at y m = Some (NReg rm) ->
    address rn vs = Ok a -> address rm vs' = Ok a' ->
    overlap a (len_of rn vs) a' (len_of rm vs') ->
    (n = m /\ a = a' /\ len_of rn vs = len_of rm vs') \/ In n (g_inval rm).

(* the bytes the device holds at [a, a+l), if the range lies in the image *)
Definition peek (d : dev) (a l : Z) : option (list Z) :=
  if in_image d a l then Some (take l (drop (a - d_base d) (d_mem d))) else None.

(* DESIGN: Coh s := every cache entry equals device memory at its key *)
Definition Coh (s : cst) : Prop :=
  forall n a l bs, In ((n, a, l), bs) (c_cache s) -> peek (c_dev s) a l = Some bs.

(* the full invariant: coherence, and every key is a key the code can produce (address and length
   under one valuation of the variables) for a register that may be cached *)
Definition entry_ok (y : system) (d : dev) (e : key * list Z) : Prop :=
  (exists r, node_at y (key_node (fst e)) = Some (NReg r) /\
             cacheable r = true /\ 0 <= key_len (fst e) /\
             exists vs, address r vs = Ok (key_addr (fst e)) /\ len_of r vs = key_len (fst e))
  /\ peek d (key_addr (fst e)) (key_len (fst e)) = Some (snd e).

Definition Inv (y : system) (s : cst) : Prop := Forall (entry_ok y (c_dev s)) (c_cache s).

(* l1 is a subsequence of l2 *)
Inductive sublist {A : Type} : list A -> list A -> Prop :=
| sub_nil : sublist [] []
| sub_skip : forall x l1 l2, sublist l1 l2 -> sublist l1 (x :: l2)
| sub_cons : forall x l1 l2, sublist l1 l2 -> sublist (x :: l1) (x :: l2).

(* a decidable sufficient condition for [Declared] on systems without index and length variables *)
Definition overlapb (a l a' l' : Z) : bool := (a <? a' + l') && (a' <? a + l).

Definition imm_len (r : creg) : Z := match g_len r with LImm l => l | LVar _ => 0 end.

Definition static_pair_ok (y : system) (n m : nat) : bool :=
  match nth_error (y_nodes y) n, nth_error (y_nodes y) m with
  | Some (NReg rn), Some (NReg rm) =>
    negb (overlapb (g_base rn) (imm_len rn) (g_base rm) (imm_len rm)) || (n =? m)%nat
    || zmem (Z.of_nat n) (g_inval rm)
  | _, _ => true
  end.

Definition no_index (c : cnode) : bool :=
  match c with
  | NReg r => match g_index r, g_len r with [], LImm _ => true | _, _ => false end
  | _ => true
  end.

Definition declared_static (y : system) : bool :=
  forallb no_index (y_nodes y) &&
  forallb (fun n => forallb (static_pair_ok y n) (seq 0 (length (y_nodes y)))) (seq 0 (length (y_nodes y))).
