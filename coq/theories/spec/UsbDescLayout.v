(* Independent specification of the two descriptors that cameleon-device decodes by hand, written from the
   layout tables of the standards (fixed offsets, little endian), of the order in which the class-specific
   ("extra") bytes of a configuration are searched, and of what makes a device a USB3 Vision camera.

   Interface Association Descriptor, USB 3.x specification 9.6.4 (8 bytes):
     0 bLength (8) | 1 bDescriptorType (0x0B) | 2 bFirstInterface | 3 bInterfaceCount | 4 bFunctionClass |
     5 bFunctionSubClass | 6 bFunctionProtocol | 7 iFunction

   USB3 Vision Device Info descriptor (class-specific interface descriptor of the control interface, 20 bytes):
     0 bLength (20) | 1 bDescriptorType (0x24) | 2 bDescriptorSubtype (0x01) |
     3 bGenCPVersion (4 bytes: minor in the low, major in the high 16 bits) |
     7 bU3VVersion (4 bytes, likewise) | 11 iDeviceGUID | 12 iVendorName | 13 iModelName | 14 iFamilyName |
     15 iDeviceVersion | 16 iManufacturerInfo | 17 iSerialNumber | 18 iUserDefinedName |
     19 bmSpeedSupport (bit 0 low, 1 full, 2 high, 3 super, 4 super plus)

   USB3 Vision identification: device class 0xEF / 0x02 / 0x01 (Miscellaneous, IAD); function and interface
   class 0xEF, subclass 0x05; interface protocol 0x00 control, 0x01 event, 0x02 streaming. *)
From Cam Require Import Outcome Bytes UsbEnum.

Definition byte_at (bs : list Z) (k : nat) : Z := nth k bs 0.
Definition le16_at (bs : list Z) (k : nat) : Z := byte_at bs k + 256 * byte_at bs (S k).
Definition le32_at (bs : list Z) (k : nat) : Z := le16_at bs k + 65536 * le16_at bs (k + 2).

(* ---- IAD ------------------------------------------------------------------------------------------ *)
Definition spec_iad_at (bs : list Z) (p : nat) : iad :=
  mkIad (byte_at bs p) (byte_at bs (p + 1)) (byte_at bs (p + 2)) (byte_at bs (p + 3))
        (byte_at bs (p + 4)) (byte_at bs (p + 5)) (byte_at bs (p + 6)) (byte_at bs (p + 7)).

(* an interface association as the standard's table lists it *)
Record siad := mkSiad { bFirstInterface : Z; bInterfaceCount : Z; bFunctionClass : Z;
                        bFunctionSubClass : Z; bFunctionProtocol : Z; iFunction : Z }.
Definition encode_iad (d : siad) : list Z :=
  [8; 0x0B; bFirstInterface d; bInterfaceCount d; bFunctionClass d; bFunctionSubClass d;
   bFunctionProtocol d; iFunction d].
Definition iad_of_siad (d : siad) : iad :=
  mkIad 8 0x0B (bFirstInterface d) (bInterfaceCount d) (bFunctionClass d) (bFunctionSubClass d)
        (bFunctionProtocol d) (iFunction d).

(* a chain of descriptors: (bDescriptorType, payload), each encoded as bLength, type, payload *)
Definition enc_desc (x : Z * list Z) : list Z := (2 + zlen (snd x)) :: fst x :: snd x.
Definition enc_chain (ds : list (Z * list Z)) : list Z := flat_map enc_desc ds.
Definition not_iad_desc (x : Z * list Z) : Prop := fst x <> 0x0B.

(* ---- the search order ----------------------------------------------------------------------------- *)
Definition alt_extras (a : alt) : list (list Z) := a_extra a :: map ep_extra (a_eps a).
Definition iface_extras (i : iface) : list (list Z) := flat_map alt_extras (if_alts i).
Definition extras_in_order (c : conf) : list (list Z) := cf_extra c :: flat_map iface_extras (cf_ifaces c).

(* the first byte string, in order, whose first IAD is a USB3 Vision one *)
Fixpoint first_u3v (fb : list Z -> outcome (option iad)) (xs : list (list Z)) : outcome (option iad) :=
  match xs with
  | [] => Ok None
  | x :: r => let? o := u3v_iad_in fb x in
              match o with Some i => Ok (Some i) | None => first_u3v fb r end
  end.

(* ---- Device Info descriptor ------------------------------------------------------------------------ *)
Definition spec_info_valid (bs : list Z) : bool :=
  (20 <=? zlen bs) && (20 <=? byte_at bs 0) && (byte_at bs 1 =? 0x24) && (byte_at bs 2 =? 0x01).

Definition spec_info (bs : list Z) : idesc :=
  mkIdesc (byte_at bs 0) (byte_at bs 1) (byte_at bs 2)
          (le16_at bs 5) (le16_at bs 3)          (* GenCP: major = high half, minor = low half of the field at 3 *)
          (le16_at bs 9) (le16_at bs 7)          (* U3V version, field at 7 *)
          (byte_at bs 11) (byte_at bs 12) (byte_at bs 13) (byte_at bs 14) (byte_at bs 15) (byte_at bs 16)
          (byte_at bs 17) (byte_at bs 18) (byte_at bs 19).

Record sinfo := mkSinfo {
  bGenCPVersion : Z;           (* 32 bits: major * 65536 + minor *)
  bU3VVersion : Z;
  iDeviceGUID : Z; iVendorName : Z; iModelName : Z; iFamilyName : Z; iDeviceVersion : Z;
  iManufacturerInfo : Z; iSerialNumber : Z; iUserDefinedName : Z; bmSpeedSupport : Z }.

Definition sinfo_ok (d : sinfo) : Prop :=
  0 <= bGenCPVersion d < 2 ^ 32 /\ 0 <= bU3VVersion d < 2 ^ 32.

Definition encode_info (d : sinfo) : list Z :=
  [20; 0x24; 0x01] ++ le_bytes 4 (bGenCPVersion d) ++ le_bytes 4 (bU3VVersion d) ++
  [iDeviceGUID d; iVendorName d; iModelName d; iFamilyName d; iDeviceVersion d; iManufacturerInfo d;
   iSerialNumber d; iUserDefinedName d; bmSpeedSupport d].

Definition idesc_of_sinfo (d : sinfo) : idesc :=
  mkIdesc 20 0x24 0x01 (bGenCPVersion d / 65536) (bGenCPVersion d mod 65536)
          (bU3VVersion d / 65536) (bU3VVersion d mod 65536)
          (iDeviceGUID d) (iVendorName d) (iModelName d) (iFamilyName d) (iDeviceVersion d)
          (iManufacturerInfo d) (iSerialNumber d) (iUserDefinedName d) (bmSpeedSupport d).

(* the fastest speed of the mask: highest set bit among bits 0..4 *)
Definition spec_speed (m : Z) : option Z :=
  if m mod 32 =? 0 then None else Some (Z.log2 (m mod 32)).

(* ---- strings -------------------------------------------------------------------------------------- *)
Definition spec_string (d : dev) (i : Z) : option (list Z) :=
  match lookup_str i (d_strs d) with Some (SBytes bs) => Some bs | _ => None end.

(* mandatory strings must be readable; the optional ones are absent iff their index is 0 *)
Definition spec_opt_string (d : dev) (i : Z) : option (option (list Z)) :=
  if i =? 0 then Some None else match spec_string d i with Some s => Some (Some s) | None => None end.

Definition spec_dinfo (d : dev) (x : idesc) : option dinfo :=
  match spec_string d (id_guid x), spec_string d (id_vendor x), spec_string d (id_model x),
        spec_opt_string d (id_family x), spec_string d (id_version x), spec_string d (id_manufacturer x),
        spec_string d (id_serial x), spec_opt_string d (id_user x), spec_speed (id_speed x) with
  | Some guid, Some vendor, Some model, Some family, Some version, Some manuf, Some serial, Some user, Some speed =>
    Some (mkDinfo (id_gencp_major x, id_gencp_minor x) (id_u3v_major x, id_u3v_minor x)
                  guid vendor model family version manuf serial user speed)
  | _, _, _, _, _, _, _, _, _ => None
  end.

(* ---- interface shapes ------------------------------------------------------------------------------ *)
(* control interface: first alternate setting of class 0xEF/0x05/0x00 with exactly one bulk IN and one bulk OUT
   endpoint (in either order) *)
Definition spec_ctrl (i : iface) : option (Z * Z * Z) :=
  let a := if_first i in
  if (a_cls a =? 0xEF) && (a_sub a =? 0x05) && (a_proto a =? 0x00) then
    match a_eps a with
    | [e1; e2] =>
      if ep_is_in e1 && ep_is_out e2 && ep_is_bulk e1 && ep_is_bulk e2 then Some (a_num a, ep_addr e1, ep_addr e2)
      else if ep_is_out e1 && ep_is_in e2 && ep_is_bulk e1 && ep_is_bulk e2 then Some (a_num a, ep_addr e2, ep_addr e1)
      else None
    | _ => None
    end
  else None.

(* receive interface: its first alternate setting numbered 0 is of class 0xEF/0x05, protocol 1 (event) or 2
   (stream), with exactly one endpoint, bulk IN *)
Definition spec_recv (i : iface) : option ((Z * Z) * rkind) :=
  match find (fun a => a_setting a =? 0) (if_alts i) with
  | None => None
  | Some a =>
    if (a_cls a =? 0xEF) && (a_sub a =? 0x05) then
      match a_eps a with
      | [e] =>
        if ep_is_bulk e && ep_is_in e then
          if a_proto a =? 0x01 then Some ((a_num (if_first i), ep_addr e), REvent)
          else if a_proto a =? 0x02 then Some ((a_num (if_first i), ep_addr e), RStream)
          else None
        else None
      | _ => None
      end
    else None
  end.

Fixpoint filter_map {A B} (f : A -> option B) (l : list A) : list B :=
  match l with
  | [] => []
  | x :: r => match f x with Some y => y :: filter_map f r | None => filter_map f r end
  end.

(* at most one event and one stream interface, in either order: (event, stream) *)
Definition spec_classify (rs : list ((Z * Z) * rkind)) : option (option (Z * Z) * option (Z * Z)) :=
  match rs with
  | [] => Some (None, None)
  | [(x, REvent)] => Some (Some x, None)
  | [(x, RStream)] => Some (None, Some x)
  | [(x, REvent); (y, RStream)] => Some (Some x, Some y)
  | [(x, RStream); (y, REvent)] => Some (Some y, Some x)
  | _ => None
  end.

(* ---- which configuration ---------------------------------------------------------------------------- *)
(* pure view of the (total) IAD search of one configuration *)
Definition spec_iad_of (x : list Z) : option iad :=
  match iad_from_bytes x with Ok o => o | _ => None end.
Definition spec_u3v_of (x : list Z) : option iad :=
  match spec_iad_of x with Some i => if is_u3v_iad i then Some i else None | None => None end.
Definition spec_find_config (c : conf) : option iad :=
  match filter_map spec_u3v_of (extras_in_order c) with i :: _ => Some i | [] => None end.

(* configurations 0 .. bNumConfigurations-1 in order: all before the first one with a U3V IAD must be readable *)
Fixpoint spec_pick_config (confs : list conf) (k : nat) (i : nat) : option (iad * conf) :=
  match k with
  | O => None
  | S k' =>
    match nth_error confs i with
    | None => None
    | Some c => if cf_err c =? 0 then
                  match spec_find_config c with
                  | Some x => Some (x, c)
                  | None => spec_pick_config confs k' (S i)
                  end
                else None
    end
  end.

(* ---- the decision ------------------------------------------------------------------------------------ *)
Definition spec_interfaces (x : iad) (c : conf) : option (iface * list iface) :=
  match skip_to (i_first x) (cf_ifaces c) with
  | ctrl :: others => Some (ctrl, others)
  | [] => None
  end.

Definition accept_spec (d : dev) : option devres :=
  if (d_dd_err d =? 0) && (d_cls d =? 0xEF) && (d_sub d =? 0x02) && (d_proto d =? 0x01) then
    match spec_pick_config (d_confs d) (Z.to_nat (d_nconf d)) 0 with
    | None => None
    | Some (x, c) =>
      if (d_open d =? 0) && (d_getcfg_code d =? 0) &&
         ((d_getcfg_val d mod 256 =? cf_value c) || (d_setcfg d =? 0)) then
        match spec_interfaces x c with
        | None => None
        | Some (ctrl, others) =>
          match spec_ctrl ctrl with
          | None => None
          | Some ci =>
            if spec_info_valid (a_extra (if_first ctrl)) then
              match spec_dinfo d (spec_info (a_extra (if_first ctrl))) with
              | None => None
              | Some info =>
                match spec_classify (filter_map spec_recv others) with
                | None => None
                | Some (ev, st) => Some (mkDevres info ci ev st)
                end
              end
            else None
          end
        end
      else None
    end
  else None.

(* the devices of a list that are kept, with their positions *)
Fixpoint accepted_from (i : Z) (ds : list dev) : list (Z * devres) :=
  match ds with
  | [] => []
  | d :: r => match accept_spec d with
              | Some x => (i, x) :: accepted_from (i + 1) r
              | None => accepted_from (i + 1) r
              end
  end.
