(* What "one complete frame the device sent" means for a receiver (C12), stated without any
   host-side buffer: the transfers of a frame are its leader, its payload transfers and its
   trailer; the payload of the frame is the concatenation of the payload transfers as long as they
   are parts of one byte string (each transfer has a fixed place, so a transfer after a short one
   does not continue the data); what is handed over is PayloadBuilder::build (C11) applied to
   that leader, that trailer and exactly those bytes. *)
From Cam Require Export Outcome Bytes Ack Stream Payload StreamLoop.

(* everything a receiver can observe of a payload *)
Record pview := {
  v_id : Z; v_type : Z; v_ts : Z; v_info : option image_info; v_payload : list Z; v_image : option (list Z)
}.

Definition view_of (p : payload) : outcome pview :=
  let? pl := view_payload p in
  let? im := view_image p in
  Ok {| v_id := p_id p; v_type := p_type p; v_ts := p_timestamp p; v_info := p_info p;
        v_payload := pl; v_image := im |}.

Inductive iview := VOk (v : pview) | VErr (c : Z) | VPanic.

Definition item_view (it : item) : iview :=
  match it with
  | IOk p => match view_of p with Ok v => VOk v | _ => VPanic end
  | IErr c => VErr c
  end.

(* the payload bytes of a frame: the transfers up to and including the first short one *)
Fixpoint contig (szs : list Z) (pds : list (list Z)) : list Z :=
  match szs, pds with
  | sz :: szs', d :: pds' => if zlen d =? sz then d ++ contig szs' pds' else d
  | _, _ => []
  end.

Definition frame_item (q : params) (ds : list (list Z)) : iview :=
  let d0 := hd [] ds in
  let rest := tl ds in
  let pds := removelast rest in
  let dl := last rest [] in
  match parse_leader d0 with
  | Ok l =>
    match parse_trailer dl with
    | Ok t =>
      let data := contig (psizes q) pds in
      match build l t data (zlen data) with
      | Ok p => match view_of p with Ok v => VOk v | _ => VPanic end
      | Err _ => VErr C_INVALID_PAYLOAD
      | Panic => VPanic
      end
    | Err _ => VErr C_INVALID_PAYLOAD
    | Panic => VPanic
    end
  | Err _ => VErr C_INVALID_PAYLOAD
  | Panic => VPanic
  end.

(* the data of the transfers of one iteration: bytes, none longer than its transfer *)
Definition fits (ds : list (list Z)) (szs : list Z) : Prop :=
  Forall2 (fun d sz => bytes_ok d /\ zlen d <= sz) ds szs.

Definition xfer_ok (x : xfer) : Prop := match x with XData d => bytes_ok d | _ => True end.
Definition script_ok (sc : list xfer) : Prop := Forall xfer_ok sc.

(* the history entry e speaks about the script sc: if all transfers of its iteration completed,
   they are the nslots consecutive entries of the script starting at a_start e, and the item is
   what the frame made of exactly these transfers gives *)
Definition entry_ok (sc : list xfer) (e : aentry) : Prop :=
  match a_ds e with
  | Some ds =>
    firstn (nslots (a_prm e)) (skipn (a_start e) sc) = map XData ds /\
    fits ds (slots (a_prm e)) /\
    item_view (a_item e) = frame_item (a_prm e) ds /\ item_view (a_item e) <> VPanic
  | None => exists c, a_item e = IErr c
  end.
