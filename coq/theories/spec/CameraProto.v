(* C16 — the acquisition protocol as the property text states it, independent of the camera code.

   Vocabulary: the effects a camera session has on the device, the stream handle and the host-side
   GenApi context.  A trace is the list of effects in the order they happened.

   The protocol is stated over the *device view* obtained by replaying a trace from the power-on
   state ([replay]): which effect is admissible after which prefix ([allowed]):

     "streaming is enabled and TLParamsLocked set to 1 before AcquisitionStart and before the
      receive loop starts"         AcqStart   needs enabled, locked
                                   LoopStart  needs enabled, locked, acquiring, and no loop alive
     "stopping halts the loop first, then issues AcquisitionStop, clears TLParamsLocked and
      disables the stream"         AcqStop            needs no loop alive
                                   SetTLParamsLocked 0 needs no loop alive, not acquiring
                                   DisableStreaming   needs no loop alive, not acquiring, unlocked
     "... without starting a second loop"
                                   LoopStart needs no loop alive; the number of LoopStart minus
                                   the number of LoopStop ([loops_alive]) stays within 0..1.
     A description may declare TLParamsLocked with a <pValueCopy>: the lock is then mirrored into a
     second register, written right after the register behind <pValue> ([CopyTL b]: admissible exactly
     where [SetTLParamsLocked b] would be, once that register holds b).
     [BankRead k] is a device read of slot k of a selector-addressed register bank (a parameter
     access of the application, no part of the acquisition protocol), [BankPoke k v] is the
     environment: the device's own memory of slot k changes to v behind the host's back.
     A description may also keep TLParamsLocked on the HOST side (an <Integer> with an immediate <Value>,
     a variable of the GenApi context): setting it is [HostTL b], no device access; for the protocol
     it is the same step as [SetTLParamsLocked b] ("TLParamsLocked set to 1 before AcquisitionStart"):
     [d_locked] is the value TLParamsLocked was given last, wherever the description keeps it.
   Nothing here mentions Camera, its methods or its failure handling. *)
From Cam Require Export Outcome.

Inductive effect :=
| CtrlOpen | StrmOpen | GenApiFetch
| EnableStreaming | SetTLParamsLocked (b : bool) | AcqStart | AcqStop
| LoopStart | LoopStop | DisableStreaming | CtrlClose | StrmClose
| GenApiRead                                   (* device read of the TLParamsLocked register *)
| HostTL (b : bool)                            (* host: TLParamsLocked := b where it is a variable of the context *)
| CopyTL (b : bool)                            (* write of the <pValueCopy> mirror of TLParamsLocked *)
| BankRead (k : Z)                             (* device read of slot k of the register bank *)
| BankPoke (k v : Z)                           (* environment: the device's bank slot k becomes v *)
| LoadCtxt (tl start stop copy host stop0 mask : bool)
                                               (* host: camera.ctxt = Some(description); which of the
                                                  three SFNC nodes it defines with the right interface,
                                                  whether TLParamsLocked has a <pValueCopy>, whether it is a
                                                  host-side variable, whether AcquisitionStop's
                                                  CommandValue is 0 (else 1), whether TLParamsLocked is
                                                  a <MaskedIntReg> (written by read-modify-write) *)
| ClearCache.                                  (* host: cached register values dropped *)

Definition effect_eqb (a b : effect) : bool :=
  match a, b with
  | CtrlOpen, CtrlOpen | StrmOpen, StrmOpen | GenApiFetch, GenApiFetch
  | EnableStreaming, EnableStreaming | AcqStart, AcqStart | AcqStop, AcqStop
  | LoopStart, LoopStart | LoopStop, LoopStop | DisableStreaming, DisableStreaming
  | CtrlClose, CtrlClose | StrmClose, StrmClose | GenApiRead, GenApiRead
  | ClearCache, ClearCache => true
  | SetTLParamsLocked x, SetTLParamsLocked y => Bool.eqb x y
  | CopyTL x, CopyTL y => Bool.eqb x y
  | HostTL x, HostTL y => Bool.eqb x y
  | BankRead j, BankRead k => j =? k
  | BankPoke j v, BankPoke k w => (j =? k) && (v =? w)
  | LoadCtxt a1 a2 a3 a4 a5 a6 a7, LoadCtxt b1 b2 b3 b4 b5 b6 b7 =>
      Bool.eqb a1 b1 && Bool.eqb a2 b2 && Bool.eqb a3 b3 && Bool.eqb a4 b4 && Bool.eqb a5 b5 && Bool.eqb a6 b6
      && Bool.eqb a7 b7
  | _, _ => false
  end.

(* device + stream handle as seen from outside *)
Record dev := { d_copen : bool; d_sopen : bool; d_enabled : bool; d_locked : bool;
                d_acq : bool; d_alive : bool;
                d_copy : bool                  (* the mirror register of TLParamsLocked *) }.

Definition dev0 : dev :=
  {| d_copen := false; d_sopen := false; d_enabled := false; d_locked := false;
     d_acq := false; d_alive := false; d_copy := false |}.

Definition dstep (d : dev) (e : effect) : dev :=
  match e with
  | CtrlOpen => {| d_copen := true; d_sopen := d_sopen d; d_enabled := d_enabled d;
                   d_locked := d_locked d; d_acq := d_acq d; d_alive := d_alive d;
                 d_copy := d_copy d |}
  | CtrlClose => {| d_copen := false; d_sopen := d_sopen d; d_enabled := d_enabled d;
                    d_locked := d_locked d; d_acq := d_acq d; d_alive := d_alive d;
                 d_copy := d_copy d |}
  | StrmOpen => {| d_copen := d_copen d; d_sopen := true; d_enabled := d_enabled d;
                   d_locked := d_locked d; d_acq := d_acq d; d_alive := d_alive d;
                 d_copy := d_copy d |}
  | StrmClose => {| d_copen := d_copen d; d_sopen := false; d_enabled := d_enabled d;
                    d_locked := d_locked d; d_acq := d_acq d; d_alive := d_alive d;
                 d_copy := d_copy d |}
  | EnableStreaming => {| d_copen := d_copen d; d_sopen := d_sopen d; d_enabled := true;
                          d_locked := d_locked d; d_acq := d_acq d; d_alive := d_alive d;
                 d_copy := d_copy d |}
  | DisableStreaming => {| d_copen := d_copen d; d_sopen := d_sopen d; d_enabled := false;
                           d_locked := d_locked d; d_acq := d_acq d; d_alive := d_alive d;
                 d_copy := d_copy d |}
  | SetTLParamsLocked b | HostTL b => {| d_copen := d_copen d; d_sopen := d_sopen d; d_enabled := d_enabled d;
                              d_locked := b; d_acq := d_acq d; d_alive := d_alive d;
                 d_copy := d_copy d |}
  | AcqStart => {| d_copen := d_copen d; d_sopen := d_sopen d; d_enabled := d_enabled d;
                   d_locked := d_locked d; d_acq := true; d_alive := d_alive d;
                 d_copy := d_copy d |}
  | AcqStop => {| d_copen := d_copen d; d_sopen := d_sopen d; d_enabled := d_enabled d;
                  d_locked := d_locked d; d_acq := false; d_alive := d_alive d;
                 d_copy := d_copy d |}
  | LoopStart => {| d_copen := d_copen d; d_sopen := d_sopen d; d_enabled := d_enabled d;
                    d_locked := d_locked d; d_acq := d_acq d; d_alive := true;
                 d_copy := d_copy d |}
  | LoopStop => {| d_copen := d_copen d; d_sopen := d_sopen d; d_enabled := d_enabled d;
                   d_locked := d_locked d; d_acq := d_acq d; d_alive := false;
                 d_copy := d_copy d |}
  | CopyTL b => {| d_copen := d_copen d; d_sopen := d_sopen d; d_enabled := d_enabled d;
                  d_locked := d_locked d; d_acq := d_acq d; d_alive := d_alive d; d_copy := b |}
  | GenApiFetch | GenApiRead | LoadCtxt _ _ _ _ _ _ _ | ClearCache | BankRead _ | BankPoke _ _ => d
  end.

Definition replay_from (d : dev) (t : list effect) : dev := fold_left dstep t d.
Definition replay (t : list effect) : dev := replay_from dev0 t.

(* Is effect [e] admissible when the device view is [d]? *)
Definition allowed (d : dev) (e : effect) : bool :=
  match e with
  | EnableStreaming => negb (d_alive d)
  | SetTLParamsLocked true | HostTL true => d_enabled d && negb (d_alive d)
  | AcqStart => d_enabled d && d_locked d && negb (d_alive d)
  | LoopStart => d_enabled d && d_locked d && d_acq d && negb (d_alive d)
  | LoopStop => d_alive d
  | AcqStop => negb (d_alive d)
  | SetTLParamsLocked false | HostTL false => negb (d_alive d) && negb (d_acq d)
  | DisableStreaming => negb (d_alive d) && negb (d_acq d) && negb (d_locked d)
  | CopyTL true => d_enabled d && negb (d_alive d) && d_locked d
  | CopyTL false => negb (d_alive d) && negb (d_acq d) && negb (d_locked d)
  | _ => true
  end.

(* The ordering predicate: every effect of the trace is admissible after the effects before it. *)
Definition proto_ok_from (d : dev) (t : list effect) : Prop :=
  forall p e q, t = p ++ e :: q -> allowed (replay_from d p) e = true.
Definition proto_ok (t : list effect) : Prop := proto_ok_from dev0 t.

(* Executable form. *)
Fixpoint proto_check (d : dev) (t : list effect) : bool :=
  match t with
  | [] => true
  | e :: q => allowed d e && proto_check (dstep d e) q
  end.

(* Number of receive loops alive after a trace, by counting. *)
Fixpoint loops_alive (t : list effect) : Z :=
  match t with
  | [] => 0
  | LoopStart :: q => 1 + loops_alive q
  | LoopStop :: q => -1 + loops_alive q
  | _ :: q => loops_alive q
  end.

(* While a loop is alive the device is in the streaming configuration. *)
Definition streaming_config (d : dev) : Prop :=
  d_alive d = true -> d_enabled d = true /\ d_locked d = true /\ d_acq d = true.

(* "e1 happened before, and was not undone by e0 since": the classical reading of
   "EnableStreaming before AcquisitionStart". *)
Definition since (e1 e0 : effect) (p : list effect) : Prop :=
  exists p1 p2, p = p1 ++ e1 :: p2 /\ ~ In e0 p2.

(* TLParamsLocked is written through its register or, where the description keeps it on the host, as a
   variable of the context. *)
Definition tl_write (b : bool) (e : effect) : Prop := e = SetTLParamsLocked b \/ e = HostTL b.

(* "TLParamsLocked was given the value b, and not the other value since" *)
Definition tl_since (b : bool) (p : list effect) : Prop :=
  exists p1 e p2, p = p1 ++ e :: p2 /\ tl_write b e /\ forall e', In e' p2 -> ~ tl_write (negb b) e'.
