(* Independent fixed-offset specification of USB3 Vision stream leaders and trailers.

   leader : 0 magic 0x4C563355 | 4 reserved | 6 leader size | 8 block id (8) | 16 reserved |
            18 payload type | 20.. type specific:
              image / image extended chunk: 20 timestamp (8) | 28 pixel format | 32 size x |
              36 size y | 40 offset x | 44 offset y | 48 padding x (2) | 50 reserved (2)
              chunk: 20 timestamp (8)
   trailer: 0 magic 0x54563355 | 4 reserved | 6 trailer size | 8 block id (8) | 16 status |
            18 reserved | 20 valid payload size (8) | 28.. type specific:
              image: 28 size y; image extended chunk: 28 size y | 32 chunk layout id;
              chunk: 28 chunk layout id *)
From Cam Require Import Outcome Bytes GenCPLayout.

Definition spec_payload_type (v : Z) : option Z :=
  if v =? 1 then Some 0 else if v =? 16385 then Some 1 else if v =? 16384 then Some 2 else None.

Definition spec_payload_status (v : Z) : option Z :=
  if v =? 0 then Some 0 else if v =? 41216 then Some 1 else if v =? 41217 then Some 2 else None.

Record sleader := { sl_size : Z; sl_block_id : Z; sl_type : Z; sl_raw : list Z }.

Definition spec_leader (bs : list Z) : option sleader :=
  if (length bs <? 20)%nat then None else
  if negb (le_at 0 4 bs =? 1280717653) then None else
  match spec_payload_type (le_at 18 2 bs) with
  | Some ty => Some {| sl_size := le_at 6 2 bs; sl_block_id := le_at 8 8 bs; sl_type := ty;
                       sl_raw := skipn 20 bs |}
  | None => None
  end.

Record strailer := { st_size : Z; st_block_id : Z; st_status : Z; st_valid : Z; st_raw : list Z }.

Definition spec_trailer (bs : list Z) : option strailer :=
  if (length bs <? 28)%nat then None else
  if negb (le_at 0 4 bs =? 1414935381) then None else
  match spec_payload_status (le_at 16 2 bs) with
  | Some st => Some {| st_size := le_at 6 2 bs; st_block_id := le_at 8 8 bs; st_status := st;
                       st_valid := le_at 20 8 bs; st_raw := skipn 28 bs |}
  | None => None
  end.

(* image-specific leader part, relative to the start of the specific part;
   [pf] maps a pixel-format code to a format (None = not a format) *)
Record simage_leader := {
  si_timestamp : Z; si_pf : Z; si_width : Z; si_height : Z; si_xoff : Z; si_yoff : Z; si_xpad : Z
}.

Definition spec_image_leader (pf : Z -> option Z) (raw : list Z) : option simage_leader :=
  if (length raw <? 32)%nat then None else
  match pf (le_at 8 4 raw) with
  | Some f => Some {| si_timestamp := le_at 0 8 raw; si_pf := f; si_width := le_at 12 4 raw;
                      si_height := le_at 16 4 raw; si_xoff := le_at 20 4 raw; si_yoff := le_at 24 4 raw;
                      si_xpad := le_at 28 2 raw |}
  | None => None
  end.

Definition spec_u32_at (off : nat) (raw : list Z) : option Z :=
  if (length raw <? off + 4)%nat then None else Some (le_at off 4 raw).

Definition spec_u64_at (off : nat) (raw : list Z) : option Z :=
  if (length raw <? off + 8)%nat then None else Some (le_at off 8 raw).
