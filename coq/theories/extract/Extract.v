(* Extraction of the executable model for the correspondence driver.
   Only ExtrOcamlBasic is used (bool, option, unit, list, prod, sumbool ->
   native OCaml datatypes); Z, N, positive, nat stay the extracted inductives. *)
From Coq Require Import ExtrOcamlBasic.
From Cam Require Import Dispatch.
Extraction "../ocaml/model.ml" dispatch.
